#!/usr/bin/env python3
"""Prints the seeded-change detection table (markdown) from seeded/*/meta.json."""
import glob, json, os
HERE = os.path.dirname(os.path.abspath(__file__))
rows = []
for f in sorted(glob.glob(os.path.join(HERE, "seeded", "*", "meta.json"))):
    d = json.load(open(f))
    det = d.get("detected_by_quick_checks", {})
    caught = [p + (" (no-failing-input-found)" if v.get("no_failing_input_found") and v["violation_lines"] == 1 else "") for p, v in det.items() if v["exit"] != 0]
    missed = [p for p, v in det.items() if v["exit"] == 0]
    note = d.get("strengthened", "")
    rows.append("| %s | %s | %s | %s | %s |" % (os.path.basename(os.path.dirname(f)), (d.get("summary") or "")[:150].replace("|", "/").replace("\n", " "),
                (d.get("what_it_needs_to_manifest") or "")[:120].replace("|", "/").replace("\n", " "), ", ".join(caught) or ("see note" if note else "MISSED"), ", ".join(missed)))
print("| change | what it does | needs | caught by (quick) | also run, silent |")
print("|---|---|---|---|---|")
print("\n".join(rows))
