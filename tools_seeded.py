#!/usr/bin/env python3
"""Run checks against a seeded change without touching /repo: a scratch worktree of /repo's HEAD gets the patch,
PV_REPO points the checks at it, evidence/replays go to a scratch directory.

usage: tools_seeded.py <patch.diff> <Cxx> [<Cyy> ...] [--tier quick|thorough]
prints one line per check: <pid> exit=<rc> violations=<n> [first VIOLATION/FAIL lines]"""
import os, subprocess, sys, tempfile, shutil, re

def main():
    args = [a for a in sys.argv[1:] if not a.startswith("--")]
    tier = "quick"
    if "--tier" in sys.argv:
        tier = sys.argv[sys.argv.index("--tier") + 1]
        args = [a for a in args if a != tier]
    patch, pids = os.path.abspath(args[0]), args[1:]
    here = os.path.dirname(os.path.abspath(__file__))
    wt = tempfile.mkdtemp(prefix="seedeval_", dir="/tmp")
    os.rmdir(wt)
    out = tempfile.mkdtemp(prefix="seedout_", dir="/tmp")
    try:
        subprocess.run(["git", "-C", "/repo", "worktree", "add", "-q", "--detach", wt, "HEAD"], check=True)
        r = subprocess.run(["git", "-C", wt, "apply", patch], capture_output=True, text=True)
        if r.returncode != 0:
            print("PATCH DOES NOT APPLY:", r.stderr.strip()[:300]); return 2
        env = dict(os.environ, PV_REPO=wt, PV_EVIDENCE_DIR=os.path.join(out, "evidence"), PV_REPLAY_DIR=os.path.join(out, "replays"), PV_GEN_DIR=os.path.join(out, "gen"))
        procs = {pid: subprocess.Popen([os.path.join(here, "check"), pid, "--tier", tier], env=env, stdout=subprocess.PIPE, stderr=subprocess.STDOUT, text=True, cwd=here) for pid in pids}
        rc_all = 0
        for pid, p in procs.items():
            txt = p.communicate()[0]
            lines = [l for l in txt.splitlines() if re.search(r"VIOLATION|FAIL|BROKEN-TIE|KNOWN-FINDING", l)]
            nviol = sum(1 for l in lines if l.startswith("VIOLATION"))
            print("%s exit=%d violations=%d" % (pid, p.returncode, nviol))
            for l in lines[:6]:
                print("    " + l[:260])
            rc_all |= p.returncode
        return 0
    finally:
        subprocess.run(["git", "-C", "/repo", "worktree", "remove", "--force", wt], capture_output=True)
        shutil.rmtree(out, ignore_errors=True)

if __name__ == "__main__":
    sys.exit(main())
