#!/bin/sh
# usage: dbg.sh file line  -> compiles prefix up to line (inclusive) then Show.
f=$1; n=$2
head -n $n $f > /tmp/dbg_prefix.v
echo "Show. Abort." >> /tmp/dbg_prefix.v
cd /verif/coq && coqc -R . PV /tmp/dbg_prefix.v 2>&1 | tail -${3:-40}
