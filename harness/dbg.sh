#!/bin/sh
# usage: dbg.sh file.v LINE [TAILLINES] -> compiles the first LINE lines then `Show.` (prints the open goals)
f=$1; n=$2
d=$(mktemp -d /tmp/dbg.XXXXXX)
head -n $n $f > $d/dbg_prefix.v
echo "Show. Abort." >> $d/dbg_prefix.v
cd /verif/coq && timeout 600 coqc -R . PV $d/dbg_prefix.v 2>&1 | tail -${3:-40}
rm -rf $d
