"""Library-level hash-seed probe (run as `python -m pv.hashprobe SEED` under different PYTHONHASHSEED values):
seeded sampler sweeps started from trees that hold several outliers and string-named data points; prints a
canonical transcript (tree, log_p_one in float.hex) that must not depend on the interpreter's hash seed."""
import sys
from fractions import Fraction
import random

import numpy as np


def main(seed):
    from phyclone.data.base import DataPoint
    from phyclone.mcmc.gibbs_mh import DataPointSampler, PruneRegraphSampler
    from phyclone.mcmc.particle_gibbs import ParticleGibbsSubtreeSampler, ParticleGibbsTreeSampler
    from phyclone.smc.samplers import UnconditionalSMCSampler
    from phyclone.utils.dev import clear_proposal_dist_caches

    from .kernels import KINDS, make_kernel, make_tree_dist
    from .trees import build_tree, tree_spec

    r = random.Random(seed)
    n = 7
    data = []
    for i in range(n):
        v = np.log(np.array([[float(Fraction(r.randint(1, 16), 16)) for _ in range(5)]]))
        data.append(DataPoint(i, v, name="mutation_%c%d" % ("abcdefg"[i], i * 7919), outlier_prob=np.log(0.3), outlier_prob_not=np.log(0.7)))
    starts = [((((0,), ()),), (1, 2, 3, 4, 5, 6)), ((((0, 1), (((2,), ()),)),), (3, 4, 5, 6)), ((((0,), ()), ((1,), ())), (2, 3, 4, 5, 6))]
    for kind in KINDS:
        for st in starts:
            rng = np.random.default_rng(seed)
            td = make_tree_dist(1.0)
            k = make_kernel(kind, td, rng, 0.1, True)
            movers = [ParticleGibbsTreeSampler(k, rng, num_particles=4, resample_threshold=0.5),
                      DataPointSampler(td, rng, outliers=True), PruneRegraphSampler(td, rng),
                      ParticleGibbsSubtreeSampler(k, rng, num_particles=4, resample_threshold=0.5),
                      UnconditionalSMCSampler(k, num_particles=4, resample_threshold=0.5)]
            tree = build_tree(st, data)
            for sweep in range(3):
                for mv in movers:
                    clear_proposal_dist_caches()
                    tree = mv.sample_tree(tree)
                    tree.relabel_nodes()
                    print(kind, sweep, type(mv).__name__, tree_spec(tree), float(td.log_p_one(tree)).hex())


if __name__ == "__main__":
    main(int(sys.argv[1]))
