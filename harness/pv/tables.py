"""Generator / writer of PhyClone input tables (TSV/CSV) and cluster files, plus a quiet wrapper around the
real loader.  Used by C05 and C17.

A row is a dict with keys
  mutation_id, sample_id (str), ref, alt, major, minor, normal (int),
  tumour_content, error_rate (decimal strings such as "0.3", or None when the column is absent).
Decimal strings are written verbatim, so the harness knows the exact rational the file denotes
(`Fraction("0.3")`) while the implementation parses the nearest double.
"""
import contextlib
import io
import os
from fractions import Fraction

REQUIRED = ["mutation_id", "sample_id", "ref_counts", "alt_counts", "major_cn", "minor_cn", "normal_cn"]
KEYS = {"ref_counts": "ref", "alt_counts": "alt", "major_cn": "major", "minor_cn": "minor", "normal_cn": "normal"}


def row(mutation_id, sample_id, ref, alt, major, minor, normal=2, tumour_content=None, error_rate=None):
    return {
        "mutation_id": str(mutation_id),
        "sample_id": str(sample_id),
        "ref": int(ref),
        "alt": int(alt),
        "major": int(major),
        "minor": int(minor),
        "normal": int(normal),
        "tumour_content": tumour_content,
        "error_rate": error_rate,
    }


def write_table(path, rows, sep="\t", tumour_content=None, error_rate=None, extra_cols=False):
    """Write rows in the given order.  tumour_content / error_rate: None = include the column iff every row
    carries a value; True/False forces it."""
    has_tc = all(r.get("tumour_content") is not None for r in rows) and bool(rows) if tumour_content is None else tumour_content
    has_er = all(r.get("error_rate") is not None for r in rows) and bool(rows) if error_rate is None else error_rate
    cols = list(REQUIRED)
    if extra_cols:
        cols.insert(2, "chrom_note")  # an unrelated column in the middle
    if has_tc:
        cols.append("tumour_content")
    if has_er:
        cols.append("error_rate")
    if extra_cols:
        cols.append("variant_cases")
    lines = [sep.join(cols)]
    for r in rows:
        cells = []
        for c in cols:
            if c in ("mutation_id", "sample_id"):
                cells.append(r[c])
            elif c in KEYS:
                cells.append(str(r[KEYS[c]]))
            elif c == "tumour_content":
                cells.append(str(r["tumour_content"]))
            elif c == "error_rate":
                cells.append(str(r["error_rate"]))
            else:
                cells.append("x")
        lines.append(sep.join(cells))
    with open(path, "w") as fh:
        fh.write("\n".join(lines) + "\n")
    return has_tc, has_er


def write_clusters(path, assignment, outlier_probs=None, per_sample=None, order=None):
    """assignment: dict mutation_id -> cluster_id (always tab separated: the code reads it with sep='\\t').
    outlier_probs: dict cluster_id -> decimal string (adds the outlier_prob column).
    per_sample: list of sample ids -> PyClone-VI style, one line per (mutation, sample) with extra columns."""
    muts = list(order) if order is not None else list(assignment)
    cols = ["mutation_id"] + (["sample_id"] if per_sample else []) + ["cluster_id"]
    if per_sample:
        cols += ["cellular_prevalence"]
    if outlier_probs is not None:
        cols.append("outlier_prob")
    lines = ["\t".join(cols)]
    for m in muts:
        for s in per_sample or [None]:
            cells = [str(m)] + ([str(s)] if per_sample else []) + [str(assignment[m])]
            if per_sample:
                cells.append("0.5")
            if outlier_probs is not None:
                cells.append(str(outlier_probs[assignment[m]]))
            lines.append("\t".join(cells))
    with open(path, "w") as fh:
        fh.write("\n".join(lines) + "\n")


class NullRng:
    """load_data only passes its rng to the data-driven loss-prior heuristic (assign_loss_prob=True), which the
    checks never enable; any use is an error."""

    def __getattr__(self, name):
        raise AssertionError("load_data used its rng (%s) although assign_loss_prob=False" % name)


def load(path, cluster_file=None, density="beta-binomial", grid_size=101, outlier_prob=1e-4, precision=400):
    """Real `phyclone.data.pyclone.load_data`, stdout swallowed.  Returns (data, samples, printed)."""
    from phyclone.data.pyclone import load_data

    buf = io.StringIO()
    with contextlib.redirect_stdout(buf):
        data, samples = load_data(
            path,
            NullRng(),
            0.0001,
            0.4,
            False,
            cluster_file=cluster_file,
            density=density,
            grid_size=grid_size,
            outlier_prob=outlier_prob,
            precision=precision,
        )
    return data, samples, buf.getvalue()


def load_outcome(path, **kw):
    """('ok', data, samples) or (error kind, exception text, None): MajorCopyNumberError / KeyError / ValueError / ..."""
    try:
        data, samples, _ = load(path, **kw)
        return "ok", data, samples
    except Exception as e:  # noqa: BLE001 - the kind of error is the observation
        return type(e).__name__, str(e)[:200], None


def frac(x):
    """Exact rational denoted by a decimal string / int / Fraction."""
    return x if isinstance(x, Fraction) else Fraction(str(x))


def coq_q(x):
    """Fraction -> Coq Qc term."""
    x = frac(x)
    return "(Q2Qc (%d # %d))" % (x.numerator, x.denominator) if x >= 0 else "(Q2Qc ((%d) # %d))" % (x.numerator, x.denominator)


def coq_Q(x):
    """Fraction -> Coq Q term (for observed values)."""
    x = Fraction(x)
    return "(%d # %d)%%Q" % (x.numerator, x.denominator) if x >= 0 else "((%d) # %d)%%Q" % (x.numerator, x.denominator)


def tmpdir(ctx, name):
    d = os.path.join("/tmp", "pv_%s_%s_%d" % (ctx.pid, name, os.getpid()))
    os.makedirs(d, exist_ok=True)
    return d
