"""Synthetic trace files for the summary commands (C11, C12, C16) and parsers for their outputs.

A trace file is what `phyclone run` writes through run.py / process_trace.create_main_run_output:
a gzip-compressed pickle of
    {chain_num: {"data": [DataPoint], "samples": [str], "chain_num": chain_num,
                 "trace": [{"iter", "time", "alpha", "log_p_one", "tree": Tree.to_dict()}],
                 optional "clusters": DataFrame[mutation_id, cluster_id]}}
whose keys are inserted in chain *completion* order (results[res_chain] = result).
"""
import csv
import gzip
import io
import os
import pickle
import tarfile

import numpy as np

from .trees import build_tree, canon


# ---------------------------------------------------------------- data
def make_points(n_points, n_samples, grid=5, rng=None, names=None, outlier_prob=0.0):
    """DataPoints with small dyadic likelihood grids (linear values k/16), idx = position."""
    import math

    from phyclone.data.base import DataPoint

    data = []
    for i in range(n_points):
        if rng is None:
            vals = [[((3 * i + 5 * s + 7 * g) % 13 + 2) / 16.0 for g in range(grid)] for s in range(n_samples)]
        else:
            vals = [[rng.randint(1, 16) / 16.0 for g in range(grid)] for s in range(n_samples)]
        arr = np.log(np.array(vals, dtype=float))
        if outlier_prob:
            op, opn = math.log(outlier_prob), math.log1p(-outlier_prob)
        else:
            op, opn = 0, 0.0
        name = names[i] if names is not None else "m%d" % i
        data.append(DataPoint(i, arr, name=name, outlier_prob=op, outlier_prob_not=opn))
    return data


def sample_names(n):
    return ["S%d" % i for i in range(n)]


def clusters_frame(cluster_members):
    """cluster_members: {cluster_id(int): [mutation ids]} -> DataFrame as create_main_run_output stores it."""
    import pandas as pd

    rows = [(m, int(c)) for c, ms in cluster_members.items() for m in ms]
    return pd.DataFrame(rows, columns=["mutation_id", "cluster_id"]).drop_duplicates()


def write_cluster_file(path, cluster_members, samples=None):
    """cluster_members: {cluster_id: [mutation ids]}.  samples given -> long format (one line per mutation and sample, with
    per-sample columns that differ between the lines of a mutation), else one line per mutation."""
    with open(path, "w") as fh:
        if samples:
            fh.write("mutation_id\tsample_id\tcluster_id\tcellular_prevalence\tcellular_prevalence_std\tcluster_assignment_prob\n")
            for c, ms in cluster_members.items():
                for m in ms:
                    for k, smp in enumerate(samples):
                        fh.write("%s\t%s\t%d\t%.3f\t0.01\t1.0\n" % (m, smp, int(c), 0.1 + 0.07 * k))
        else:
            fh.write("mutation_id\tcluster_id\n")
            for c, ms in cluster_members.items():
                for m in ms:
                    fh.write("%s\t%d\n" % (m, int(c)))
    return path


# ---------------------------------------------------------------- trees
def relabelled_tree(spec, data, labels=None, kid_order=None):
    """Build a real tree for a canonical spec; `kid_order` (a random.Random or None) permutes the creation
    order of siblings (changes node labels and rustworkx successor order, not the tree's identity);
    `labels` = 'relabel' additionally calls relabel_nodes()."""
    from phyclone.tree import Tree

    t = Tree(data[0].grid_size)

    def rec(node):
        own, kids = node
        kids = list(kids)
        if kid_order is not None:
            kid_order.shuffle(kids)
        ch = [rec(k) for k in kids]
        return t.create_root_node(children=ch, data=[data[i] for i in own])

    roots = list(spec[0])
    if kid_order is not None:
        kid_order.shuffle(roots)
    for r in roots:
        rec(r)
    for i in spec[1]:
        t.add_data_point_to_outliers(data[i])
    if labels == "relabel":
        t.relabel_nodes()
    return t


def tree_to_spec(tree):
    from .trees import tree_spec

    return tree_spec(tree)


# ---------------------------------------------------------------- results dict / file
def make_results(chains, data, samples, clusters=None, order=None, thin=3):
    """chains: {chain_num: [(log_p_one, Tree)]}; order: insertion order of the chain keys (default sorted).
    The "iter" field is what run.py records for a run with the given thinning interval: 0 for the post-burn-in entry,
    then the sweep numbers 0, thin, 2*thin, ... - NOT the position of the entry in the list."""
    results = {}
    keys = list(order) if order is not None else sorted(chains)
    for c in keys:
        trace = []
        for i, (score, tree) in enumerate(chains[c]):
            trace.append({"iter": 0 if i == 0 else (i - 1) * thin, "time": 0.25 * i, "alpha": 1.0, "log_p_one": float(score), "tree": tree.to_dict()})
        res = {"data": data, "samples": list(samples), "trace": trace, "chain_num": c}
        if clusters is not None:
            res["clusters"] = clusters
        results[c] = res
    return results


def write_trace(path, results):
    with gzip.GzipFile(path, mode="wb") as fh:
        pickle.dump(results, fh)
    return path


# ---------------------------------------------------------------- output parsers
def _conv(v):
    if v == "":
        return None
    try:
        return int(v)
    except ValueError:
        try:
            return float(v)
        except ValueError:
            return v


def parse_tsv_text(text):
    rd = csv.DictReader(io.StringIO(text), delimiter="\t")
    return [{k: _conv(v) for k, v in row.items()} for row in rd]


def read_tsv(path):
    with open(path) as fh:
        return parse_tsv_text(fh.read())


class NewickError(Exception):
    pass


def parse_newick(s):
    """Parse the writer's dialect: '(child,child)label' / 'label', terminated by ';'.
    Returns (label, [children]) with labels as int where possible."""
    s = s.strip()
    if not s.endswith(";"):
        raise NewickError("no terminating ';' in %r" % s)
    s = s[:-1]
    pos = [0]

    def node():
        kids = []
        if pos[0] < len(s) and s[pos[0]] == "(":
            pos[0] += 1
            while True:
                kids.append(node())
                if pos[0] >= len(s):
                    raise NewickError("unbalanced in %r" % s)
                if s[pos[0]] == ",":
                    pos[0] += 1
                    continue
                if s[pos[0]] == ")":
                    pos[0] += 1
                    break
                raise NewickError("unexpected %r in %r" % (s[pos[0]], s))
        j = pos[0]
        while j < len(s) and s[j] not in ",()":
            j += 1
        lab = s[pos[0] : j]
        pos[0] = j
        return (_conv(lab), kids)

    out = node()
    if pos[0] != len(s):
        raise NewickError("trailing text in %r" % s)
    return out


def read_newick(path):
    with open(path) as fh:
        return parse_newick(fh.read())


def newick_nodes(nw):
    out = []

    def rec(n):
        out.append(n[0])
        for k in n[1]:
            rec(k)

    rec(nw)
    return out


def newick_parent_map(nw):
    par = {}

    def rec(n):
        for k in n[1]:
            par[k[0]] = n[0]
            rec(k)

    rec(nw)
    return par


def spec_from_outputs(table_rows, nw, point_of):
    """Canonical spec (trees.canon) of the tree described by a results table + Newick tree.
    point_of: mutation_id -> data index (several mutations may share one index when clustered).
    Raises ValueError when the table and the Newick tree are inconsistent."""
    if nw[0] != "root":
        raise ValueError("Newick root label is %r" % (nw[0],))
    own = {}
    outl = set()
    for r in table_rows:
        p = point_of[r["mutation_id"]]
        if r["clone_id"] == -1:
            outl.add(p)
        else:
            own.setdefault(r["clone_id"], set()).add(p)
    labels = newick_nodes(nw)
    if len(set(labels)) != len(labels):
        raise ValueError("duplicate labels in Newick tree %r" % (labels,))
    for c in own:
        if c not in labels:
            raise ValueError("clone id %r not in the Newick tree" % (c,))

    def rec(n):
        return (tuple(sorted(own.get(n[0], ()))), tuple(rec(k) for k in n[1]))

    return canon((tuple(rec(k) for k in nw[1]), tuple(sorted(outl))))


def read_archive(path):
    """{topology_id: {"table": rows, "newick": parsed, "newick_text": str}}"""
    out = {}
    with tarfile.open(path, "r:gz") as tf:
        for m in tf.getmembers():
            if not m.isfile():
                continue
            top = os.path.dirname(m.name)
            text = tf.extractfile(m).read().decode()
            d = out.setdefault(top, {})
            if m.name.endswith(".tsv"):
                d["table"] = parse_tsv_text(text)
            elif m.name.endswith(".nwk"):
                d["newick_text"] = text.strip()
                d["newick"] = parse_newick(text)
    return out


class Quiet:
    """Silence the commands' prints."""

    def __enter__(self):
        import sys

        self._o = sys.stdout
        sys.stdout = io.StringIO()
        return self

    def __exit__(self, *a):
        import sys

        sys.stdout = self._o
        return False


# ---------------------------------------------------------------- running the real commands on a job
def _err(e):
    """(kind, innermost phyclone frame 'file.py:function') of an exception raised by a command."""
    import traceback

    where = "?"
    for fr in traceback.extract_tb(e.__traceback__):
        if "/phyclone/" in fr.filename:
            where = "%s:%s" % (fr.filename.split("/phyclone/")[-1], fr.name)
    return {"error": type(e).__name__, "message": str(e)[:200], "where": where}


def build_job_trees(job, data):
    import random

    chains = {}
    for c, entries in job["chains"].items():
        lst = []
        for score, spec, variant in entries:
            mode, seed = variant
            if mode == "plain":
                t = relabelled_tree(spec, data)
            elif mode == "perm":
                t = relabelled_tree(spec, data, kid_order=random.Random(seed))
            else:
                t = relabelled_tree(spec, data, kid_order=random.Random(seed), labels="relabel")
            lst.append((score, t))
        chains[c] = lst
    return chains


def labelled_spec(tree):
    """(roots, outliers) with node = (label, sorted own idx, kids) - labels as the commands see them."""

    def rec(node):
        return (node, tuple(sorted(x.idx for x in tree.get_data(node))), tuple(rec(c) for c in tree.get_children(node)))

    return (tuple(rec(r) for r in tree.roots), tuple(sorted(x.idx for x in tree.outliers)))


def describe_entry(tree_dict):
    """What the commands will see for one trace entry: the labelled tree after Tree.from_dict and the real
    per-clone CCF / clonal prevalence dictionaries (or the exception they raise)."""
    from phyclone.process_trace.map import get_map_node_ccfs_and_clonal_prev_dicts
    from phyclone.tree import Tree

    tree = Tree.from_dict(tree_dict)
    d = {"lspec": labelled_spec(tree)}
    try:
        ccf, prev = get_map_node_ccfs_and_clonal_prev_dicts(tree)
        d["ccf"] = {k: [float(x) for x in v] for k, v in ccf.items()}
        d["prev"] = {k: [float(x) for x in v] for k, v in prev.items()}
    except Exception as e:  # noqa: BLE001
        d["ccf_error"] = _err(e)
    return d


def run_job(job):
    """Write the job's trace to a real gzip-pickle file and run the requested commands of
    phyclone.process_trace on it.  Returns {cmd_key: parsed outputs | error dict}."""
    import shutil
    import sys
    import tempfile
    import warnings

    warnings.simplefilter("ignore")
    from phyclone.process_trace.process_trace import write_consensus_results, write_map_results, write_topology_report

    data = make_points(job["n_points"], job["n_samples"], grid=job.get("grid", 5), names=job.get("names"), outlier_prob=job.get("outlier_prob", 0.0))
    samples = sample_names(job["n_samples"])
    clusters = clusters_frame(job["clusters"]) if job.get("clusters") else None
    chains = build_job_trees(job, data)
    results = make_results(chains, data, samples, clusters=clusters, order=job.get("order"))
    d = tempfile.mkdtemp(prefix="pvtrace_")
    out = {}
    if job.get("want_trees"):
        out["_trees"] = {c: [describe_entry(e["tree"]) for e in results[c]["trace"]] for c in results}
    try:
        if job.get("clusters"):
            # clustered jobs go through the REAL writer with a real cluster file (two-column, or PyClone-VI style: one line per
            # mutation and sample with extra columns; the file also lists clusters / mutations the loader dropped)
            from phyclone.process_trace.process_trace import create_main_run_output

            cf = os.path.join(d, "clusters.tsv")
            fmt = job.get("cluster_file_format") or ("long" if (len(job["clusters"]) + job["n_samples"]) % 2 == 0 else "two-column")
            write_cluster_file(cf, job["clusters"], samples if fmt == "long" else None)
            for res in results.values():
                res.pop("clusters", None)
            f = os.path.join(d, "trace.pkl.gz")
            with Quiet():
                create_main_run_output(cf, f, results)
        else:
            f = write_trace(os.path.join(d, "trace.pkl.gz"), results)
        for cmd in job["cmds"]:
            key = "/".join(str(x) for x in cmd)
            tab, nwk, arch = os.path.join(d, "t.tsv"), os.path.join(d, "t.nwk"), os.path.join(d, "a.tar.gz")
            for p in (tab, nwk, arch):
                if os.path.exists(p):
                    os.remove(p)
            try:
                with Quiet():
                    if cmd[0] == "map":
                        write_map_results(f, tab, nwk, map_type=cmd[1])
                        out[key] = {"table": read_tsv(tab), "newick_text": open(nwk).read().strip()}
                    elif cmd[0] == "cons":
                        write_consensus_results(f, tab, nwk, consensus_threshold=cmd[1], weight_type=cmd[2])
                        out[key] = {"table": read_tsv(tab), "newick_text": open(nwk).read().strip()}
                    elif cmd[0] == "topo":
                        k = sys.maxsize if cmd[1] == "all" else cmd[1]
                        if cmd[1] is None:
                            write_topology_report(f, tab)
                            out[key] = {"report": read_tsv(tab)}
                        else:
                            write_topology_report(f, tab, topologies_archive=arch, top_trees=k)
                            a = read_archive(arch)
                            out[key] = {"report": read_tsv(tab), "archive": {t: {"table": v.get("table"), "newick_text": v.get("newick_text")} for t, v in a.items()}}
            except Exception as e:  # noqa: BLE001 - the kind of exception is the observation
                out[key] = _err(e)
                # a report may have been written before the archive step failed
                if cmd[0] == "topo" and os.path.exists(tab):
                    try:
                        out[key]["report"] = read_tsv(tab)
                    except Exception:  # noqa: BLE001
                        pass
    finally:
        shutil.rmtree(d, ignore_errors=True)
    return out


def run_jobs(jobs, workers=4):
    """Run jobs in a small process pool (each worker imports phyclone once)."""
    from concurrent.futures import ProcessPoolExecutor

    if workers <= 1 or len(jobs) < 4:
        return [run_job(j) for j in jobs]
    with ProcessPoolExecutor(max_workers=workers) as ex:
        return list(ex.map(run_job, jobs, chunksize=max(1, len(jobs) // (workers * 8))))


# ---------------------------------------------------------------- clade support (oracle shared by C12 / C16)
def spec_clades(spec):
    from .trees import clades

    return clades(spec)


def consensus_weights(entries, weight_type):
    """entries: [(score, spec)] in trace order.  Returns [(spec, weight)] as write_consensus_results uses them:
    counts -> every entry with weight 1/n; joint-likelihood -> one item per distinct tree with weight
    exp(max score) * count, normalised."""
    import math

    if weight_type == "counts":
        return [(sp, 1.0 / len(entries)) for _, sp in entries]
    cls = {}
    for s, sp in entries:
        c = cls.setdefault(sp, [0, None])
        c[0] += 1
        c[1] = s if c[1] is None else max(c[1], s)
    mx = max(c[1] for c in cls.values())
    w = {sp: c[0] * math.exp(c[1] - mx) for sp, c in cls.items()}
    tot = sum(w.values())
    return [(sp, x / tot) for sp, x in w.items()]


def clade_support(weighted_specs):
    sup = {}
    for sp, w in weighted_specs:
        for c in spec_clades(sp):
            sup[c] = sup.get(c, 0.0) + w
    return sup


def tuplify(x):
    """JSON round trip turns tuples into lists: restore nested tuples (specs, variants)."""
    if isinstance(x, list):
        return tuple(tuplify(v) for v in x)
    return x
