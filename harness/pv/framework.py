"""Common check protocol: obligations (Coq), correspondence, search, verdict, evidence.

Every property module `pv.props.Cxx` exposes `run(ctx)`.  The context collects
  * proof obligations (theorems compiled + Print Assumptions audited),
  * cases explored (for the evidence file),
  * failures: concrete inputs on which the PROPERTY fails on the implementation,
  * broken ties: the model/implementation correspondence (or a proof) no longer
    checks but no failing input for the property was found.
"""
import fnmatch
import hashlib
import json
import os
import random
import sys
import time
import traceback

VERIF = os.path.dirname(os.path.dirname(os.path.dirname(os.path.abspath(__file__))))
REPO = os.environ.get("PV_REPO", "/repo")
# the two overrides are used only by tools_seeded.py (seeded-change experiments must not overwrite committed evidence)
EVIDENCE_DIR = os.environ.get("PV_EVIDENCE_DIR", os.path.join(VERIF, "evidence"))
REPLAY_DIR = os.environ.get("PV_REPLAY_DIR", os.path.join(VERIF, "replays"))
KNOWN = os.path.join(VERIF, "known_findings.json")

TRUSTED_BASE_COMMON = [
    "Coq 8.16.1 kernel (coqc); vm_compute used for generated correspondence cases and *_refuted witnesses; no native_compute",
    "hand-written Gallina model in /verif/coq/Model (not generated from the source): tied to /repo only by the behavioural correspondence run below",
    "Python harness /verif/harness/pv (enumerating RNG, tree builders, canonicalisation, tolerances)",
    "numpy/scipy/numba/rustworkx/networkx/pandas/pickle/gzip internals and float rounding are outside the model",
]


def load_known():
    if not os.path.exists(KNOWN):
        return []
    with open(KNOWN) as fh:
        doc = json.load(fh)
    return doc.get("findings", [])


def _jsonable(x):
    try:
        json.dumps(x)
        return x
    except TypeError:
        if isinstance(x, dict):
            return {str(k): _jsonable(v) for k, v in x.items()}
        if isinstance(x, (list, tuple, set, frozenset)):
            return [_jsonable(v) for v in x]
        try:
            import numpy as np

            if isinstance(x, np.ndarray):
                return x.tolist()
            if isinstance(x, (np.integer,)):
                return int(x)
            if isinstance(x, (np.floating,)):
                return float(x)
        except Exception:
            pass
        return repr(x)


class Ctx:
    def __init__(self, pid, tier, seed):
        self.pid = pid
        self.tier = tier
        self.seed = seed
        self.rng = random.Random(seed)
        self.t0 = time.time()
        self.obligations = []  # (name, ok, detail)
        self.axioms = set()
        self.checker_cmds = []
        self.evaluations = 0
        self.distinct = set()
        self.samples = []
        self.rule = ""
        self.exhaustive = None
        self.failures = []  # dicts: key, what, replay
        self.broken = []  # dicts: what, detail
        self.known_hits = []
        self.extra = {}
        self.assumptions = []
        self.hist = {}
        self.trusted = list(TRUSTED_BASE_COMMON)
        self.known = [k for k in load_known() if k.get("property") == pid and k.get("status", "open") == "open"]
        self.replay_mode = False

    # ---- bookkeeping -------------------------------------------------
    @property
    def quick(self):
        return self.tier == "quick"

    def log(self, *a):
        print("[%s %6.1fs]" % (self.pid, time.time() - self.t0), *a, flush=True)

    def case(self, key=None, nontrivial=True, sample=None, n=1):
        """Record n explored cases; `key` identifies distinct non-trivial ones."""
        self.evaluations += n
        if nontrivial and key is not None:
            self.distinct.add(key if isinstance(key, (str, int)) else repr(key))
        if sample is not None and len(self.samples) < 6:
            self.samples.append(_jsonable(sample))

    def count(self, bucket, k=1):
        self.hist[bucket] = self.hist.get(bucket, 0) + k

    def obligation(self, name, ok, detail=""):
        self.obligations.append((name, bool(ok), detail))
        if not ok:
            self.broken_tie("proof obligation %s does not check" % name, detail)

    # ---- verdicts ----------------------------------------------------
    def fail(self, key, what, replay):
        """A concrete input on which the property fails on the implementation.

        `key` is a structural signature (call site + input shape) matched against
        known_findings.json; unmatched failures become VIOLATION lines."""
        for k in self.known:
            if fnmatch.fnmatchcase(key, k["key"]):
                if (k["key"], k["what"]) not in [(h["key"], h["what"]) for h in self.known_hits]:
                    self.known_hits.append(k)
                    print("KNOWN-FINDING: property=%s %s [%s]" % (self.pid, k["what"], k["key"]), flush=True)
                return False
        if any(f["key"] == key for f in self.failures):
            return True
        self.failures.append({"key": key, "what": what, "replay": _jsonable(replay)})
        self.log("FAIL", key, what)
        return True

    def broken_tie(self, what, detail=""):
        self.broken.append({"what": what, "detail": _jsonable(detail)})
        self.log("BROKEN-TIE", what)

    # ---- finish ------------------------------------------------------
    def finish(self):
        os.makedirs(EVIDENCE_DIR, exist_ok=True)
        os.makedirs(os.path.join(REPLAY_DIR, self.pid), exist_ok=True)
        lines = []
        for f in self.failures:
            h = hashlib.sha1(json.dumps(f, sort_keys=True).encode()).hexdigest()[:12]
            path = os.path.join(REPLAY_DIR, self.pid, h + ".json")
            with open(path, "w") as fh:
                json.dump({"property": self.pid, "kind": "failing-input", **f, "seed": self.seed, "tier": self.tier}, fh, indent=1)
            lines.append("VIOLATION property=%s replay=%s" % (self.pid, path))
        if self.broken and not self.failures:
            doc = {
                "property": self.pid,
                "kind": "tie-or-proof-broken",
                "broken": self.broken,
                "seed": self.seed,
                "tier": self.tier,
                "note": "a theorem or the model/implementation correspondence no longer checks; the property-level search found no failing input",
            }
            h = hashlib.sha1(json.dumps(doc, sort_keys=True).encode()).hexdigest()[:12]
            path = os.path.join(REPLAY_DIR, self.pid, "tie_" + h + ".json")
            with open(path, "w") as fh:
                json.dump(doc, fh, indent=1)
            lines.append("VIOLATION property=%s replay=%s no-failing-input-found" % (self.pid, path))
        elif self.broken:
            # keep the broken ties inside the first failing replay for the reader
            pass
        n_ob = len(self.obligations)
        n_ok = sum(1 for _, ok, _ in self.obligations if ok)
        cov = {
            "obligations": n_ob,
            "discharged": n_ok,
            "checker_cmd": " && ".join(self.checker_cmds) or "(none run)",
            "trusted_base": self.trusted + (["axioms reported by Print Assumptions: " + "; ".join(sorted(self.axioms))] if self.axioms else ["Print Assumptions: every property theorem is closed under the global context"]),
            "obligation_names": [n for n, _, _ in self.obligations],
            "evaluations": self.evaluations,
            "distinct_nontrivial": len(self.distinct),
            "rule": self.rule,
            "samples": self.samples or ["(no sample recorded)"],
            "histogram": self.hist,
            "known_findings_reported": [k["key"] for k in self.known_hits],
            "broken_ties": self.broken,
        }
        if self.exhaustive is not None:
            cov["exhaustive"] = bool(self.exhaustive)
        cov.update(self.extra)
        ev = {
            "property_id": self.pid,
            "tier": self.tier,
            "seed": self.seed,
            "level": "proof",
            "coverage": _jsonable(cov),
            "assumptions": self.assumptions,
            "wall_s": round(time.time() - self.t0, 2),
            "violations": len(lines),
        }
        # a replay run reports on one recorded case only: it must not replace the evidence of the full check
        ev_path = os.path.join(REPLAY_DIR, self.pid, "last_replay_evidence.json") if self.replay_mode else os.path.join(EVIDENCE_DIR, self.pid + ".json")
        with open(ev_path, "w") as fh:
            json.dump(ev, fh, indent=1)
        for l in lines:
            print(l, flush=True)
        self.log("done: obligations %d/%d, evaluations %d, distinct %d, violations %d, known %d" % (n_ok, n_ob, self.evaluations, len(self.distinct), len(lines), len(self.known_hits)))
        return 1 if lines else 0


def run_property(pid, tier, seed, replay=None):
    import importlib

    ctx = Ctx(pid, tier, seed)
    try:
        mod = importlib.import_module("pv.props." + pid)
        if replay:
            ctx.replay_mode = True
            with open(replay) as fh:
                doc = json.load(fh)
            if hasattr(mod, "replay"):
                mod.replay(ctx, doc)
            else:
                print(json.dumps(doc, indent=1))
                mod.run(ctx)
        else:
            mod.run(ctx)
    except Exception as e:  # the check itself crashed: never silently pass
        traceback.print_exc()
        ctx.broken_tie("check crashed: %r" % (e,), traceback.format_exc()[-2000:])
    return ctx.finish()
