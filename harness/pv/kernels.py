"""Exact outcome distributions / transition matrices of the real samplers (enumerating RNG)."""
import math
import os
from concurrent.futures import ProcessPoolExecutor
from fractions import Fraction

import numpy as np

from .enumrng import enumerate_outcomes
from .trees import all_specs, build_tree, make_data, tree_spec, abs_spec, AbsError

KINDS = ("bootstrap", "semi-adapted", "fully-adapted")


def kernel_class(kind):
    from phyclone.smc.kernels import BootstrapKernel, FullyAdaptedKernel, SemiAdaptedKernel

    return {"bootstrap": BootstrapKernel, "semi-adapted": SemiAdaptedKernel, "fully-adapted": FullyAdaptedKernel}[kind]


def make_tree_dist(alpha):
    from phyclone.tree import FSCRPDistribution, TreeJointDistribution

    return TreeJointDistribution(FSCRPDistribution(float(alpha)))


def make_kernel(kind, tree_dist, rng, prop_op, perm):
    from phyclone.smc.utils import RootPermutationDistribution

    return kernel_class(kind)(tree_dist, rng, outlier_proposal_prob=prop_op, perm_dist=RootPermutationDistribution() if perm else None)


def run_wiring(kind, tree_dist, rng, outlier_prob, N, thr):
    """Samplers exactly as `phyclone run` builds them."""
    from phyclone.run import setup_kernel, setup_samplers

    kernel = setup_kernel(outlier_prob, kind, rng, tree_dist)
    return setup_samplers(kernel, N, outlier_prob, thr, rng, tree_dist)


def target(specs, data, alpha):
    td = make_tree_dist(alpha)
    lp = np.array([td.log_p_one(build_tree(s, data)) for s in specs])
    pi = np.exp(lp - lp.max())
    return pi / pi.sum(), lp


def _tuplify_spec(x):
    return tuple(_tuplify_spec(y) for y in x) if isinstance(x, (list, tuple)) else x


def _row(args):
    (values, data_op, sizes, spec, cfg) = args
    os.environ.setdefault("OMP_NUM_THREADS", "1")
    from phyclone.utils.dev import clear_proposal_dist_caches
    from phyclone.mcmc.gibbs_mh import DataPointSampler, PruneRegraphSampler
    from phyclone.mcmc.particle_gibbs import ParticleGibbsTreeSampler, ParticleGibbsSubtreeSampler

    data = make_data(values, outlier_prob=data_op, sizes=sizes)
    move = cfg["move"]

    def fn(r):
        clear_proposal_dist_caches()
        td = make_tree_dist(cfg["alpha"])
        tree = build_tree(spec, data)
        if move in ("pg", "subtree"):
            if cfg.get("wiring", "library") == "run":
                sh = run_wiring(cfg["kind"], td, r, data_op, cfg["N"], cfg["thr"])
                s = sh.tree_sampler if move == "pg" else sh.subtree_sampler
            else:
                k = make_kernel(cfg["kind"], td, r, cfg["prop_op"], True)
                cls = ParticleGibbsTreeSampler if move == "pg" else ParticleGibbsSubtreeSampler
                s = cls(k, r, num_particles=cfg["N"], resample_threshold=cfg["thr"])
        elif move == "dp":
            if cfg.get("wiring", "library") == "run":
                s = run_wiring("semi-adapted", td, r, data_op, 2, 0.5).dp_sampler
            else:
                s = DataPointSampler(td, r, outliers=cfg["outliers"])
        elif move == "prg":
            s = PruneRegraphSampler(td, r)
        else:
            raise ValueError(move)
        if cfg.get("warm_alpha") is not None and hasattr(s, "_rng"):
            # the run loop keeps ONE sampler object over the sweeps while the concentration is resampled in place: a few sweeps at
            # another concentration with an ordinary seeded generator, then the in-place change, then the enumerated call
            import numpy as _np

            td.prior.alpha = float(cfg["warm_alpha"])
            s._rng = _np.random.default_rng(cfg.get("warm_seed", 1))
            for wspec in cfg.get("warm_specs") or [spec]:
                for _ in range(1 if cfg.get("warm_specs") is None else 2):
                    s.sample_tree(build_tree(_tuplify_spec(wspec), data))
            td.prior.alpha = float(cfg["alpha"])
            s._rng = r
        out = s.sample_tree(tree)
        try:
            return ("ok", abs_spec(out))
        except AbsError as e:
            return ("malformed", str(e), tree_spec(out))

    dist, n, errors = enumerate_outcomes(fn, on_error="collect")
    return spec, dist, n, errors


_SRC_HASH = None


def source_hash():
    """SHA-256 over every .py under /repo/phyclone and the harness files the enumeration depends on: a changed
    working tree can never be served a cached matrix."""
    global _SRC_HASH
    if _SRC_HASH is None:
        import glob
        import hashlib

        from .framework import REPO, VERIF

        h = hashlib.sha256()
        files = sorted(glob.glob(os.path.join(REPO, "phyclone", "**", "*.py"), recursive=True))
        files += [os.path.join(VERIF, "harness", "pv", f) for f in ("kernels.py", "enumrng.py", "trees.py")]
        for f in files:
            h.update(f.encode())
            with open(f, "rb") as fh:
                h.update(fh.read())
        _SRC_HASH = h.hexdigest()
    return _SRC_HASH


def transition_matrix(values, data_op, cfg, specs=None, sizes=None, workers=8, pool=None, cache=False):
    """Exact transition matrix of one move from every start tree.
    Returns dict(specs, P (rows: start), pi, paths, errors, malformed).
    cache=True stores the result under /verif/.cache keyed by the repository source hash + inputs."""
    if cache and specs is None:
        import hashlib
        import pickle

        from .framework import VERIF

        key = hashlib.sha256(repr((source_hash(), [[[str(x) for x in r] for r in p] for p in values], data_op, sorted(cfg.items()), sizes)).encode()).hexdigest()[:24]
        path = os.path.join(VERIF, ".cache", "matrices", key + ".pkl")
        if os.path.exists(path):
            with open(path, "rb") as fh:
                res = pickle.load(fh)
            res["cached"] = True
            return res
        res = transition_matrix(values, data_op, cfg, specs=None, sizes=sizes, workers=workers, pool=pool, cache=False)
        os.makedirs(os.path.dirname(path), exist_ok=True)
        with open(path + ".tmp", "wb") as fh:
            pickle.dump(res, fh)
        os.replace(path + ".tmp", path)
        return res
    n = len(values)
    data = make_data(values, outlier_prob=data_op, sizes=sizes)
    if specs is None:
        specs = all_specs(range(n), outliers=cfg.get("outlier_states", data_op > 0))
    idx = {s: i for i, s in enumerate(specs)}
    jobs = [(values, data_op, sizes, s, cfg) for s in specs]
    if pool is not None:
        rows = list(pool.map(_row, jobs))
    elif workers <= 1:
        rows = [_row(j) for j in jobs]
    else:
        with ProcessPoolExecutor(max_workers=workers) as ex:
            rows = list(ex.map(_row, jobs))
    P = np.zeros((len(specs), len(specs)))
    paths = 0
    errors, malformed, escaped = [], [], []
    for spec, dist, npaths, errs in rows:
        paths += npaths
        i = idx[spec]
        for e in errs:
            errors.append({"start": spec, "path": e[0], "prob": e[1], "error": e[2]})
        for out, p in dist.items():
            if out[0] == "ok":
                if out[1] in idx:
                    P[i, idx[out[1]]] += p
                else:
                    escaped.append({"start": spec, "outcome": out[1], "prob": p})
            else:
                malformed.append({"start": spec, "why": out[1], "outcome": out[2], "prob": p})
    pi, lp = target(specs, data, cfg["alpha"])
    return {"specs": specs, "P": P, "pi": pi, "log_p_one": lp, "paths": paths, "errors": errors, "malformed": malformed, "escaped": escaped}


def invariance_defect(res):
    P, pi = res["P"], res["pi"]
    d = pi @ P - pi
    j = int(np.abs(d).argmax())
    return float(np.abs(d).max()), j, float(np.abs(P.sum(1) - 1).max())
