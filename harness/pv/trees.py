"""Tree specs, exhaustive enumeration, building real phyclone Trees, abstraction function abs_impl.

A *spec* is (roots, outliers) with roots a tuple of nodes, node = (own, kids), own a sorted tuple of
data indices, kids a tuple of nodes sorted by smallest data index in the subtree (canonical form: two
phyclone trees have the same clades and outliers iff their canonical specs are equal).
"""
import itertools
import math
from fractions import Fraction

import numpy as np


# ---------------------------------------------------------------- specs
def node_points(node):
    own, kids = node
    out = list(own)
    for k in kids:
        out += node_points(k)
    return out


def canon_node(node):
    own, kids = node
    kids = tuple(sorted((canon_node(k) for k in kids), key=lambda k: min(node_points(k))))
    return (tuple(sorted(own)), kids)


def canon(spec):
    roots, outl = spec
    roots = tuple(sorted((canon_node(r) for r in roots), key=lambda k: min(node_points(k))))
    return (roots, tuple(sorted(outl)))


def spec_nodes(spec):
    """all nodes (pre-order)"""
    out = []

    def rec(n):
        out.append(n)
        for k in n[1]:
            rec(k)

    for r in spec[0]:
        rec(r)
    return out


def spec_points(spec):
    pts = list(spec[1])
    for r in spec[0]:
        pts += node_points(r)
    return sorted(pts)


def clades(spec):
    return frozenset(frozenset(node_points(n)) for n in spec_nodes(spec))


def set_partitions(items):
    items = list(items)
    if not items:
        yield []
        return
    first, rest = items[0], items[1:]
    for part in set_partitions(rest):
        for i in range(len(part)):
            yield part[:i] + [[first] + part[i]] + part[i + 1 :]
        yield [[first]] + part


def forests_over_blocks(blocks):
    """All rooted forests whose nodes are the given blocks (labelled nodes): parent functions without cycles."""
    k = len(blocks)
    if k == 0:
        yield ()
        return
    for parents in itertools.product(range(-1, k), repeat=k):
        ok = True
        for i in range(k):
            seen = set()
            j = i
            while j != -1:
                if j in seen:
                    ok = False
                    break
                seen.add(j)
                j = parents[j]
            if not ok:
                break
        if not ok:
            continue

        def build(i):
            return (tuple(sorted(blocks[i])), tuple(build(c) for c in range(k) if parents[c] == i))

        yield tuple(build(i) for i in range(k) if parents[i] == -1)


def all_specs(points, outliers=False):
    """Every canonical tree spec over the given data indices (optionally with every outlier subset)."""
    points = list(points)
    seen = set()
    out = []
    masks = range(2 ** len(points)) if outliers else [0]
    for mask in masks:
        outl = [p for i, p in enumerate(points) if mask >> i & 1]
        inn = [p for i, p in enumerate(points) if not mask >> i & 1]
        for part in set_partitions(inn):
            for f in forests_over_blocks(part):
                s = canon((f, tuple(outl)))
                if s not in seen:
                    seen.add(s)
                    out.append(s)
    return out


def random_spec(rng, points, outlier_frac=0.0, max_block=3):
    points = list(points)
    rng.shuffle(points)
    outl = [p for p in points if rng.random() < outlier_frac]
    inn = [p for p in points if p not in outl]
    blocks = []
    while inn:
        k = rng.randint(1, min(max_block, len(inn)))
        blocks.append(inn[:k])
        inn = inn[k:]
    parents = []
    for i in range(len(blocks)):
        parents.append(rng.choice([-1] * 2 + list(range(i))) if i else -1)

    def build(i):
        return (tuple(sorted(blocks[i])), tuple(build(c) for c in range(len(blocks)) if parents[c] == i))

    return canon((tuple(build(i) for i in range(len(blocks)) if parents[i] == -1), tuple(outl)))


# ---------------------------------------------------------------- data
def make_data(values, outlier_prob=0.0, sizes=None):
    """values: list (per data point) of list (per sample) of list (per grid point) of positive Fractions/floats
    (linear-domain likelihoods).  Returns phyclone DataPoints with log values."""
    from phyclone.data.base import DataPoint

    data = []
    for i, v in enumerate(values):
        arr = np.log(np.array([[float(x) for x in row] for row in v], dtype=float))
        size = 1 if sizes is None else sizes[i]
        if outlier_prob and outlier_prob > 0:
            op = math.log(outlier_prob) * size
            opn = math.log1p(-outlier_prob) * size
        else:
            op, opn = 0, 0.0
        data.append(DataPoint(i, arr, outlier_prob=op, outlier_prob_not=opn))
    return data


def rational_values(rng, n_points, n_samples, grid, den=16, flat=False):
    vals = []
    for _ in range(n_points):
        pt = []
        for _ in range(n_samples):
            if flat:
                pt.append([Fraction(1, 2)] * grid)
            else:
                pt.append([Fraction(rng.randint(1, den), den) for _ in range(grid)])
        vals.append(pt)
    return vals


# ---------------------------------------------------------------- real trees
def build_tree(spec, data, grid_size=None):
    """Build a real phyclone Tree for a spec, children first."""
    from phyclone.tree import Tree

    gs = grid_size or data[0].grid_size
    t = Tree(gs)

    def rec(node):
        own, kids = node
        ch = [rec(k) for k in kids]
        return t.create_root_node(children=ch, data=[data[i] for i in own])

    for r in spec[0]:
        rec(r)
    for i in spec[1]:
        t.add_data_point_to_outliers(data[i])
    return t


def tree_spec(tree):
    """Canonical spec of a real tree (through its public accessors)."""

    def rec(node):
        return (tuple(sorted(d.idx for d in tree.get_data(node))), tuple(rec(c) for c in tree.get_children(node)))

    return canon((tuple(rec(r) for r in tree.roots), tuple(d.idx for d in tree.outliers)))


class AbsError(Exception):
    pass


def abs_impl(tree):
    """Abstraction function, defined only when the tree's redundant views agree (C07).

    Checks: name<->index maps are mutually inverse and cover exactly the graph's nodes; each payload's
    node_id is the name mapped to its index; payload data_points == idx set of _data[name]; every non-root
    node has exactly one predecessor and is reachable from the root; no data point in two places.
    Returns the labelled rose tree {name: (sorted own idx, [child names])}, roots, outliers."""
    g = tree._graph
    ni, nir, data = tree._node_indices, tree._node_indices_rev, tree._data
    idxs = set(g.node_indices())
    if set(nir.keys()) != idxs:
        raise AbsError("index map keys %r != graph indices %r" % (sorted(nir.keys()), sorted(idxs)))
    if len(ni) != len(nir):
        raise AbsError("maps differ in size")
    for name, ix in ni.items():
        if nir.get(ix) != name:
            raise AbsError("maps not inverse at %r" % (name,))
        if g[ix].node_id != name:
            raise AbsError("payload name %r at index of %r" % (g[ix].node_id, name))
    root = tree._ROOT_NODE_NAME
    if root not in ni:
        raise AbsError("no root")
    ridx = ni[root]
    if len(g.predecessors(ridx)) != 0:
        raise AbsError("root has a parent")
    seen_pts = {}
    nodes = {}
    for name, ix in ni.items():
        if name == root:
            if len(data.get(root, [])) != 0 or len(g[ix].data_points) != 0:
                raise AbsError("data on virtual root")
            continue
        preds = g.predecessors(ix)
        if len(preds) != 1:
            raise AbsError("node %r has %d parents" % (name, len(preds)))
        own = [d.idx for d in data.get(name, [])]
        if len(set(own)) != len(own):
            raise AbsError("duplicate point in node %r" % (name,))
        if set(own) != set(g[ix].data_points):
            raise AbsError("payload data %r != _data %r at %r" % (sorted(g[ix].data_points), sorted(own), name))
        for p in own:
            if p in seen_pts:
                raise AbsError("point %r in %r and %r" % (p, seen_pts[p], name))
            seen_pts[p] = name
        nodes[name] = (tuple(sorted(own)), [c.node_id for c in g.successors(ix)])
    outl = [d.idx for d in data.get(tree._OUTLIER_NODE_NAME, [])]
    if len(set(outl)) != len(outl):
        raise AbsError("duplicate outlier")
    for p in outl:
        if p in seen_pts:
            raise AbsError("point %r is outlier and in %r" % (p, seen_pts[p]))
    for k in data.keys():
        if k not in ni and k != tree._OUTLIER_NODE_NAME and len(data[k]) > 0:
            raise AbsError("_data has unknown node %r" % (k,))
    # reachability
    import rustworkx as rx

    reach = set(rx.descendants(g, ridx)) | {ridx}
    if reach != idxs:
        raise AbsError("unreachable nodes %r" % (sorted(idxs - reach),))
    if g.num_edges() != g.num_nodes() - 1:
        raise AbsError("edge count %d for %d nodes" % (g.num_edges(), g.num_nodes()))
    roots = [c.node_id for c in g.successors(ridx)]
    return nodes, roots, tuple(sorted(outl))


def abs_spec(tree):
    nodes, roots, outl = abs_impl(tree)

    def rec(n):
        own, kids = nodes[n]
        return (own, tuple(rec(k) for k in kids))

    return canon((tuple(rec(r) for r in roots), outl))


# ---------------------------------------------------------------- Coq printing
def coq_list(xs, f=str):
    return "[" + "; ".join(f(x) for x in xs) + "]"


def coq_nat_list(xs):
    return "[" + "; ".join(str(int(x)) for x in xs) + "]%nat" if xs else "(@nil nat)"


def coq_q(fr):
    fr = Fraction(fr)
    return "(Q2Qc (%d # %d))" % (fr.numerator, fr.denominator)


# ---------------------------------------------------------------- relation tables (Model/Grammar.v)
def spec_table(spec, n):
    """le[a][b] <-> a and b are clone points and the clone of a is an ancestor of, or equal to, the clone of b."""
    le = [[False] * n for _ in range(n)]
    if spec is not None:
        for node in spec_nodes(spec):
            below = node_points(node)
            for a in node[0]:
                for b in below:
                    le[a][b] = True
    return le


def spec_root_reps(spec):
    return [] if spec is None else [min(r[0]) for r in spec[0]]


def coq_table(tab):
    if not tab:
        return "(@nil (list bool))"
    return "[" + "; ".join("[" + "; ".join("true" if v else "false" for v in row) + "]" for row in tab) + "]"


# ---------------------------------------------------------------- shape-preserving edits
def scramble(tree, history):
    """Edits of the kind the samplers and the trace perform that keep the SHAPE of the tree but change its internal
    bookkeeping (child order, node ids, graph indices): prune a subtree and graft it back where it was, relabel, round-trip
    through the dictionary form.  history: list of ('regraft', k) | ('relabel',) | ('dict',); returns the edited tree."""
    from phyclone.tree import Tree

    for op in history:
        if op[0] == "regraft":
            names = sorted(tree.nodes)
            if not names:
                continue
            node = names[op[1] % len(names)]
            parent = tree.get_parent(node)
            sub = tree.get_subtree(node)
            tree.remove_subtree(sub)
            tree.add_subtree(sub, parent=None if parent == "root" else parent)
        elif op[0] == "relabel":
            tree.relabel_nodes()
        elif op[0] == "dict":
            tree = Tree.from_dict(tree.to_dict())
    return tree
