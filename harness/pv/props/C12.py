"""C12 - result tables list every mutation once per sample, consistent with the tree.

Every tree over <= 3 data points (all outlier subsets, INCLUDING the all-outlier tree and single-clone trees),
clustered (integer cluster ids, DataPoint.name = str(cluster id), a cluster file that also lists a cluster and a
mutation the loader dropped) and unclustered, 1-3 samples, is put into a real trace file and processed by the real
write_map_results, write_topology_report (+ archive) and write_consensus_results; the TSV and Newick outputs are
parsed back.  Oracle: the statement itself.  Model: coq/Model/Table.v through vm_compute."""
from fractions import Fraction

from .. import coq
from .. import tracefiles as tf
from ..trees import all_specs, random_spec, spec_nodes

CLUSTER_IDS = [0, 2, 5, 6, 8]  # ascending with idx, as _create_clustered_data_arr assigns them
MEMBERS = {0: ["a0", "a1"], 2: ["b0"], 5: ["c0", "c1", "c2"], 6: ["d0", "d1"], 8: ["e0"]}
DROPPED = {9: ["z0"]}  # a cluster of the cluster file with no data point (its mutation was filtered by the loader)


def inputs(n_points, clustered):
    """(names, clusters dict or None, all input mutation ids, mutation -> data index or None, mutation -> cluster)"""
    if not clustered:
        names = ["m%d" % i for i in range(n_points)]
        return names, None, list(names), {m: i for i, m in enumerate(names)}, {}
    cids = CLUSTER_IDS[:n_points]
    names = [str(c) for c in cids]
    cl = {c: list(MEMBERS[c]) for c in cids}
    cl.update(DROPPED)
    muts = [m for c in cl for m in cl[c]]
    point_of = {m: (cids.index(c) if c in cids else None) for c in cl for m in cl[c]}
    cluster_of = {m: c for c in cl for m in cl[c]}
    return names, cl, muts, point_of, cluster_of


def children_map(nw):
    out = {}

    def rec(n):
        out[n[0]] = [k[0] for k in n[1]]
        for k in n[1]:
            rec(k)

    rec(nw)
    return out


def check_outputs(table, newick_text, muts, samples, point_of, cluster_of, clustered, expect_spec):
    """The statement of C12 on one (table, Newick) pair.  Returns a list of (site, message)."""
    probs = []
    try:
        nw = tf.parse_newick(newick_text)
    except tf.NewickError as e:
        return [("to_newick_string", "unparsable Newick: %s" % e)]
    labels = tf.newick_nodes(nw)
    if nw[0] != "root" or len(set(labels)) != len(labels):
        probs.append(("to_newick_string", "root label %r / duplicate labels %r" % (nw[0], labels)))
    # each mutation exactly once per sample
    seen = {}
    for r in table:
        seen[(r["mutation_id"], r["sample_id"])] = seen.get((r["mutation_id"], r["sample_id"]), 0) + 1
    want = {(m, s) for m in muts for s in samples}
    if set(seen) != want or any(v != 1 for v in seen.values()):
        probs.append(("get_labels_table:each-once", "missing %r, extra %r, repeated %r" % (sorted(want - set(seen))[:4], sorted(set(seen) - want)[:4], sorted(k for k, v in seen.items() if v != 1)[:4])))
    kids = children_map(nw)
    per_clone = {}
    clone_of_mut, clone_of_cluster = {}, {}
    for r in table:
        c = r["clone_id"]
        if c != -1 and c not in labels:
            probs.append(("get_clone_table:clone-id", "clone id %r is not a node of %s" % (c, newick_text)))
        if clone_of_mut.setdefault(r["mutation_id"], c) != c:
            probs.append(("get_labels_table:clone-id", "mutation %r has two clone ids" % r["mutation_id"]))
        if clustered:
            if r.get("cluster_id") != cluster_of.get(r["mutation_id"]):
                probs.append(("get_labels_table:cluster-id", "mutation %r listed under cluster %r" % (r["mutation_id"], r.get("cluster_id"))))
            if clone_of_cluster.setdefault(r.get("cluster_id"), c) != c:
                probs.append(("get_labels_table:cluster-share", "cluster %r is split over clones" % r.get("cluster_id")))
        ccf, prev = r["ccf"], r["clonal_prev"]
        if c == -1:
            if ccf != -1 or prev != -1:
                probs.append(("get_clone_table:values", "outlier row has ccf %r prev %r" % (ccf, prev)))
        else:
            if not (0 <= ccf <= 1 and 0 <= prev <= 1):
                probs.append(("get_clone_table:values", "ccf %r / prevalence %r of clone %r outside [0,1]" % (ccf, prev, c)))
            if per_clone.setdefault((c, r["sample_id"]), (ccf, prev)) != (ccf, prev):
                probs.append(("get_clone_table:values", "clone %r has two different values in sample %r" % (c, r["sample_id"])))
    # prevalence = ccf - sum of the children's ccf (needs every child to own a row: skip clones with an empty child)
    for (c, s), (ccf, prev) in per_clone.items():
        ks = kids.get(c, [])
        if all((k, s) in per_clone for k in ks):
            if abs(prev - (ccf - sum(per_clone[(k, s)][0] for k in ks))) > 1e-9:
                probs.append(("get_map_node_clonal_prevs_dict", "prevalence %r of clone %r is not ccf %r minus the children's" % (prev, c, ccf)))
    if expect_spec is not None and not probs:
        try:
            sp = tf.spec_from_outputs([r for r in table if point_of[r["mutation_id"]] is not None], nw, point_of)
            if sp != expect_spec:
                probs.append(("get_clone_table:tree", "table + Newick describe %r, the recorded tree is %r" % (sp, expect_spec)))
        except (ValueError, KeyError) as e:
            probs.append(("get_clone_table:tree", "table and Newick inconsistent: %s" % e))
        dropped = [r for r in table if point_of[r["mutation_id"]] is None and r["clone_id"] != -1]
        if dropped:
            probs.append(("get_labels_table:fill-in", "mutation without a data point got clone %r" % dropped[0]["clone_id"]))
    return probs


# ---------------------------------------------------------------- Coq printing
def qc(x):
    fr = Fraction(str(x)) if not isinstance(x, Fraction) else x
    return "(Q2Qc (%d # %d))" % (fr.numerator, fr.denominator)


def nl(xs):
    return "[" + "; ".join("%d%%nat" % x for x in xs) + "]" if xs else "(@nil nat)"


def coq_ltree(n):
    lab, own, kids = n
    return "(LNode %d%%nat %s [%s])" % (lab, nl(own), "; ".join(coq_ltree(k) for k in kids))


def coq_tree(lspec):
    return "(mkT [%s] %s)" % ("; ".join(coq_ltree(r) for r in lspec[0]), nl(lspec[1]))


def gname(x):
    return "None" if x == "root" else "(Some %d%%nat)" % x


def conversion_is_pinned():
    """Does convert_rustworkx_to_networkx still build the graph from the edge list only (KeyError on an
    edge-less tree)?  Selects which of the model's two variants (result / result_fixed) must match."""
    from phyclone.process_trace.utils import convert_rustworkx_to_networkx
    from phyclone.tree import Tree

    t = Tree((1, 5))
    try:
        convert_rustworkx_to_networkx(t._graph.copy())
        return False
    except KeyError:
        return True


def run(ctx):
    coq.check_property_file(ctx)
    pinned = conversion_is_pinned()
    ctx.extra["graph_conversion_variant"] = "pinned (nodes from the edge list only)" if pinned else "fixed (nodes added independently of the edges)"
    ctx.rule = (
        "every canonical tree over 1..3 data points with every outlier subset (exhaustive: 2+7+42 trees, the all-outlier and "
        "single-clone trees included) x {unclustered, clustered with integer cluster ids and a cluster file holding one more cluster} "
        "x 1..3 samples x {as built, relabelled}, each as a one-entry trace file processed by the real write_map_results, write_topology_report(+archive) and "
        "write_consensus_results; plus seeded multi-tree traces for the consensus command (clones with empty data) and, in thorough, "
        "random trees over 4-5 points and relabelled copies; oracle = the statement on the parsed TSV/Newick; model = Model/Table.v "
        "evaluated on the labelled tree and the real CCF dictionaries; non-trivial = the tree has >= 1 clone or >= 2 points; "
        "distinct = (tree, clustered, samples)"
    )
    ctx.exhaustive = False  # exhaustive over single trees on <= 3 points; the multi-tree consensus traces and larger trees are seeded samples
    cmds = [("map", "joint-likelihood"), ("topo", "all"), ("cons", 0.5, "counts")]
    if not ctx.quick:
        cmds += [("map", "frequency"), ("cons", 0.5, "joint-likelihood")]
    jobs, meta = [], []
    for n in (1, 2, 3):
        for spec in all_specs(range(n), outliers=True):
            for clustered in (False, True):
                for ns in (1, 2, 3):
                    variants = [("plain", 0)] if (ctx.quick and n == 3 and ns == 3) else [("plain", 0), ("relabel", 7)]
                    for var in variants:
                        names, cl, muts, point_of, cluster_of = inputs(n, clustered)
                        jobs.append({"n_points": n, "n_samples": ns, "names": names, "clusters": cl, "chains": {0: [(-1, spec, var)]}, "cmds": cmds, "want_trees": True, "outlier_prob": 0.1})
                        meta.append({"kind": "single", "spec": spec, "n": n, "ns": ns, "clustered": clustered, "muts": muts, "point_of": point_of, "cluster_of": cluster_of, "names": names, "cl": cl})
    if not ctx.quick:
        for _ in range(800):
            n = ctx.rng.randint(4, 5)
            spec = random_spec(ctx.rng, range(n), outlier_frac=0.2, max_block=2)
            clustered = ctx.rng.random() < 0.5
            ns = ctx.rng.randint(1, 3)
            names, cl, muts, point_of, cluster_of = inputs(n, clustered)
            jobs.append({"n_points": n, "n_samples": ns, "names": names, "clusters": cl, "chains": {0: [(-1, spec, ("perm", ctx.rng.randrange(10**6)))]}, "cmds": cmds, "want_trees": True, "outlier_prob": 0.1})
            meta.append({"kind": "single", "spec": spec, "n": n, "ns": ns, "clustered": clustered, "muts": muts, "point_of": point_of, "cluster_of": cluster_of, "names": names, "cl": cl})
    # more than ten samples (sample names of different digit counts: "S10" sorts before "S2")
    for _ in range(4 if ctx.quick else 40):
        n = 3
        spec = random_spec(ctx.rng, range(n), outlier_frac=0.3, max_block=2)
        clustered = ctx.rng.random() < 0.5
        ns = ctx.rng.choice([11, 12])
        names, cl, muts, point_of, cluster_of = inputs(n, clustered)
        jobs.append({"n_points": n, "n_samples": ns, "names": names, "clusters": cl, "chains": {0: [(-1, spec, ("perm", ctx.rng.randrange(10**6)))]}, "cmds": cmds, "want_trees": True, "outlier_prob": 0.1})
        meta.append({"kind": "single", "spec": spec, "n": n, "ns": ns, "clustered": clustered, "muts": muts, "point_of": point_of, "cluster_of": cluster_of, "names": names, "cl": cl})
    # multi-tree traces: consensus trees may contain clones without data
    specs3 = [s for s in all_specs(range(3), outliers=True) if s[0]]
    for _ in range(120 if ctx.quick else 3000):
        k = ctx.rng.randint(2, 3)
        pool = [ctx.rng.choice(specs3) for _ in range(k)]
        clustered = ctx.rng.random() < 0.5
        ns = ctx.rng.randint(1, 2)
        names, cl, muts, point_of, cluster_of = inputs(3, clustered)
        ents = [(-1 - j, sp, ("plain", 0)) for j, sp in enumerate(pool)]
        job = {"n_points": 3, "n_samples": ns, "names": names, "clusters": cl, "chains": {0: ents}, "cmds": [("cons", 0.5, "counts"), ("cons", 0.5, "joint-likelihood")], "outlier_prob": 0.1}
        if ctx.rng.random() < 0.4:
            # several chains, stored in the order in which they finished (not chain 0 first): per-run information such as the
            # cluster table must reach the commands whichever chain was written first
            job["chains"] = {0: ents[:1], 1: ents[1:]}
            job["order"] = [1, 0]
        jobs.append(job)
        meta.append({"kind": "multi", "spec": tuple(pool), "n": 3, "ns": ns, "clustered": clustered, "muts": muts, "point_of": point_of, "cluster_of": cluster_of, "names": names, "cl": cl})
    # multi-entry traces for the map (both modes) and topology commands: the same topology visited several times under
    # different node numberings and with different scores, several topologies per trace, realistic (thinned) "iter" fields
    specs4 = [s for s in all_specs(range(4), outliers=True) if len(spec_nodes(s)) >= 3]
    for _ in range(60 if ctx.quick else 600):
        base = [ctx.rng.choice(specs4) for _ in range(ctx.rng.randint(1, 3))]
        entries = []
        for j in range(ctx.rng.randint(3, 6)):
            sp = ctx.rng.choice(base)
            entries.append((-10 + j if ctx.rng.random() < 0.7 else -10 - j, sp, ("perm", ctx.rng.randrange(10**6)) if ctx.rng.random() < 0.7 else ("plain", 0)))
        clustered = ctx.rng.random() < 0.5
        ns = ctx.rng.randint(1, 2)
        names, cl, muts, point_of, cluster_of = inputs(4, clustered)
        job = {"n_points": 4, "n_samples": ns, "names": names, "clusters": cl, "chains": {0: entries}, "cmds": [("map", "joint-likelihood"), ("map", "frequency"), ("topo", "all")], "outlier_prob": 0.1}
        if ctx.rng.random() < 0.4:
            cut = ctx.rng.randint(1, len(entries) - 1)
            job["chains"] = {0: entries[:cut], 1: entries[cut:]}
            job["order"] = ctx.rng.choice([[1, 0], [0, 1]])
        jobs.append(job)
        meta.append({"kind": "multi-map", "spec": tuple(sp for _, sp, _ in entries), "n": 4, "ns": ns, "clustered": clustered, "muts": muts, "point_of": point_of, "cluster_of": cluster_of, "names": names, "cl": cl})
    ctx.log("%d trace files" % len(jobs))
    outs = tf.run_jobs(jobs, workers=4)
    ctx.log("commands done")
    items = []
    for m, job, out in zip(meta, jobs, outs):
        spec, ns, clustered = m["spec"], m["ns"], m["clustered"]
        samples = tf.sample_names(ns)
        single = m["kind"] == "single"
        all_out = single and not spec[0]
        shape = "all-outliers" if all_out else ("single-clone" if single and len(spec_nodes(spec)) == 1 else "has-clones")
        entries = [(sc, sp) for sc, sp, _ in job["chains"][0]]
        ctx.case(key=(spec, clustered, ns, m["kind"]), nontrivial=(not single) or bool(spec[0]) or m["n"] >= 2, sample={"tree": spec, "clustered": clustered, "samples": ns} if all_out and m["n"] == 2 else None)
        ctx.count("%s/%s" % (m["kind"], shape))
        ctx.count("clustered" if clustered else "unclustered")
        ctx.count("samples=%d" % ns)
        replay = {"kind": m["kind"], "n_points": m["n"], "n_samples": ns, "clustered": clustered, "trees": spec, "names": m["names"], "clusters": m["cl"]}
        for key, o in out.items():
            if key == "_trees":
                continue
            cmd = key.split("/")[0]
            if cmd == "cons" and not single:
                # the tree the consensus command tabulates: no retained clade = every point an outlier
                sup = tf.clade_support(tf.consensus_weights(entries, key.split("/")[2]))
                kept = [c for c, v in sup.items() if v > 0.5 + 1e-9]
                shape = "has-clones" if kept else "all-outliers"
                ctx.count("multi/consensus-%s" % shape)
            if "error" in o:
                fn = o["where"].split(":")[-1]
                ctx.count("raised:%s" % o["error"])
                ctx.fail("C12:%s:%s" % (fn, shape), "command %s raised %s(%s) at %s on a trace whose tree is %r" % (key, o["error"], o["message"], o["where"], spec), dict(replay, command=key, error=o))
                continue
            pairs = []
            if cmd == "topo":
                for tid, a in o["archive"].items():
                    pairs.append(("create_topologies_archive", a["table"], a["newick_text"]))
            else:
                pairs.append(("write_%s_results" % ("map" if cmd == "map" else "consensus"), o["table"], o["newick_text"]))
            for site, table, nwk in pairs:
                for where, msg in check_outputs(table, nwk, m["muts"], samples, m["point_of"], m["cluster_of"], clustered, spec if single else None):
                    ctx.fail("C12:%s:%s:%s" % (site, where, shape), "%s (%s; %s, %d samples)" % (msg, key, "clustered" if clustered else "unclustered", ns), dict(replay, command=key, table=table, newick=nwk))
        # ---- model item (single-entry traces; map and archive outputs carry the recorded labels)
        if not single:
            continue
        desc = out["_trees"][0][0]
        mut_id = {mm: i for i, mm in enumerate(sorted(m["muts"]))}
        if clustered:
            data = [int(x) for x in m["names"]]
            cl_rows = "(Some [%s])" % "; ".join("(%d%%nat, %d%%nat)" % (mut_id[mm], c) for c, ms in m["cl"].items() for mm in ms)
        else:
            data = [mut_id[x] for x in m["names"]]
            cl_rows = "None"
        if "ccf" in desc:
            vals = "[" + "; ".join("(%d%%nat, ([%s], [%s]))" % (k, "; ".join(qc(x) for x in desc["ccf"][k]), "; ".join(qc(x) for x in desc["prev"][k])) for k in desc["ccf"]) + "]"
        else:
            vals = "[]"
        for key in ("map/joint-likelihood", "topo/all"):
            o = out[key]
            if "error" in o:
                obs = "None"
            else:
                if key.startswith("topo"):
                    if list(o["archive"]) != ["t_0"]:
                        continue
                    table, nwk = o["archive"]["t_0"]["table"], o["archive"]["t_0"]["newick_text"]
                else:
                    table, nwk = o["table"], o["newick_text"]
                try:
                    nw = tf.parse_newick(nwk)
                except tf.NewickError:
                    continue
                rows = "; ".join(
                    "mkC %d%%nat (%d) %s %d%%nat %s %s" % (mut_id[r["mutation_id"]], r["clone_id"], ("(Some %d%%nat)" % r["cluster_id"]) if clustered else "None", samples.index(r["sample_id"]), qc(r["ccf"]), qc(r["clonal_prev"]))
                    for r in table
                )
                par = tf.newick_parent_map(nw)
                edges = "; ".join("(%s, %s)" % (gname(p), gname(c)) for c, p in par.items())
                obs = "(Some ([%s], [%s]))" % (rows, edges)
            items.append("chk %s %s %s %s %s %s %s" % ("true" if pinned else "false", nl(data), cl_rows, nl(range(ns)), vals, coq_tree(desc["lspec"]), obs))
    header = "\n".join([
        "From PV Require Import Model.Table Model.CaseUtil.",
        "Local Open Scope Z_scope.",
        "Definition onat_eqb (a b : option nat) := match a, b with None, None => true | Some x, Some y => Nat.eqb x y | _, _ => false end.",
        "Definition crow_eqb (a b : crow) : bool :=",
        "  Nat.eqb (c_mut a) (c_mut b) && Z.eqb (c_clone a) (c_clone b) && onat_eqb (c_cluster a) (c_cluster b)",
        "  && Nat.eqb (c_sample a) (c_sample b) && Qc_eq_bool (c_ccf a) (c_ccf b) && Qc_eq_bool (c_prev a) (c_prev b).",
        "Definition edge_eqb (a b : gname * gname) := gname_eqb (fst a) (fst b) && gname_eqb (snd a) (snd b).",
        "Fixpoint lookn {V} (k : nat) (d : list (nat * V)) : option V := match d with [] => None | (l, v) :: r => if Nat.eqb l k then Some v else lookn k r end.",
        "Definition chk (pinned : bool) (data : list nat) (cl : option (list (nat * nat))) (samples : list nat) (vals : list (nat * (list Qc * list Qc))) (t : tree)",
        "               (obs : option (list crow * list (gname * gname))) : bool :=",
        "  let vf := (fun l => match lookn l vals with Some v => v | None => ([], []) end) in",
        "  match (if pinned then result data cl samples vf t else Some (result_fixed data cl samples vf t)), obs with",
        "  | None, None => true",
        "  | Some (tb, nw), Some (rows, edges) => set_eqb crow_eqb tb rows && Nat.eqb (length tb) (length rows)",
        "        && set_eqb edge_eqb (nw_edges nw) edges && Nat.eqb (length (nw_edges nw)) (length edges)",
        "  | _, _ => false end.",
    ])
    ok, badi, detail = coq.coq_eval_bool_cases(ctx, "corr", header, items, shard=80, workers=4)
    ctx.extra["coq_corr_cases"] = len(items)
    if not ok:
        ctx.broken_tie("C12 correspondence file did not evaluate", detail)
    else:
        ctx.obligation("corr_model_eq_impl_%d_cases" % len(items), not badi)
        if badi:
            ctx.broken[-1]["detail"] = {"failing_case_count": len(badi), "item": items[badi[0]][:900]}
    ctx.assumptions += [
        "the per-clone CCF / prevalence values are an input of the model (the MAP recursion is C10's subject); the correspondence feeds the model the real get_map_node_ccfs_and_clonal_prev_dicts output, the oracle checks range, per-clone constancy and prevalence = ccf - children's ccf on the written table",
        "the Newick text is parsed by the harness (strict parser for the writer's dialect) and compared as a labelled edge set; the character-level writer is not modelled",
        "pandas row order is not compared; grids have 5 points so CCF values are exact decimals in the TSV",
        "well-formed inputs: distinct DataPoint names, data idx = position, every data point's cluster id present in the cluster file, each mutation in one cluster",
    ]


def replay(ctx, doc):
    """Re-run exactly the recorded case (one trace file, one command) on the real code."""
    r = doc["replay"]
    single = r["kind"] == "single"
    specs = [tf.tuplify(r["trees"])] if single else [tf.tuplify(t) for t in r["trees"]]
    cmd = r["command"].split("/")
    cmd = (cmd[0], cmd[1]) if cmd[0] != "cons" else (cmd[0], float(cmd[1]), cmd[2])
    cl = {int(k): v for k, v in r["clusters"].items()} if r.get("clusters") else None
    job = {"n_points": r["n_points"], "n_samples": r["n_samples"], "names": r["names"], "clusters": cl, "chains": {0: [(-1 - j, sp, ("plain", 0)) for j, sp in enumerate(specs)]}, "cmds": [cmd], "outlier_prob": 0.1}
    out = tf.run_job(job)
    print("replay:", out)
    o = out[r["command"]]
    ctx.case(key=repr(specs))
    if "error" in o:
        ctx.fail(doc["key"], "command %s still raises %s(%s) at %s" % (r["command"], o["error"], o["message"], o["where"]), r)
        return
    names, cl2, muts, point_of, cluster_of = inputs(r["n_points"], r["clustered"])
    pairs = [(a["table"], a["newick_text"]) for a in o["archive"].values()] if "archive" in o else [(o["table"], o["newick_text"])]
    for table, nwk in pairs:
        for where, msg in check_outputs(table, nwk, muts, tf.sample_names(r["n_samples"]), point_of, cluster_of, r["clustered"], specs[0] if single else None):
            ctx.fail(doc["key"], msg, r)
