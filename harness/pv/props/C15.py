"""C15 - trees survive serialisation; trace entries are self-consistent."""
from concurrent.futures import ProcessPoolExecutor, ThreadPoolExecutor

from .. import coq, edits
from . import C06 as h

INF = float("inf")


def trace_plan(ctx):
    """(seed, n_points, num_iters, thin, burnin, conc_update, outlier_prob, proposal, particles, max_time, subtree_prob)"""
    jobs = []
    iters = [1, 2, 5, 12] if ctx.quick else [1, 2, 3, 5, 8, 12]
    thins = [1, 2, 3, 5, 20] if ctx.quick else [1, 2, 3, 4, 5, 7, 12, 20]
    for n_it in iters:
        for thin in thins:
            for conc in (True, False):
                burnin = ctx.rng.choice([0, 1, 3])
                outl = ctx.rng.choice([0.0, 0.0, 0.01])
                prop = ctx.rng.choice(["semi-adapted", "fully-adapted", "bootstrap"])
                mt = 0.0 if ctx.rng.random() < 0.12 else INF
                jobs.append((ctx.rng.randrange(10**9), ctx.rng.randint(3, 5), n_it, thin, burnin, conc, outl, prop, ctx.rng.randint(3, 5), mt,
                             ctx.rng.choice([0.0, 0.0, 0.3])))
    jobs = jobs + [(ctx.rng.randrange(10**9),) + j[1:] for j in jobs]
    if not ctx.quick:
        jobs = jobs + [(ctx.rng.randrange(10**9),) + j[1:] for j in jobs]
    return jobs


def run(ctx):
    coq.check_property_file(ctx)
    ctx.rule = (
        "(a) seeded random edit histories (grammar of C06) on the real Tree; at random points (and at the end) to_dict -> direct | pickle | gzip file -> "
        "from_dict: four-view agreement of the restored tree, clades, outliers, node names per clone, node_last_added_to, per-clone log_p/log_r, root vector, "
        "both joint densities equal, then the same 4 random further edits on both copies with comparison after each; states with index holes and "
        "outlier-only states are counted; (b) a subset of the dictionaries is fed to the Coq model from_dict (Model/DictForm.v) and compared with the "
        "real restored tree (structure, names, last, cached vectors as rationals); (c) real phyclone.run.run_phyclone_chain on 3-5 simulated data "
        "points over a grid of (num_iters, thin, burnin, concentration update, outliers, proposal, max_time 0|inf, subtree updates): iter sequence, entry keys, "
        "every entry restored from memory and from the gzip file written by create_main_run_output: all data present, log_p_one recomputed under the "
        "entry's alpha, rebuild comparison, entry 0 = the state a num_iters=0 run of the same seed records; (d) the iter sequences against Model/TraceLoop.v"
    )
    ctx.exhaustive = False
    if ctx.quick:
        rjobs = [(ctx.rng.randrange(10**9), ctx.rng.randint(5, 8), ctx.rng.choice([12, 25, 40]), k < 16) for k in range(140)]
    else:
        rjobs = [(ctx.rng.randrange(10**9), ctx.rng.randint(5, 10), ctx.rng.choice([25, 40, 80, 150]), k < 60) for k in range(700)]
    tjobs = trace_plan(ctx)
    with ProcessPoolExecutor(max_workers=h.WORKERS) as ex:
        rres = list(ex.map(edits.roundtrip_job, rjobs, chunksize=2))
        tres = list(ex.map(edits.trace_job, tjobs, chunksize=2))
    for r in tres[:2]:
        ctx.samples.append({"chain_run": r["args"], "iters": r["iters"], "alphas_vary": r["alphas_vary"], "crash": r["crash"]})
    # (a)
    n_rt = n_holes = n_oo = n_suffix = 0
    for r in rres:
        n_rt += r["roundtrips"]
        n_holes += r["holes"]
        n_oo += r["outlier_only"]
        n_suffix += r["suffix_edits"]
        ctx.case(key="hist:%d" % r["seed"], nontrivial=r["roundtrips"] >= 2, n=r["roundtrips"],
                 sample={"seed": r["seed"], "history_length": r["length"], "roundtrips": r["roundtrips"], "with_holes": r["holes"], "modes": r["modes"]})
        for m, c in r["modes"].items():
            ctx.count("mode=" + m, c)
        if r["failure"]:
            key, what, hist, e = r["failure"]
            ctx.fail("C15:%s" % key, what, {"roundtrip_job_args": [r["seed"], r["n_points"], r["asked_length"], False], "history_prefix": hist, "suffix_edit": e,
                                          "how": "pv.edits.roundtrip_job((seed, n_points, length, False))"})
    ctx.count("roundtrips_with_index_holes", n_holes)
    ctx.count("roundtrips_outlier_only_tree", n_oo)
    ctx.count("suffix_edits_compared", n_suffix)
    ctx.log("round trips %d (holes %d, outlier-only %d), suffix edits %d" % (n_rt, n_holes, n_oo, n_suffix))
    # (c)
    seqs = []
    crashes = 0
    for r in tres:
        a = r["args"]
        ctx.case(key="trace:%r" % (tuple(a[2:6]),), nontrivial=r["entries"] >= 3, n=max(1, r["entries"]),
                 sample={"run": a, "iters": r["iters"], "alphas_vary": r["alphas_vary"]})
        ctx.count("num_iters=%d" % a[2])
        ctx.count("thin=%d" % a[3])
        ctx.count("conc_update=%s" % a[5])
        if r["crash"]:
            crashes += 1
            ctx.count("run_crashed(not judged here)=" + r["crash"].split(":")[0])
            continue
        if r["alphas_vary"]:
            ctx.count("runs_with_varying_alpha")
        if r["failure"]:
            key, what = r["failure"]
            ctx.fail("C15:trace:%s:thin=%d,conc=%s" % (key, a[3], a[5]), what, {"trace_job_args": a, "how": "pv.edits.trace_job(args)"})
        else:
            seqs.append((a[2], a[3], a[9], r["iters"]))
    ctx.log("chain runs %d (crashed %d)" % (len(tres), crashes))
    # (b) + (d) Coq
    groups = [r["coq"] for r in rres if r["coq"]]

    def one(k):
        defs, items = groups[k]
        return coq.coq_eval_bool_cases(ctx, "dict%03d" % k, edits.DICT_HEADER + defs, items, shard=10, workers=1)

    bad, broken, n_items = [], [], 0
    with ThreadPoolExecutor(max_workers=h.WORKERS) as ex:
        for k, (ok, b, detail) in enumerate(ex.map(one, range(len(groups)))):
            n_items += len(groups[k][1])
            if not ok:
                broken.append((k, detail[-500:]))
            elif b:
                bad.append((k, b))
    canary_ok = False
    if groups:
        import re

        defs, items = groups[0]
        m = re.search(r"\(WNode (\d+)\)|WNone|WOut", items[0])
        # perturb the dictionary's `last` (first occurrence is inside mkD ...): the restored `last` must then differ
        if m:
            repl = "WOut" if m.group(0) != "WOut" else "WNone"
            pert = items[0][: m.start()] + repl + items[0][m.end():]
            ok, b, _ = coq.coq_eval_bool_cases(ctx, "dict_canary", edits.DICT_HEADER + defs, [pert], shard=1, workers=1)
            canary_ok = ok and b == [0]
    ctx.obligation("corr_dict_canary_perturbed_dictionary_rejected", canary_ok)
    if broken:
        ctx.broken_tie("C15 dictionary correspondence file did not evaluate", broken[:2])
    else:
        ctx.obligation("corr_from_dict_model_eq_impl_%d_dicts" % n_items, not bad)
        if bad:
            ctx.broken[-1]["detail"] = {"failing": bad[:3], "item": groups[bad[0][0]][1][bad[0][1][0]][:700]}
    titems = []
    for n_it, thin, mt, iters in seqs:
        stop = "(fun _ _ => false)" if mt == INF else "(fun _ _ => true)"
        titems.append("lnat_eqb (map (e_iter nat) (trace nat nat (fun _ s => S s) %s (fun _ => 1%%Qc) (fun s => s) (fun _ _ => 0%%Qc) %d %d 0)) %s" % (
            stop, thin, n_it, edits.nat_list(iters)))
    titems.append("negb (lnat_eqb (map (e_iter nat) (trace nat nat (fun _ s => S s) (fun _ _ => false) (fun _ => 1%Qc) (fun s => s) (fun _ _ => 0%Qc) 2 5 0)) [0; 2; 4])")  # canary: must differ ([0;0;2;4])
    ok, b, detail = coq.coq_eval_bool_cases(ctx, "trace", "From PV Require Import Model.TraceLoop Model.CaseUtil.\nOpen Scope nat_scope.\n", titems, shard=200)
    if not ok:
        ctx.broken_tie("C15 trace-loop correspondence file did not evaluate", detail)
    else:
        ctx.obligation("corr_trace_loop_model_eq_impl_%d_runs_and_canary" % (len(titems) - 1), not b, b[:5])
    ctx.extra.update({"roundtrips": n_rt, "roundtrips_with_holes": n_holes, "chain_runs": len(tres), "coq_dicts": n_items})
    ctx.assumptions += [
        "rustworkx' update() DFS inside from_dict is taken to be the label-level post-order update through the abstraction function (Model/DictForm.v header); validated by (b)",
        "pickle / gzip are exercised, not modelled",
        "thin >= 1 (the CLI clamps it); num_iters = 0 is used only to observe the post-burn-in state",
        "a trace holds TWO entries with iter = 0 (post-burn-in, and after the first sweep): consistent with the property's wording, noted in C15_trace_shape",
        "crashes of a run are recorded in the histogram but judged by C19",
    ]


def replay(ctx, doc):
    rp = doc.get("replay", {})
    if "roundtrip_job_args" in rp:
        r = edits.roundtrip_job(tuple(rp["roundtrip_job_args"]))
        ctx.case(key="replay", n=r["roundtrips"], sample={"replay": rp["roundtrip_job_args"], "outcome": r["failure"]})
        if r["failure"]:
            key, what, hist, e = r["failure"]
            ctx.fail("C15:%s" % key, what, rp)
        ctx.log("replayed round-trip history: %s" % (r["failure"],))
    elif "trace_job_args" in rp:
        a = rp["trace_job_args"]
        a[9] = float(a[9])
        r = edits.trace_job(tuple(a))
        ctx.case(key="replay", n=1, sample={"replay": a, "iters": r["iters"], "outcome": r["failure"]})
        if r["failure"]:
            key, what = r["failure"]
            ctx.fail("C15:trace:%s:thin=%d,conc=%s" % (key, a[3], a[5]), what, rp)
        ctx.log("replayed chain run: %s" % (r["failure"],))
    else:
        ctx.log("nothing to replay in this file (a tie/proof replay names the obligation that broke)")
        print(doc)
