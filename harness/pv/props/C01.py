"""C01 - one particle-Gibbs update of the whole tree leaves the log_p_one posterior invariant."""
import itertools
import time
from concurrent.futures import ProcessPoolExecutor

import numpy as np

from .. import coq
from ..kernels import KINDS, invariance_defect, transition_matrix
from ..trees import rational_values

TOL = 1e-9


def _warm():
    import phyclone.run  # noqa


def configs(ctx):
    grid_nt = [(2, 0.5), (2, 1.0), (3, 0.0), (2, 0.0), (3, 0.5), (3, 1.0)]
    alphas = [0.3, 1.0, 2.5]
    out = []
    for npts in (1, 2):
        for kind in KINDS:
            for (dop, pop) in ((0.0, 0.0), (0.2, 0.1)):
                for wiring in ("library", "run"):
                    combos = [(n, t, a) for (n, t) in grid_nt for a in alphas]
                    ctx.rng.shuffle(combos)
                    k = (1 if npts == 1 else 2) if ctx.quick else (3 if npts == 1 else 5)
                    chosen = combos[:k]
                    if npts == 2 and (2, 0.5, 1.0) not in chosen:
                        chosen.append((2, 0.5, 1.0))
                    for (n, t, a) in chosen:
                        if npts == 2 and n == 3 and dop > 0 and ctx.quick and t == 0.0 and kind != "bootstrap":
                            continue  # 3000+ paths per start; kept for thorough
                        out.append(dict(move="pg", npts=npts, kind=kind, prop_op=pop, data_op=dop, N=n, thr=t, alpha=a, wiring=wiring))
    # tied weights at the "always resample" threshold (regression for the relative-ESS round-off finding)
    out.append(dict(move="pg", npts=2, kind="fully-adapted", prop_op=0.1, data_op=0.2, N=3, thr=1.0, alpha=2.5, wiring="library", flat_only=True))
    # three data points (since the enumerator merges equal shuffle outcomes these are seconds each)
    k3 = 0
    for kind in KINDS:
        for (dop, pop) in ((0.0, 0.0), (0.2, 0.1)):
            k3 += 1
            # quick: one wiring per (proposal, outlier setting) at three points, alternating (both wirings are compared for
            # every proposal and outlier setting at one and two points above); thorough: both
            for wiring in ((("library", "run")[k3 % 2],) if ctx.quick else ("library", "run")):
                n, t = ctx.rng.choice([(2, 0.5), (2, 1.0), (2, 0.0)]) if ctx.quick else (2, 0.5)
                out.append(dict(move="pg", npts=3, kind=kind, prop_op=pop, data_op=dop, N=n, thr=t, alpha=ctx.rng.choice([0.3, 1.0, 2.5]), wiring=wiring))
                if not ctx.quick and wiring == "library" and dop == 0.0:
                    out.append(dict(move="pg", npts=3, kind=kind, prop_op=pop, data_op=dop, N=3, thr=ctx.rng.choice([0.0, 1.0]), alpha=ctx.rng.choice([0.3, 2.5]), wiring=wiring))
    if not ctx.quick:
        # four data points: 262 states without outliers
        for kind in KINDS:
            out.append(dict(move="pg", npts=4, kind=kind, prop_op=0.0, data_op=0.0, N=2, thr=0.5, alpha=1.0, wiring=ctx.rng.choice(["library", "run"])))
    return out


def run(ctx):
    coq.check_property_file(ctx)
    ctx.rule = (
        "exact transition matrix of ParticleGibbsTreeSampler.sample_tree from EVERY start tree over 1-3 (thorough: 4) data points, "
        "every random outcome enumerated (permutation, proposals, resampling, final selection), for proposal kind x outliers on/off x "
        "run.py wiring vs library wiring (RootPermutationDistribution) x (particles, threshold, alpha) drawn from a grid by the seed; "
        "checked: max|pi P - pi| <= 1e-9 with pi from TreeJointDistribution.log_p_one, row sums = 1, no exception on any path; "
        "distinct = configuration x data set; non-trivial = at least 2 states"
    )
    ctx.exhaustive = True
    cfgs = configs(ctx)
    pool = ProcessPoolExecutor(max_workers=14, initializer=_warm)
    datasets = {}
    try:
        for cfg in cfgs:
            npts = cfg["npts"]
            for flat in ((True,) if cfg.get("flat_only") else (False,) if ctx.quick or npts >= 3 or cfg["N"] >= 3 else (False, True)):
                key = (npts, flat)
                if key not in datasets:
                    datasets[key] = rational_values(ctx.rng, npts, 2 if flat else (1 if npts >= 3 else ctx.rng.choice([1, 2])), 3 if npts >= 3 else 4, flat=flat)
                vals = datasets[key]
                t = time.time()
                res = transition_matrix(vals, cfg["data_op"], cfg, pool=pool)
                d, j, rs = invariance_defect(res)
                nstates = len(res["specs"])
                tag = "%s:%s:outliers=%s:npts=%d" % (cfg["wiring"], cfg["kind"], "on" if cfg["data_op"] > 0 else "off", npts)
                ctx.case(key=(tuple(sorted(cfg.items())), flat), nontrivial=nstates >= 2,
                         sample={"config": cfg, "states": nstates, "paths": res["paths"], "max_abs_piP_minus_pi": d, "rowsum_err": rs})
                ctx.count("kind=%s" % cfg["kind"]); ctx.count("wiring=%s" % cfg["wiring"]); ctx.count("npts=%d" % npts)
                ctx.count("paths", res["paths"])
                replay = {"config": cfg, "values": [[[str(x) for x in row] for row in pt] for pt in vals]}
                if res["errors"]:
                    e = res["errors"][0]
                    ctx.fail("C01:pg:exception:%s:N=%d:thr=%s" % (tag, cfg["N"], cfg["thr"]), "exception inside the update: %s" % e["error"], dict(replay, start=e["start"], path=e["path"], error=e["error"]))
                    continue
                if res["malformed"] or res["escaped"]:
                    m = (res["malformed"] or res["escaped"])[0]
                    ctx.fail("C01:pg:malformed:%s" % tag, "update returned a tree outside the state space", dict(replay, detail=m))
                    continue
                if d > TOL or rs > TOL:
                    ctx.fail("C01:pg:%s" % tag, "posterior not invariant: max|pi P - pi| = %.3g at state %s" % (d, res["specs"][j]),
                             dict(replay, state=res["specs"][j], pi=res["pi"].tolist(), piP=(res["pi"] @ res["P"]).tolist()))
                ctx.log("%s N=%d thr=%s a=%s: states %d paths %d inv %.2g (%.1fs)" % (tag, cfg["N"], cfg["thr"], cfg["alpha"], nstates, res["paths"], d, time.time() - t))
    finally:
        pool.shutdown()
    # ---- correspondence of the Coq conditional-SMC model with the real sampler (fixed data order)
    from . import C01corr

    items, desc = C01corr.build_items(ctx)
    ok, bad, detail = coq.coq_eval_bool_cases(ctx, "corr", "From PV Require Import Model.CsmcCases.\nOpen Scope nat_scope.", items, shard=5, workers=14)
    ctx.extra["coq_corr_cases"] = len(items)
    if not ok:
        ctx.broken_tie("C01 correspondence file did not evaluate", detail)
    else:
        ctx.obligation("corr_csmc_model_eq_impl_%d_rows" % len(items), not bad)
        if bad:
            ctx.broken[-1]["detail"] = {"failing": len(bad), "first": desc[bad[0]]}
    # ---- the grammar model (state space and retained paths), premise (i) of the assembled theorem
    gitems, gdesc = C01corr.grammar_items(ctx)
    ok, bad, detail = coq.coq_eval_bool_cases(ctx, "gram", "From PV Require Import Model.GrammarCases Proofs.GrammarPG.\nOpen Scope nat_scope.", gitems, shard=4, workers=14)
    ctx.extra["coq_grammar_cases"] = len(gitems)
    if not ok:
        ctx.broken_tie("C01 grammar correspondence file did not evaluate", detail)
    else:
        ctx.obligation("corr_grammar_state_space_and_retained_paths_%d_items" % len(gitems), not bad)
        if bad:
            ctx.broken[-1]["detail"] = {"failing": len(bad), "first": gdesc[bad[0]]}
    # canary: a retained path presented along the REVERSED order (incompatible as soon as the tree has a parent and a child) is rejected
    cand = [(it, d) for it, d in zip(gitems, gdesc) if d["what"] == "retained path" and any(node[1] for node in d["start"][0])]
    if cand:
        it, d = cand[0]
        fwd = "[" + "; ".join(str(x) for x in d["order"]) + "]%nat"
        bwd = "[" + "; ".join(str(x) for x in reversed(d["order"])) + "]%nat"
        okc, badc, _ = coq.coq_eval_bool_cases(ctx, "gram_canary", "From PV Require Import Model.GrammarCases Proofs.GrammarPG.\nOpen Scope nat_scope.", [it.replace(fwd, bwd, 1)], shard=1, workers=1)
        ctx.obligation("corr_grammar_canary_reversed_order_rejected", fwd in it and okc and badc == [0])
    # ---- the end-to-end target: gam_fscrp of the Coq theorem against the real log_p_one / log_p on every state
    eh, eitems, edesc = C01corr.e2e_items(ctx)
    ok, bad, detail = coq.coq_eval_bool_cases(ctx, "e2e", eh, eitems, shard=8, workers=14)
    ctx.extra["coq_e2e_target_cases"] = len(eitems)
    if not ok:
        ctx.broken_tie("C01 end-to-end target correspondence file did not evaluate", detail)
    else:
        ctx.obligation("corr_e2e_target_is_log_p_one_%d_states" % len(eitems), not bad)
        if bad:
            ctx.broken[-1]["detail"] = {"failing": len(bad), "first": edesc[bad[0]]}
    ctx.assumptions += [
        "the enumerating generator visits every outcome of each numpy call with numpy's probability",
        "float round-off of the exact matrices is below 1e-12 on the small-rational inputs used (observed 1e-16)",
    ]


def replay(ctx, doc):
    """./check C01 --replay file: recompute the exact transition matrix of the recorded configuration on the recorded data."""
    from fractions import Fraction

    rp = doc.get("replay", {})
    if "config" not in rp or "values" not in rp:
        ctx.log("nothing to replay in this file (a tie/proof replay names the obligation that broke)")
        print(doc)
        return
    cfg = rp["config"]
    vals = [[[Fraction(x) for x in row] for row in pt] for pt in rp["values"]]
    res = transition_matrix(vals, cfg.get("data_op", 0.0), cfg, workers=8)
    d, j, rs = invariance_defect(res)
    ctx.case(key="replay", nontrivial=True, sample={"config": cfg, "max_abs_piP_minus_pi": d, "rowsum_err": rs, "errors": res["errors"][:2]})
    ctx.log("replayed %r: max|pi P - pi| = %.3g at state %s, row-sum error %.3g, exceptions %d" % (cfg, d, res["specs"][j], rs, len(res["errors"])))
    if res["errors"] or d > TOL or rs > TOL:
        ctx.fail(doc.get("key", "C01:replay"), "replayed configuration still fails: max|pi P - pi| = %.3g, exceptions %d" % (d, len(res["errors"])), rp)
