"""C10 - reported CCFs are feasible on the tree and jointly maximise the summed per-clone log-likelihood.

Tie:    phyclone.process_trace.map.get_map_node_ccfs_and_clonal_prev_dicts on real Trees whose data points carry
        integer-valued log-likelihood grids, against the Coq model Model/MapDP.v (map_assign) evaluated by vm_compute:
        indices compared exactly where the optimum is unique, by score and feasibility on tied / flat grids.
Search: brute-force maximum over ALL index assignments (the property-level oracle), feasibility, grid membership and
        prevalence = ccf - children's ccfs >= -1e-12 checked directly on the implementation's output.
"""
import itertools
import math
from concurrent.futures import ProcessPoolExecutor

import numpy as np

from .. import coq
from ..trees import scramble
from .C02 import _forests, _tsize, _tuplify, assign_points, max_kids, nodes_of


def brute_max(args):
    """max total score over all assignments in [0,G)^n with every node >= sum of its children and the top-level
    nodes summing to <= G-1; also the number of maximisers and of feasible assignments"""
    kids_of, tops, lp, G = args
    n = len(kids_of)
    best, nbest, nfeas = None, 0, 0
    for a in itertools.product(range(G), repeat=n):
        t = 0
        for c in tops:
            t += a[c]
        if t > G - 1:
            continue
        ok = True
        for i in range(n):
            ks = kids_of[i]
            if ks:
                s = 0
                for c in ks:
                    s += a[c]
                if s > a[i]:
                    ok = False
                    break
        if not ok:
            continue
        nfeas += 1
        sc = 0
        for i in range(n):
            sc += lp[i][a[i]]
        if best is None or sc > best:
            best, nbest = sc, 1
        elif sc == best:
            nbest += 1
    return best, nbest, nfeas


def zl(xs):
    return "[" + "; ".join("(%d)" % int(x) for x in xs) + "]"


def coq_ztree(nodes, p, lp):
    return "(Node %s [%s])" % (zl(lp[p]), "; ".join(coq_ztree(nodes, c, lp) for c in nodes[p]["kids"]))


HEADER = "\n".join([
    "From PV Require Import Model.MapDP Model.CaseUtil.",
    "Open Scope Z_scope.",
    "(* unique optimum: the implementation's indices (pre-order) must be the model's *)",
    "Definition chk_idx (G : nat) (f : list ztree) (obs : list nat) : bool := lnat_eqb (map_assign G f) obs.",
    "(* tied optimum: same total score, and the model's assignment is feasible *)",
    "Definition chk_score (G : nat) (f : list ztree) (obs : list nat) : bool :=",
    "  (fscore f (map_assign G f) =? fscore f obs) && ffeas f (G - 1) (map_assign G f) && ffeas f (G - 1) obs.",
])


def gen_grid(rng, kind, G):
    if kind == "wide":
        return [rng.randint(-200, 0) for _ in range(G)]
    if kind == "narrow":
        return [rng.randint(-3, 0) for _ in range(G)]
    if kind == "flat":
        return [-1] * G
    if kind == "huge":  # log-likelihoods of clones with thousands of mutations: large magnitude, small differences
        base = -rng.choice([10**7, 3 * 10**7, 10**8])
        return [base + rng.randint(0, 40) for _ in range(G)]
    if kind == "peaked":  # unimodal like a real likelihood
        c = rng.randrange(G)
        w = rng.randint(1, 30)
        return [-w * (i - c) * (i - c) for i in range(G)]
    raise ValueError(kind)


def eval_tree(ctx, ci, f_key, roots, G, S, kind, n_out, grids, records, tasks, history=()):
    """run the implementation on one tree; check grid membership, feasibility and prevalences on its output; queue the
    brute-force maximum"""
    from phyclone.data.base import DataPoint
    from phyclone.process_trace.map import get_map_node_ccfs_and_clonal_prev_dicts
    from phyclone.tree import Tree

    npts = len(grids) - n_out
    data = [DataPoint(i, np.array(g, dtype=float), outlier_prob=0, outlier_prob_not=0.0) for i, g in enumerate(grids)]
    tree = Tree((S, G))

    def rec(node):
        own, kids = node
        ch = [rec(k) for k in kids]
        return tree.create_root_node(children=ch, data=[data[i] for i in own])

    for r in roots:
        rec(r)
    for i in range(npts, npts + n_out):
        tree.add_data_point_to_outliers(data[i])
    tree = scramble(tree, history)
    for op in history:
        ctx.count("edit=%s" % op[0])
    sig = (len(nodes_of(roots)), max_kids(roots), 0)
    replay = {"roots": roots, "grid": G, "samples": S, "kind": kind, "outliers": n_out, "grids": grids, "history": [list(op) for op in history]}
    key_base = "C10:get_map_node_ccfs_and_clonal_prev_dicts:%%s:nodes=%d:kids=%d" % (sig[0], sig[1])
    try:
        lik_before = np.array(tree.data_log_likelihood, dtype=float)
        first = get_map_node_ccfs_and_clonal_prev_dicts(tree)
        # the summary is asked again for the SAME tree object (the commands do so for tables, archives and reports): it must not
        # have changed the tree, and the later answers are the ones checked below
        get_map_node_ccfs_and_clonal_prev_dicts(tree)
        ccf, prev = get_map_node_ccfs_and_clonal_prev_dicts(tree)
    except Exception as e:  # the summary must be total on trees with at least one clone
        ctx.fail(key_base % "raises", "raised %r" % (e,), replay)
        return
    same = all(np.array_equal(np.asarray(first[0][k]), np.asarray(ccf[k])) for k in first[0]) and set(first[0]) == set(ccf)
    if not same or not np.array_equal(lik_before, np.array(tree.data_log_likelihood, dtype=float)):
        ctx.fail(key_base % "repeated-request", "asking for the MAP assignment of the same tree object again %s" % ("gives different CCFs" if not same else "changed the tree's likelihood vectors"), replay)
    # pre-order view through the public accessors
    nodes = []

    def walk(name):
        pos = len(nodes)
        nd = {"name": name, "own": sorted(d.idx for d in tree.get_data(name)), "kids": []}
        nodes.append(nd)
        for c in tree.get_children(name):
            nd["kids"].append(walk(c))
        return pos

    tops = [walk(r) for r in tree.roots]
    ctx.count("clones=%d" % sig[0])
    ctx.count("max_children=%d" % sig[1])
    ctx.count("G=%d" % G)
    ctx.count("kind=%s" % kind)
    ctx.count("samples=%d" % S)
    if set(ccf.keys()) != {nd["name"] for nd in nodes} or set(prev.keys()) != set(ccf.keys()):
        ctx.fail(key_base % "clone_set", "reported clones %r differ from the tree's clones %r" % (sorted(map(str, ccf.keys())), sorted(str(nd["name"]) for nd in nodes)), replay)
        return
    for s in range(S):
        lp = [[sum(grids[i][s][x] for i in nd["own"]) for x in range(G)] for nd in nodes]
        idx, bad = [], None
        for nd in nodes:
            v = float(ccf[nd["name"]][s]) * (G - 1)
            if not math.isfinite(v) or abs(v - round(v)) > 1e-9 or not (0 <= round(v) <= G - 1):
                bad = (nd["name"], float(ccf[nd["name"]][s]))
                break
            idx.append(int(round(v)))
        if bad:
            ctx.fail(key_base % "off_grid", "ccf %r of clone %r in sample %d is not i/(G-1) with 0<=i<G" % (bad[1], bad[0], s), replay)
            continue
        # feasibility on the implementation's own output
        infeasible = None
        for p, nd in enumerate(nodes):
            if sum(idx[c] for c in nd["kids"]) > idx[p]:
                infeasible = "clone %r has index %d below its children's sum %d" % (nd["name"], idx[p], sum(idx[c] for c in nd["kids"]))
        if sum(idx[c] for c in tops) > G - 1:
            infeasible = "top-level clones sum to %d > G-1 = %d" % (sum(idx[c] for c in tops), G - 1)
        if infeasible:
            ctx.fail(key_base % "infeasible", "sample %d: %s" % (s, infeasible), replay)
        # prevalence
        for p, nd in enumerate(nodes):
            expect = float(ccf[nd["name"]][s]) - sum(float(ccf[nodes[c]["name"]][s]) for c in nd["kids"])
            got = float(prev[nd["name"]][s])
            if abs(got - expect) > 1e-12 or got < -1e-12:
                ctx.fail(key_base % "prevalence", "sample %d clone %r: prevalence %r, ccf minus children %r" % (s, nd["name"], got, expect), replay)
                break
        score = sum(lp[p][idx[p]] for p in range(len(nodes)))
        records.append({"ci": ci, "s": s, "G": G, "kind": kind, "f": f_key, "sig": sig, "nodes": [{"kids": nd["kids"]} for nd in nodes], "tops": tops, "lp": lp, "idx": idx, "score": score, "replay": replay, "key": key_base, "infeasible": bool(infeasible)})
        tasks.append(([nd["kids"] for nd in nodes], tops, lp, G))


def finish(ctx, records, results, name):
    items, unique_n, tied_n = [], 0, 0
    for rec_, (best, nbest, nfeas) in zip(records, results):
        ctx.case(key=(rec_["f"], rec_["G"], rec_["kind"], rec_["s"], rec_["ci"]), nontrivial=rec_["sig"][0] >= 2 and nfeas > 1,
                 sample={"shape": rec_["f"], "G": rec_["G"], "kind": rec_["kind"], "feasible_assignments": nfeas, "maximisers": nbest, "max": best, "reported_idx": rec_["idx"]})
        ctx.count("unique_optimum" if nbest == 1 else "tied_optimum")
        if not rec_["infeasible"] and rec_["score"] != best:
            ctx.fail(rec_["key"] % "suboptimal", "sample %d: reported assignment %r scores %d, the maximum over %d feasible assignments is %d" % (rec_["s"], rec_["idx"], rec_["score"], nfeas, best), rec_["replay"])
        forest = "[" + "; ".join(coq_ztree(rec_["nodes"], p, rec_["lp"]) for p in rec_["tops"]) + "]"
        obs = "[" + "; ".join(str(i) for i in rec_["idx"]) + "]%nat"
        if nbest == 1:
            unique_n += 1
            items.append("chk_idx %d %s %s" % (rec_["G"], forest, obs))
        else:
            tied_n += 1
            items.append("chk_score %d %s %s" % (rec_["G"], forest, obs))
    ctx.extra["instances_unique_optimum"] = unique_n
    ctx.extra["instances_tied_optimum"] = tied_n
    if not items:
        return
    ok, bad, detail = coq.coq_eval_bool_cases(ctx, name, HEADER, items, shard=max(20, len(items) // 6 + 1), workers=6)
    ctx.extra["coq_corr_cases"] = len(items)
    if not ok:
        ctx.broken_tie("C10 correspondence file did not evaluate", detail)
    else:
        ctx.obligation("corr_model_eq_impl_%d_cases" % len(items), not bad)
        if bad:
            r0 = records[bad[0]]
            ctx.broken[-1]["detail"] = {"failing_case_count": len(bad), "first": r0["replay"], "sample": r0["s"], "reported_idx": r0["idx"], "item": items[bad[0]][:600]}


def run(ctx):
    coq.check_property_file(ctx)
    quick = ctx.quick
    rng = ctx.rng
    nmax = 6 if quick else 7
    budget = 60000 if quick else 1200000
    ctx.rule = (
        "every unlabelled forest shape with 1..%d clones (exhaustive over shapes; sibling order, 1-2 data points per clone, optional outlier "
        "points, grid size 2..10 (thorough 2..12), 1-3 samples drawn from the seeded generator) x integer log-likelihood grids of four kinds (wide-range: "
        "unique optimum; peaked; narrow-range and flat: many ties); get_map_node_ccfs_and_clonal_prev_dicts compared with a brute-force maximum "
        "over all G^clones index assignments and with the Coq model; half of the trees first go through 1-3 shape-preserving edits (prune a subtree and graft it "
        "back, relabel_nodes, to_dict/from_dict) so that child order and node ids are not those of a freshly built tree; non-trivial = at least two clones and more than one feasible assignment; "
        "distinct = (shape, grid size, grid kind, sample)" % nmax
    )
    ctx.exhaustive = True
    shapes = []
    for n in range(1, nmax + 1):
        shapes += _forests(n)
    kinds = ["wide", "peaked", "huge", "flat", "narrow"]
    plan = []
    for f in shapes:
        n = sum(_tsize(t) for t in f)
        reps = (5 if n <= 5 else 2) if quick else (10 if n <= 5 else (4 if n == 6 else 2))
        for rep in range(reps):
            gs = [g for g in range(2, 11 if quick else 13) if g**n <= budget]
            G = gs[-1] if rep == 0 else rng.choice(gs)
            S = rng.randint(1, 3)
            plan.append((f, G, S, kinds[rep % len(kinds)] if rep else "wide"))
    # grids with more than 256 points (anything that stores grid indices in a narrow integer type, or tabulates up to a fixed
    # size, shows only there): one- and two-clone shapes, likelihoods peaking at a high index
    for f in [sh for sh in shapes if sum(_tsize(t) for t in sh) <= 2]:
        for G in ((301,) if sum(_tsize(t) for t in f) == 1 else (257,)) if quick else (257, 301):
            plan.append((f, G, rng.randint(1, 2), "high"))
    records = []
    tasks = []
    for ci, (f, G, S, kind) in enumerate(plan):
        roots, npts = assign_points(rng, f, 2)
        n_out = rng.choice((0, 0, 1, 2))
        if kind == "high":
            grids = [[gen_grid(rng, "wide", G) for _ in range(S)] for _ in range(npts + n_out)]
            for g in grids:
                for row in g:
                    row[rng.randrange(256, G)] += 1000
        else:
            grids = [[gen_grid(rng, kind, G) for _ in range(S)] for _ in range(npts + n_out)]
        # half of the trees go through the edits a sampler / the trace applies before the summary sees them
        history = []
        if rng.random() < 0.5:
            for _ in range(rng.randint(1, 3)):
                history.append(rng.choice([("regraft", rng.randrange(1000)), ("regraft", rng.randrange(1000)), ("relabel",), ("dict",)]))
        eval_tree(ctx, ci, f, roots, G, S, kind, n_out, grids, records, tasks, history=history)
    ctx.log("%d trees, %d (tree, sample) instances" % (len(plan), len(records)))
    with ProcessPoolExecutor(max_workers=6) as ex:
        results = list(ex.map(brute_max, tasks, chunksize=4))
    ctx.log("brute force done")
    finish(ctx, records, results, "corr")
    ctx.assumptions += [
        "integer scores in the model; the implementation is fed integer-valued float grids, the constant log_prior per clone shifts all assignments equally",
        "indices compared exactly only where the brute force finds a unique maximiser; otherwise by total score and feasibility",
        "trees have at least one clone (an all-outlier tree is C12's finding)",
        "prevalence >= -1e-12 and = ccf - children's ccfs is checked on the float output, not proved for floats",
    ]


def replay(ctx, doc):
    r = doc.get("replay", {})
    if "grids" not in r:
        ctx.broken_tie("replay file has no recognised input", doc)
        return
    records, tasks = [], []
    roots = _tuplify(r["roots"])
    eval_tree(ctx, 0, "replay", roots, r["grid"], r["samples"], r.get("kind", "replay"), r.get("outliers", 0), r["grids"], records, tasks, history=[tuple(op) for op in r.get("history", [])])
    results = [brute_max(t) for t in tasks]
    for rec_, res in zip(records, results):
        ctx.log("sample %d: reported %r score %d; brute-force max %d (%d maximisers, %d feasible)" % (rec_["s"], rec_["idx"], rec_["score"], res[0], res[1], res[2]))
    finish(ctx, records, results, "replay")
