"""C18 - a seeded run is reproducible regardless of scheduling and hash seed.

Real `phyclone run --seed S` command lines in fresh interpreters (console entry read from pyproject.toml), same input and
options, varied: PYTHONHASHSEED in {0, 1, 12345, unset = random}, CPU affinity (taskset -c 0 vs all), chain counts 1-3,
and every start / completion order of the worker processes forced through the guarded delay hook
(PHYCLONE_VERIF_START_DELAYS / PHYCLONE_VERIF_END_DELAYS, active only under PHYCLONE_VERIF=1).  Traces are compared
with the group's reference run chain by chain, entry by entry: canonical tree dictionary, alpha and log_p_one
bit-for-bit (float.hex).  The wall-clock field "time" is never compared."""
import itertools
import os
import re
import shutil
from concurrent.futures import ThreadPoolExecutor

from .. import coq, runs

PARALLEL_RUNS = 5


def one_run(spec):
    rc, out = runs.run_cli(spec["args"], hashseed=spec["hashseed"], env_extra=spec["env"], taskset=spec["taskset"], timeout=1500)
    res = {"spec": spec, "rc": rc, "tail": out[-1500:], "finished": [int(x) for x in re.findall(r"Finished chain (\d+)", out)]}
    if rc == 0 and os.path.exists(spec["out"]):
        raw = runs.read_trace(spec["out"])
        res["key_order"] = [int(k) for k in raw.keys()]
        res["canon"] = runs.canon_results(raw)
    return res


def build_specs(ctx, d):
    """[(group name, [run specs]; the first spec of a group is its reference)]"""
    small = runs.write_input(os.path.join(d, "tiny.tsv"), runs.make_rows(ctx.rng, 4, 2, depth=(15, 40)))
    rich = runs.write_input(os.path.join(d, "rich.tsv"), runs.make_rows(ctx.rng, 6, 1, depth=(8, 20)))
    example = os.path.join(runs.REPO, "examples", "data", "mixing_small.tsv")
    seed = ctx.rng.randrange(1, 10**6)
    groups = []
    counter = itertools.count()

    def spec(group, variation, in_file, chains, extra_args, hashseed="0", env=None, taskset=None, want_order=None):
        out = os.path.join(d, "run_%03d.pkl.gz" % next(counter))
        args = ["run", "-i", in_file, "-o", out, "--seed", seed, "--num-chains", chains, "-n", 6, "-b", 2, "--num-particles", 5, "--print-freq", 1000] + list(extra_args)
        return {"group": group, "variation": variation, "args": [str(a) for a in args], "out": out, "hashseed": hashseed, "env": env or {}, "taskset": taskset, "chains": chains, "want_order": want_order}

    def delays(order, gap):
        """delay string making chain order[0] first, order[1] second ..."""
        pos = {c: i for i, c in enumerate(order)}
        return ",".join(str(gap * pos[c]) for c in range(len(order)))

    gap = 3.0
    # --- one chain: hash seeds and affinity
    a = ["--proposal", "semi-adapted", "--outlier-prob", 0.1]
    g = [spec("one-chain", "reference", small, 1, a)]
    for hs in (["1", "12345", None] if not ctx.quick else ["1", None]):
        g.append(spec("one-chain", "hashseed=%s" % ("random" if hs is None else hs), small, 1, a, hashseed=hs))
    g.append(spec("one-chain", "affinity=1-core", small, 1, a, taskset=0))
    # negative control: a different seed must be SEEN to differ (shows the comparison is sensitive)
    ctl = spec("one-chain", "control-other-seed", small, 1, a)
    ctl["args"][ctl["args"].index("--seed") + 1] = str(seed + 1)
    g.append(ctl)
    groups.append(("one-chain", g))
    # --- boundary seed values: 0 is a valid seed (falsy in Python), as is a seed above 2**32
    for sv, chains in ((0, 1), (0, 2), (2**40 + 7, 1)):
        gname = "seed=%d-chains=%d" % (sv, chains)
        g = [spec(gname, "reference", small, chains, a), spec(gname, "hashseed=random", small, chains, a, hashseed=None)]
        for sp in g:
            sp["args"][sp["args"].index("--seed") + 1] = str(sv)
        groups.append((gname, g))
    # --- one chain, outlier-rich: a high outlier prior keeps several data points in the outlier set, so any code
    # path that iterates over a set / dict of outliers (hash-seed dependent order) feeds the generator differently
    a = ["--proposal", "fully-adapted", "--outlier-prob", 0.45, "--subtree-update-prob", 0.3]
    g = [spec("one-chain-outlier-rich", "reference", rich, 1, a)]
    for hs in (["1", "2", "12345", None] if not ctx.quick else ["1", "2", None]):
        g.append(spec("one-chain-outlier-rich", "hashseed=%s" % ("random" if hs is None else hs), rich, 1, a, hashseed=hs))
    for sp in g:
        sp["args"][sp["args"].index("-n") + 1] = "12"
    groups.append(("one-chain-outlier-rich", g))
    # --- two chains: every start order and every completion order
    a = ["--proposal", "fully-adapted", "--grid-size", 41]
    g = [spec("two-chains", "reference", small, 2, a)]
    for order in itertools.permutations(range(2)):
        g.append(spec("two-chains", "completion-order=%s" % (order,), small, 2, a, env={"PHYCLONE_VERIF_END_DELAYS": delays(order, gap)}, want_order=list(order)))
    g.append(spec("two-chains", "start-order=(1, 0)", small, 2, a, env={"PHYCLONE_VERIF_START_DELAYS": delays((1, 0), gap)}))
    g.append(spec("two-chains", "hashseed=random", small, 2, a, hashseed=None))
    groups.append(("two-chains", g))
    # --- three chains
    a = ["--proposal", "bootstrap", "--outlier-prob", 0.05, "--grid-size", 41, "--subtree-update-prob", 0.3]
    g = [spec("three-chains", "reference", small, 3, a)]
    orders = list(itertools.permutations(range(3)))
    comp = orders if not ctx.quick else [orders[5], orders[3], orders[1]]
    for order in comp:
        g.append(spec("three-chains", "completion-order=%s" % (order,), small, 3, a, env={"PHYCLONE_VERIF_END_DELAYS": delays(order, gap)}, want_order=list(order)))
    starts = orders[1:] if not ctx.quick else [orders[4]]
    for order in starts:
        g.append(spec("three-chains", "start-order=%s" % (order,), small, 3, a, env={"PHYCLONE_VERIF_START_DELAYS": delays(order, gap)}))
    g.append(spec("three-chains", "affinity=1-core", small, 3, a, taskset=0))
    # worker reuse: one worker process executes all three chains back to back / two workers share three chains (what the pool
    # does when a worker becomes free before the others have started): each chain's trace must not depend on it
    g.append(spec("three-chains", "pool-workers=1", small, 3, a, env={"PV_POOL_WORKERS": 1}))
    if not ctx.quick:
        g.append(spec("three-chains", "pool-workers=2", small, 3, a, env={"PV_POOL_WORKERS": 2}))
    if not ctx.quick:
        g.append(spec("three-chains", "hashseed=12345", small, 3, a, hashseed="12345"))
        g.append(spec("three-chains", "hashseed=random+completion-order=(2, 1, 0)", small, 3, a, hashseed=None, env={"PHYCLONE_VERIF_END_DELAYS": delays((2, 1, 0), gap)}, want_order=[2, 1, 0]))
    groups.append(("three-chains", g))
    if not ctx.quick:
        # the other two proposals under all six completion orders, hash seed random throughout
        for prop, extra in (("semi-adapted", ["--outlier-prob", 0.1]), ("fully-adapted", ["--no-concentration-update"])):
            a = ["--proposal", prop, "--grid-size", 41] + extra
            gname = "three-chains-" + prop
            g = [spec(gname, "reference", small, 3, a)]
            for order in orders:
                g.append(spec(gname, "hashseed=random+completion-order=%s" % (order,), small, 3, a, hashseed=None, env={"PHYCLONE_VERIF_END_DELAYS": delays(order, gap)}, want_order=list(order)))
            groups.append((gname, g))
    # --- clustered input with --assign-loss-prob: the loader itself draws from the seeded generator (10^4 choices per cluster)
    rows = runs.make_rows(ctx.rng, 10, 2, depth=(20, 40))
    for r in rows:
        r["mutation_id"] = "c%s:%s" % (r["mutation_id"][1:], r["mutation_id"])
    big = runs.write_input(os.path.join(d, "clustered.tsv"), rows)
    cl = os.path.join(d, "clusters.tsv")
    with open(cl, "w") as fh:
        fh.write("mutation_id\tsample_id\tcluster_id\tcellular_prevalence\tchrom\n")
        for m in range(10):
            for smp in range(2):
                cid = 0 if m < 5 else 1
                fh.write("c%d:m%d\tS%d\t%d\t%s\t%s\n" % (m, m, smp, cid, "0.9" if cid == 0 else "0.3", "chr%d" % (m + 1) if cid == 0 else "chr7"))
    a = ["--proposal", "semi-adapted", "-c", cl, "--assign-loss-prob", "--grid-size", 41]
    g = [spec("clustered-assign-loss", "reference", big, 2, a), spec("clustered-assign-loss", "hashseed=random+completion-order=(1, 0)", big, 2, a, hashseed=None, env={"PHYCLONE_VERIF_END_DELAYS": delays((1, 0), gap)}, want_order=[1, 0])]
    if not ctx.quick:
        g.append(spec("clustered-assign-loss", "hashseed=1", big, 2, a, hashseed="1"))
        g.append(spec("clustered-assign-loss", "affinity=1-core", big, 2, a, taskset=0))
    groups.append(("clustered-assign-loss", g))
    # --- --assign-loss-prob when the cluster file has no chromosome column: the positions are merged in from the DATA file
    # (and, when neither file has them, the loader falls back to the low loss prior without drawing from the generator)
    rows3 = runs.make_rows(ctx.rng, 10, 2, depth=(20, 40))
    for r in rows3:
        m = int(r["mutation_id"][1:])
        r["chrom"] = "chr%d" % (m + 1) if m < 5 else "chr7"
    big3 = runs.write_input(os.path.join(d, "clustered_chrom_in_data.tsv"), rows3)
    cl3 = os.path.join(d, "clusters_no_chrom.tsv")
    with open(cl3, "w") as fh:
        fh.write("mutation_id\tsample_id\tcluster_id\tcellular_prevalence\n")
        for m in range(10):
            for smp in range(2):
                cid = 0 if m < 5 else 1
                fh.write("m%d\tS%d\t%d\t%s\n" % (m, smp, cid, "0.9" if cid == 0 else "0.3"))
    a = ["--proposal", "semi-adapted", "-c", cl3, "--assign-loss-prob", "--grid-size", 41]
    groups.append(("assign-loss-chrom-from-data", [spec("assign-loss-chrom-from-data", "reference", big3, 1, a), spec("assign-loss-chrom-from-data", "hashseed=random", big3, 1, a, hashseed=None)]))
    rows4 = [{k: v for k, v in r.items() if k != "chrom"} for r in rows3]
    big4 = runs.write_input(os.path.join(d, "clustered_no_chrom_anywhere.tsv"), rows4)
    groups.append(("assign-loss-no-positions", [spec("assign-loss-no-positions", "reference", big4, 1, a), spec("assign-loss-no-positions", "hashseed=random", big4, 1, a, hashseed=None)]))
    # --- the same with STRING cluster ids and an exact tie for the truncal cluster (two clusters at cellular prevalence 1.0 in
    # every sample): any choice made by iterating over a set / dict of cluster ids then depends on the hash seed, changes which
    # clusters are flagged as lost and how many values the loader draws from the seeded generator
    cl2 = os.path.join(d, "clusters_tie.tsv")
    # clusters of >= 4 mutations (smaller ones are skipped by the loss heuristic): two truncal clusters with different
    # chromosome spreads, a sub-clone spread over chromosomes, a sub-clone confined to one chromosome
    layout = [("trunkA", ("1.0", "1.0"), ["chr1", "chr2", "chr3", "chr4", "chr5", "chr6"]),
              ("trunkB", ("1.0", "1.0"), ["chr7", "chr7", "chr8", "chr8"]),
              ("subC", ("0.5", "0.25"), ["chr1", "chr1", "chr2", "chr9", "chr9"]),
              ("subD", ("0.25", "0.5"), ["chr3", "chr3", "chr3", "chr3"])]
    rows2 = runs.make_rows(ctx.rng, sum(len(c) for _, _, c in layout), 2, depth=(20, 40))
    for r in rows2:
        r["mutation_id"] = "t%s:%s" % (r["mutation_id"][1:], r["mutation_id"])
    big2 = runs.write_input(os.path.join(d, "clustered_tie.tsv"), rows2)
    with open(cl2, "w") as fh:
        fh.write("mutation_id\tsample_id\tcluster_id\tcellular_prevalence\tchrom\n")
        m = 0
        for cname, prev, chroms in layout:
            for chrom in chroms:
                for smp in range(2):
                    fh.write("t%d:m%d\tS%d\t%s\t%s\t%s\n" % (m, m, smp, cname, prev[smp], chrom))
                m += 1
    a = ["--proposal", "semi-adapted", "-c", cl2, "--assign-loss-prob", "--grid-size", 41]
    g = [spec("clustered-string-ids-tie", "reference", big2, 1, a)]
    for hs in (["1", "2", "12345", None] if ctx.quick else ["1", "2", "3", "4", "5", "7", "12345", None]):
        g.append(spec("clustered-string-ids-tie", "hashseed=%s" % ("random" if hs is None else hs), big2, 1, a, hashseed=hs))
    groups.append(("clustered-string-ids-tie", g))
    # --- the repository's example input, default grid
    a = ["--proposal", "semi-adapted"]
    g = [spec("example-2-chains", "reference", example, 2, a), spec("example-2-chains", "hashseed=random+completion-order=(1, 0)", example, 2, a, hashseed=None, env={"PHYCLONE_VERIF_END_DELAYS": delays((1, 0), gap)}, want_order=[1, 0])]
    if not ctx.quick:
        g.append(spec("example-2-chains", "affinity=1-core+hashseed=1", example, 2, a, hashseed="1", taskset=0))
        g.append(spec("example-2-chains", "start-order=(1, 0)", example, 2, a, env={"PHYCLONE_VERIF_START_DELAYS": delays((1, 0), gap)}))
    g.append(spec("example-2-chains", "pool-workers=1", example, 2, a, env={"PV_POOL_WORKERS": 1}))
    groups.append(("example-2-chains", g))
    # --- worker reuse on the pre-clustered example (regression for the finding repaired in /repo: the numeric caches of the
    # tree recursion are keyed order-insensitively, so a chain that found them warm from an earlier chain of the same worker
    # process recorded log_p_one values differing in the last bit; fixed seed and options on which that was observed)
    ex_clusters = os.path.join(runs.REPO, "examples", "data", "mixing_small_clusters.tsv")
    a = ["--proposal", "fully-adapted", "-c", ex_clusters, "--outlier-prob", 0.001, "--subtree-update-prob", 0.25, "--grid-size", 51]
    g = [spec("example-clustered-3-chains", "reference", example, 3, a), spec("example-clustered-3-chains", "pool-workers=1", example, 3, a, env={"PV_POOL_WORKERS": 1})]
    for sp in g:
        for opt, val in (("--seed", 2), ("-n", 24), ("--num-particles", 8)):
            sp["args"][sp["args"].index(opt) + 1] = str(val)
    groups.append(("example-clustered-3-chains", g))
    return groups, seed


def hash_probe(ctx):
    """library-level probe: seeded sweeps of every sampler from trees holding several outliers (string-named data
    points), run in fresh interpreters under different PYTHONHASHSEED values; the transcripts must be identical."""
    import subprocess
    import sys

    seed = ctx.rng.randrange(1, 10**6)
    outs = {}

    def one(hs):
        env = dict(os.environ, PYTHONPATH=os.pathsep.join([runs.REPO, os.path.dirname(os.path.dirname(os.path.abspath(runs.__file__)))]))
        if hs is None:
            env.pop("PYTHONHASHSEED", None)
            env["PYTHONHASHSEED"] = "random"
        else:
            env["PYTHONHASHSEED"] = hs
        p = subprocess.run([sys.executable, "-m", "pv.hashprobe", str(seed)], env=env, capture_output=True, text=True, timeout=1200)
        return hs, p.returncode, p.stdout, p.stderr[-500:]

    hss = ["0", "1", "2", "3", None] if ctx.quick else ["0", "1", "2", "3", "4", "12345", None, None]
    with ThreadPoolExecutor(max_workers=4) as ex:
        res = list(ex.map(one, hss))
    ref = res[0]
    if ref[1] != 0 or not ref[2].strip():
        ctx.broken_tie("hash probe reference run failed: %s" % ref[3])
        return
    ref_lines = ref[2].splitlines()
    for hs, rc, out, err in res[1:]:
        ctx.case(key=("hashprobe", hs if hs else "random%d" % len(ctx.distinct)), nontrivial=True)
        ctx.count("hashprobe_lines", len(ref_lines))
        if rc != 0:
            ctx.fail("C18:library-sweeps:hashseed:run-failed", "probe under PYTHONHASHSEED=%s exits %d: %s" % (hs, rc, err), {"seed": seed, "hashseed": hs})
            continue
        lines = out.splitlines()
        if lines != ref_lines:
            k = next((i for i, (a, b) in enumerate(zip(lines, ref_lines)) if a != b), min(len(lines), len(ref_lines)))
            ctx.fail("C18:library-sweeps:hashseed:transcript-differs", "seeded sampler sweeps differ between PYTHONHASHSEED=0 and %s from step %d on" % (hs or "random", k),
                     {"seed": seed, "hashseed": hs, "how": "PYTHONHASHSEED=<h> python -m pv.hashprobe %d" % seed,
                      "reference_line": ref_lines[k] if k < len(ref_lines) else None, "line": lines[k] if k < len(lines) else None})


def run(ctx):
    coq.check_property_file(ctx)
    ctx.rule = (
        "groups of `phyclone run --seed S` command lines (1, 2, 3 chains on a generated 4-mutation x 2-sample input with three proposals / outlier / subtree settings; 2 chains on "
        "examples/data/mixing_small.tsv; 2 chains on a clustered input with --assign-loss-prob, whose loader draws from the seeded generator): reference under PYTHONHASHSEED=0 vs hash seeds {1, 12345, random}, taskset -c 0, every completion order of 2 chains and (thorough: all 6, "
        "quick: 3) of 3 chains, start orders, forced by the delay hook; per-chain traces compared entry by entry with float.hex; non-trivial = every variation run; distinct = (group, variation)"
    )
    ctx.exhaustive = False
    hash_probe(ctx)
    d = runs.tmpdir("C18_%d" % os.getpid())
    groups, seed = build_specs(ctx, d)
    allspecs = [s for _, g in groups for s in g]
    ctx.log("%d command-line runs in %d groups (seed %d)" % (len(allspecs), len(groups), seed))
    with ThreadPoolExecutor(max_workers=PARALLEL_RUNS) as ex:
        results = list(ex.map(one_run, allspecs))
    by_group = {}
    for r in results:
        by_group.setdefault(r["spec"]["group"], []).append(r)
    intern = {}
    items = []
    realised = {}
    for gname, rs in by_group.items():
        ref = rs[0]
        if ref["rc"] != 0 or "canon" not in ref:
            ctx.broken_tie("reference run of group %s failed (rc %s): %s" % (gname, ref["rc"], ref["tail"][-600:]))
            continue
        k = ref["spec"]["chains"]
        ref_ids = {}
        for c in range(k):
            ref_ids[c] = intern.setdefault(repr(ref["canon"][c]["trace"]), len(intern))
        ctx.count("%s:entries-per-chain=%d" % (gname, len(ref["canon"][0]["trace"])))
        for r in rs[1:]:
            sp = r["spec"]
            var = sp["variation"]
            kind = re.sub(r"=.*", "", var.split("+")[0])
            replay = {"group": gname, "variation": var, "reference_cmd": " ".join(runs.cli_cmd(ref["spec"]["args"])[2:])[:50] + " ... " + " ".join(ref["spec"]["args"]), "args": sp["args"], "PYTHONHASHSEED": sp["hashseed"], "env": sp["env"], "taskset": sp["taskset"], "seed": seed, "input": open(sp["args"][2]).read() if os.path.getsize(sp["args"][2]) < 5000 else sp["args"][2]}
            if var == "control-other-seed":
                differs = "canon" in r and runs.first_difference(ref["canon"][0], r["canon"][0]) is not None
                ctx.obligation("negative_control_other_seed_is_seen_to_differ", differs)
                continue
            if r["rc"] != 0 or "canon" not in r:
                ctx.fail("C18:run:%s:chains=%d:run-failed" % (kind, k), "variation %s exits with %s while the reference run succeeds: %s" % (var, r["rc"], r["tail"][-300:]), replay)
                continue
            ctx.case(key=(gname, var), nontrivial=True, sample={"group": gname, "variation": var, "finished_order": r["finished"], "dict_key_order": r["key_order"]})
            ctx.count("variation:" + kind)
            if sp["want_order"] is not None:
                realised[(gname, tuple(sp["want_order"]))] = r["finished"] == sp["want_order"]
            if set(r["canon"]) != set(ref["canon"]):
                ctx.fail("C18:run:%s:chains=%d:chain-set" % (kind, k), "chains %r instead of %r" % (sorted(r["canon"]), sorted(ref["canon"])), replay)
                continue
            for c in range(k):
                diff = runs.first_difference(ref["canon"][c], r["canon"][c])
                if diff:
                    replay["chain"] = c
                    replay["first_difference"] = diff
                    ctx.fail("C18:run:%s:chains=%d" % (kind, k), "chain %d differs from the reference run under %s: %s" % (c, var, diff[:200]), replay)
            # correspondence: the model assembles the reference's per-chain traces in the OBSERVED arrival order
            if k > 1 and sorted(r["finished"]) == list(range(k)):
                got = [intern.setdefault(repr(r["canon"][c]["trace"]), len(intern)) for c in range(k)]
                arrivals = "; ".join("(%d, %d)" % (c, ref_ids[c]) for c in r["finished"])
                items.append("list_eqb (fun a b => match a, b with Some x, Some y => Nat.eqb x y | None, None => true | _, _ => false end) (view %d (assemble [%s])) [%s]" % (k + 1, arrivals, "; ".join(["Some %d" % g for g in got] + ["None"])))
                if r["key_order"] != r["finished"]:
                    ctx.count("info:dict-order-differs-from-finish-order")
    ctx.extra["forced_completion_orders_realised"] = {"%s %s" % k: v for k, v in realised.items()}
    ctx.extra["distinct_chain_traces"] = len(intern)
    if realised and not all(realised.values()):
        ctx.log("note: some forced completion orders were not realised: %r" % {k: v for k, v in realised.items() if not v})
    n3 = len({o for (g, o), v in realised.items() if v and len(o) == 3})
    ctx.extra["three_chain_completion_orders_realised"] = n3
    header = "From PV Require Import Model.Chains Model.CaseUtil.\nOpen Scope nat_scope."
    if items:
        ok, bad, detail = coq.coq_eval_bool_cases(ctx, "corr", header, items)
        if not ok:
            ctx.broken_tie("C18 correspondence file did not evaluate", detail)
        else:
            ctx.obligation("corr_model_assembly_eq_observed_%d_runs" % len(items), not bad, [items[i][:200] for i in bad[:3]])
    shutil.rmtree(d, ignore_errors=True)
    ctx.assumptions += [
        "the model cannot exhibit hash-seed, affinity, threading or process start-up dependence: those are only tested, on the explored command lines",
        "completion orders are forced with sleeps of 3 s per rank through the PHYCLONE_VERIF hook; the realised order is read back from the program's own 'Finished chain' lines",
        "PYTHONHASHSEED=random is one draw per run",
    ]


def replay(ctx, doc):
    """Re-run the reference and the recorded variation and compare again."""
    import json

    r = doc.get("replay", {})
    print(json.dumps({k: v for k, v in r.items() if k != "input"}, indent=1))
    d = runs.tmpdir("C18_replay_%d" % os.getpid())
    args = list(r["args"])
    if isinstance(r.get("input"), str) and "\t" in r["input"]:
        p = os.path.join(d, "in.tsv")
        open(p, "w").write(r["input"])
        args[2] = p
    outs = []
    for tag, hs, env, ts in (("ref", "0", {}, None), ("var", r.get("PYTHONHASHSEED"), r.get("env") or {}, r.get("taskset"))):
        a = list(args)
        a[4] = os.path.join(d, tag + ".pkl.gz")
        rc, out = runs.run_cli(a, hashseed=hs, env_extra=env, taskset=ts)
        print(tag, "rc", rc)
        outs.append(runs.canon_results(runs.read_trace(a[4])) if rc == 0 else None)
    if outs[0] is None or outs[1] is None:
        ctx.fail("C18:run:replay:run-failed", "a run failed on replay", r)
        return
    for c in outs[0]:
        diff = runs.first_difference(outs[0][c], outs[1].get(c))
        if diff:
            ctx.fail("C18:run:replay:chains=%d" % len(outs[0]), "chain %d differs: %s" % (c, diff[:200]), r)
