"""C19 - a run on valid input completes and records only finite, complete trees.

(a) exhaustive enumeration of every random outcome of one whole-tree particle-Gibbs update, one subtree update, one
    data-point sweep and one prune-regraft move from every start tree over <= 2 (thorough: 3 for the cheap moves)
    data points, wired exactly as run.py wires them (setup_kernel / setup_samplers);
(b) the real chain driver phyclone.run.run_phyclone_chain over the cross-product of boundary values the command line
    accepts (ranges read from the click Command object at run time).
Any exception on any path / run is a finding; every outcome / recorded entry must be a well-formed tree over all data
points with a finite log_p_one."""
import itertools
import math
import os
import traceback
from concurrent.futures import ProcessPoolExecutor
from fractions import Fraction

from .. import coq, runs

WORKERS = 6
VALS2 = [[[3, 9, 14, 5]], [[12, 4, 2, 7]], [[6, 6, 11, 3]]]  # k/16 likelihoods, 1 sample x 4 grid points


# ---------------------------------------------------------------- classification of a crash
def call_site(tb_text):
    """innermost frame inside /repo/phyclone: 'module.function'"""
    site = "unknown"
    for line in tb_text.splitlines():
        line = line.strip()
        if line.startswith("File ") and "/phyclone/" in line and "/tests/" not in line:
            try:
                f = line.split('"')[1]
                fn = line.rsplit(" in ", 1)[1]
                site = os.path.splitext(os.path.basename(f))[0] + "." + fn
            except Exception:
                pass
    return site


def crash_key(site, exc_type, msg, n_points, threshold, all_outliers=None):
    if site == "conditional._resample_swarm" and exc_type == "IndexError":
        shape = "one-point-threshold-1" if (n_points == 1 and threshold >= 1) else "points=%d-threshold=%s" % (n_points, threshold)
        return "C19:conditional._resample_swarm:" + shape
    if site.endswith("sample_tree") and site.startswith("particle_gibbs") and exc_type == "ValueError" and ("empty" in msg or all_outliers):
        return "C19:subtree.sample_tree:all-outliers"
    return "C19:%s:%s" % (site, exc_type)


# ---------------------------------------------------------------- (a) exhaustive single moves
def _enum_task(task):
    kind, proposal, op, N, thr, spec, npts = task
    from fractions import Fraction

    from phyclone.run import setup_kernel, setup_samplers
    from phyclone.tree import FSCRPDistribution, TreeJointDistribution
    from phyclone.utils.dev import clear_proposal_dist_caches

    from pv.enumrng import enumerate_outcomes
    from pv.trees import AbsError, abs_impl, abs_spec, build_tree, make_data, spec_points

    vals = [[[Fraction(k, 16) for k in row] for row in pt] for pt in VALS2[:npts]]
    data = make_data(vals, outlier_prob=op)
    want = tuple(sorted(spec_points(spec)))
    crashes = []

    def fn(rng):
        clear_proposal_dist_caches()
        tree_dist = TreeJointDistribution(FSCRPDistribution(1.0))
        kernel = setup_kernel(op, proposal, rng, tree_dist)
        s = setup_samplers(kernel, N, op, thr, rng, tree_dist)
        tree = build_tree(spec, data)
        try:
            if kind == "pg":
                new = s.tree_sampler.sample_tree(tree)
            elif kind == "subtree":
                new = s.subtree_sampler.sample_tree(tree)
            elif kind == "dp":
                new = s.dp_sampler.sample_tree(tree)
            else:
                new = s.prg_sampler.sample_tree(tree)
        except Exception as e:
            if type(e).__name__ == "NeedMore":
                raise
            crashes.append((list(rng.path), rng.prob, type(e).__name__, str(e)[:200], traceback.format_exc()[-1800:]))
            raise
        try:
            abs_impl(new)
            out = abs_spec(new)
        except AbsError as e:
            return ("ill-formed", str(e)[:200])
        pts = tuple(sorted(spec_points(out)))
        if pts != want:
            return ("points", out)
        lp = float(tree_dist.log_p_one(new))
        if not math.isfinite(lp):
            return ("nonfinite", out, repr(lp))
        return ("ok", out)

    try:
        dist, npaths, errors = enumerate_outcomes(fn, on_error="collect", max_paths=400000)
    except RuntimeError as e:
        return {"task": task, "skipped": str(e)}
    bad = [(k, p) for k, p in dist.items() if k[0] != "ok"]
    seen = {}
    for path, prob, et, msg, tb in crashes:
        key = (call_site(tb), et)
        if key not in seen:
            seen[key] = {"site": key[0], "type": et, "msg": msg, "path": path, "prob": prob, "tb": tb, "count": 0, "mass": 0.0}
        seen[key]["count"] += 1
        seen[key]["mass"] += prob
    return {"task": task, "paths": npaths, "outcomes": len(dist), "bad": bad[:3], "crashes": list(seen.values()), "mass": sum(dist.values())}


def enum_tasks(ctx):
    from ..trees import all_specs

    tasks = []
    props = ["bootstrap", "semi-adapted", "fully-adapted"]
    for op in (0.0, 0.4):
        specs = []
        for n in (1, 2):
            specs += [(s, n) for s in all_specs(range(n), outliers=(op > 0))]
        for spec, n in specs:
            # moves that do not depend on the proposal / particle settings: once per outlier setting
            tasks.append(("dp", "semi-adapted", op, 1, 0.5, spec, n))
            tasks.append(("prg", "semi-adapted", op, 1, 0.5, spec, n))
            for proposal, N, thr in itertools.product(props, (1, 2), (0.0, 0.5, 1.0)):
                tasks.append(("pg", proposal, op, N, thr, spec, n))
                tasks.append(("subtree", proposal, op, N, thr, spec, n))
        if not ctx.quick:
            for spec in all_specs(range(3), outliers=(op > 0)):
                tasks.append(("dp", "semi-adapted", op, 1, 0.5, spec, 3))
                tasks.append(("prg", "semi-adapted", op, 1, 0.5, spec, 3))
                for proposal in props:
                    for thr in (0.0, 1.0):
                        tasks.append(("pg", proposal, op, 1, thr, spec, 3))
                        tasks.append(("subtree", proposal, op, 1, thr, spec, 3))
    if not ctx.quick:
        # a seeded sample of 3-point two-particle updates (each 5e4-1.5e5 decision paths)
        specs3 = all_specs(range(3), outliers=True)
        for _ in range(10):
            spec = ctx.rng.choice(specs3)
            op = 0.4 if spec[1] else ctx.rng.choice([0.0, 0.4])
            tasks.append((ctx.rng.choice(["pg", "subtree"]), ctx.rng.choice(props), op, 2, ctx.rng.choice([0.0, 0.5, 1.0]), spec, 3))
    return tasks


def part_a(ctx, pool):
    from ..trees import spec_nodes

    tasks = enum_tasks(ctx)
    ctx.log("(a) %d exhaustive single-move enumerations" % len(tasks))
    total_paths = 0
    subtree_obs = []
    for res in pool.map(_enum_task, tasks, chunksize=4):
        kind, proposal, op, N, thr, spec, npts = res["task"]
        if kind == "subtree" and "skipped" not in res:
            choice_crash = any(c["type"] == "ValueError" and c["site"].endswith("sample_tree") for c in res["crashes"])
            other_crash = any(not (c["type"] == "ValueError" and c["site"].endswith("sample_tree")) for c in res["crashes"])
            if not other_crash:
                subtree_obs.append((spec, choice_crash, res["mass"]))
        if "skipped" in res:
            ctx.count("a:skipped(too many paths)")
            continue
        total_paths += res["paths"]
        all_out = len(spec_nodes(spec)) == 0
        ctx.case(key=("a", res["task"]), nontrivial=res["paths"] > 1, sample={"move": kind, "proposal": proposal, "outlier_prob": op, "particles": N, "threshold": thr, "start": spec, "paths": res["paths"], "outcomes": res["outcomes"]})
        ctx.count("a:%s" % kind)
        ctx.count("a:points=%d" % npts)
        for c in res["crashes"]:
            key = crash_key(c["site"], c["type"], c["msg"], npts, thr, all_outliers=all_out)
            ctx.fail(
                key,
                "%s: %s in %s during one %s move (%d of %d decision paths, probability mass %.3g)" % (c["type"], c["msg"], c["site"], kind, c["count"], res["paths"], c["mass"]),
                {"part": "a", "move": kind, "proposal": proposal, "outlier_prob": op, "num_particles": N, "resample_threshold": thr, "start_tree": spec, "values_over_16": VALS2[:npts], "decision_path": c["path"], "traceback": c["tb"]},
            )
        for k, p in res["bad"]:
            ctx.fail("C19:%s:%s" % (kind, k[0]), "outcome of one %s move is %s: %r" % (kind, k[0], k[1:]), {"part": "a", "task": res["task"], "outcome": k, "prob": p})
        if not res["crashes"] and abs(res["mass"] - 1.0) > 1e-9:
            ctx.broken_tie("enumeration mass %.12f != 1 for %r" % (res["mass"], res["task"]))
    ctx.extra["a_enumerations"] = len(tasks)
    ctx.extra["a_decision_paths"] = total_paths
    return subtree_obs


# ---------------------------------------------------------------- (b) the real chain driver
_INPUTS = {}


def _chain_task(t):
    import numpy as np

    from phyclone.tree import Tree

    from pv.trees import AbsError, abs_impl, abs_spec, spec_points

    try:
        with np.errstate(all="ignore"):
            data, samples = runs.load_input(t["file"], outlier_prob=t["outlier_prob"], density=t["density"], grid_size=t["grid_size"])
    except Exception as e:
        return {"t": t, "crash": {"type": type(e).__name__, "msg": str(e)[:200], "tb": traceback.format_exc()[-1800:], "site": "load:" + call_site(traceback.format_exc())}}
    if t.get("input_kind") == "heavy":
        # data points as heavy as pre-clustered input with hundreds of mutations per cluster / very deep, many-sample data:
        # every grid value thousands of nats below zero (valid log-likelihoods; only log-space arithmetic survives them)
        from phyclone.data.base import DataPoint

        data = [DataPoint(d.idx, d.value - 900.0 * (1 + d.idx), name=d.name, outlier_prob=d.outlier_prob, outlier_prob_not=d.outlier_prob_not) for d in data]
    from phyclone.utils.dev import clear_proposal_dist_caches

    clear_proposal_dist_caches()
    kw = {k: t[k] for k in ("proposal", "num_particles", "resample_threshold", "outlier_prob", "subtree_update_prob", "thin", "burnin", "num_iters", "concentration_update", "max_time")}
    try:
        with np.errstate(all="ignore"):
            res = runs.run_chain(data, samples, seed=t["seed"], **kw)
    except BaseException as e:
        tb = traceback.format_exc()
        return {"t": t, "crash": {"type": type(e).__name__, "msg": str(e)[:200], "tb": tb[-1800:], "site": call_site(tb)}}
    want = tuple(range(len(data)))
    problems = []
    for i, e in enumerate(res["trace"]):
        try:
            tree = Tree.from_dict(e["tree"])
            abs_impl(tree)
            pts = tuple(sorted(spec_points(abs_spec(tree))))
        except AbsError as ex:
            problems.append(("ill-formed", i, str(ex)[:160]))
            continue
        except Exception as ex:
            problems.append(("restore-" + type(ex).__name__, i, str(ex)[:160]))
            continue
        if pts != want:
            problems.append(("points", i, repr(pts)))
        lp = e["log_p_one"]
        if not (isinstance(lp, (float, np.floating)) and math.isfinite(float(lp))):
            problems.append(("nonfinite", i, repr(lp)))
        if not math.isfinite(float(e["alpha"])) or float(e["alpha"]) <= 0:
            problems.append(("alpha", i, repr(e["alpha"])))
    all_out = sum(1 for e in res["trace"] if len(e["tree"]["graph"]) == 0)
    return {"t": t, "entries": len(res["trace"]), "problems": problems[:4], "all_outlier_entries": all_out, "iters": [int(e["iter"]) for e in res["trace"]]}


def option_domain(ctx):
    """Boundary values of every option of `phyclone run`, from the live click declarations."""
    opts = runs.run_options()
    dom = {}

    def rng_of(name):
        return runs.option_range(opts[name])

    dom["proposal"] = list(rng_of("proposal")[0])
    lo, hi, _ = rng_of("num_particles")
    dom["num_particles"] = sorted({lo if lo is not None else 1, (lo if lo is not None else 1) + 1})
    lo, hi, _ = rng_of("resample_threshold")
    dom["resample_threshold"] = [lo, (lo + hi) / 2, hi]
    lo, hi, _ = rng_of("outlier_prob")
    dom["outlier_prob"] = [lo, 0.4, hi]
    lo, hi, _ = rng_of("subtree_update_prob")
    dom["subtree_update_prob"] = [lo, hi]
    lo, hi, _ = rng_of("thin")
    dom["thin"] = sorted({lo if lo is not None else 1, 3})
    # burn-in: what the command line turns 0 and 2 into (IntRange(1, clamp=True) at the pinned commit turns 0 into 1)
    dom["burnin"] = sorted({runs.accepted(opts["burnin"], 0), runs.accepted(opts["burnin"], 2)})
    dom["concentration_update"] = [True, False]
    dom["max_time"] = [float("inf"), 0.0]
    lo, hi, _ = rng_of("grid_size")
    dom["grid_size"] = [lo if lo is not None else 11]
    dom["density"] = list(rng_of("density")[0])
    lo, hi, _ = rng_of("num_iters")
    dom["num_iters"] = sorted({lo if lo is not None else 1, 4})
    ctx.extra["cli_domain"] = {k: [repr(x) for x in v] for k, v in dom.items()}
    return dom


def make_inputs(ctx):
    import random

    d = runs.tmpdir("C19_%d" % os.getpid())
    files = []
    r = random.Random(ctx.seed)
    for n_mut in (1, 2, 3):
        for n_s in (1, 2):
            p = os.path.join(d, "in_%d_%d.tsv" % (n_mut, n_s))
            runs.write_input(p, runs.make_rows(r, n_mut, n_s, depth=(8, 30)))
            files.append((p, n_mut, n_s, "plain"))
    # a mutation without any reads (ref = alt = 0) is a valid row
    p = os.path.join(d, "in_zero_depth.tsv")
    runs.write_input(p, runs.make_rows(r, 2, 1, depth=(8, 30), zero_depth=(1,)))
    files.append((p, 2, 1, "zero-depth"))
    p = os.path.join(d, "in_zero_depth_single.tsv")
    runs.write_input(p, runs.make_rows(r, 1, 1, depth=(8, 30), zero_depth=(0,)))
    files.append((p, 1, 1, "zero-depth"))
    p = os.path.join(d, "in_heavy.tsv")
    runs.write_input(p, runs.make_rows(r, 3, 2, depth=(8, 30)))
    files.append((p, 3, 2, "heavy"))
    return files


def part_b(ctx, pool):
    dom = option_domain(ctx)
    files = make_inputs(ctx)
    names = ["proposal", "num_particles", "resample_threshold", "outlier_prob", "subtree_update_prob", "thin", "burnin", "concentration_update", "max_time", "num_iters", "density", "grid_size"]
    product = list(itertools.product(*[dom[n] for n in names]))
    full = [(c, f) for c in product for f in files]
    if ctx.quick:
        picked = ctx.rng.sample(full, 150)
        nseeds = 2
        # the boundary corners named in the design are always part of the quick subset
        for prop in dom["proposal"]:
            c1 = dict(zip(names, product[0]))
            c1.update(proposal=prop, resample_threshold=max(dom["resample_threshold"]), num_particles=2)
            picked.append((tuple(c1[n] for n in names), files[0]))
            c2 = dict(zip(names, product[0]))
            c2.update(proposal=prop, outlier_prob=0.4, subtree_update_prob=max(dom["subtree_update_prob"]), num_particles=2, num_iters=4, max_time=float("inf"))
            picked.append((tuple(c2[n] for n in names), files[2]))
        heavy = [f for f in files if f[3] == "heavy"][0]
        for prop in dom["proposal"]:
            for op_ in (0.0, 0.4):
                c3 = dict(zip(names, ctx.rng.choice(product)))
                c3.update(proposal=prop, outlier_prob=op_, num_particles=3, num_iters=3, max_time=float("inf"), burnin=2, subtree_update_prob=0.5 if op_ else 0.0)
                picked.append((tuple(c3[n] for n in names), heavy))
    else:
        r = ctx.rng
        picked = full if len(full) <= 12000 else r.sample(full, 12000)
        nseeds = 2
    tasks = []
    for combo, (path, n_mut, n_s, kind) in picked:
        for s in range(nseeds):
            t = dict(zip(names, combo))
            t.update(file=path, n_points=n_mut, n_samples=n_s, input_kind=kind, seed=ctx.rng.randrange(10**6))
            tasks.append(t)
    ctx.log("(b) %d chain runs (%d option combinations x inputs in the full product)" % (len(tasks), len(full)))
    ctx.extra["b_full_product"] = len(full)
    ctx.extra["b_runs"] = len(tasks)
    n_all_out = 0
    iters_seen = set()
    for res in pool.map(_chain_task, tasks, chunksize=8):
        t = res["t"]
        shape = {k: t[k] for k in names}
        shape.update(points=t["n_points"], samples=t["n_samples"], input=t["input_kind"])
        ctx.case(key=("b", tuple(sorted((k, repr(v)) for k, v in shape.items()))), nontrivial=True, sample={**{k: repr(v) for k, v in shape.items()}, "seed": t["seed"], "entries": res.get("entries")})
        ctx.count("b:points=%d" % t["n_points"])
        ctx.count("b:%s" % t["proposal"])
        ctx.count("b:outlier_prob=%s" % t["outlier_prob"])
        replay = {"part": "b", **{k: (repr(v) if isinstance(v, float) and not math.isfinite(v) else v) for k, v in t.items()}, "input_rows": open(t["file"]).read()}
        if "crash" in res:
            c = res["crash"]
            key = crash_key(c["site"], c["type"], c["msg"], t["n_points"], t["resample_threshold"])
            if t["outlier_prob"] >= 1 and key.count(":") == 2 and "one-point" not in key and "all-outliers" not in key:
                key += ":outlier-prob-1"
            replay["traceback"] = c["tb"]
            ctx.fail(key, "run_phyclone_chain raised %s: %s (in %s)" % (c["type"], c["msg"], c["site"]), replay)
            ctx.count("b:crash")
            ctx.count("b:crash:" + key)
            continue
        n_all_out += res["all_outlier_entries"]
        iters_seen.add((t["num_iters"], t["thin"], t["max_time"] == 0.0, tuple(res["iters"])))
        for kind, i, what in res["problems"]:
            shape_tag = "outlier-prob-1" if t["outlier_prob"] >= 1 else "outlier-prob<1"
            replay["entry"] = i
            ctx.fail("C19:trace-entry:%s:%s" % (kind, shape_tag), "trace entry %d: %s %s" % (i, kind, what), replay)
    ctx.extra["b_all_outlier_entries_seen"] = n_all_out
    return sorted(iters_seen)


# ---------------------------------------------------------------- (c) the concentration update, as wired by run.py
def _conc_task(task):
    """update_concentration_value on a tree with k clones over n points, one fresh generator per seed: the new alpha
    must be finite and positive and log_p_one under it finite."""
    k, n, seeds = task
    from fractions import Fraction

    import numpy as np

    from phyclone.run import setup_kernel, setup_samplers, update_concentration_value
    from phyclone.tree import FSCRPDistribution, TreeJointDistribution

    from pv.trees import build_tree, make_data

    vals = [[[Fraction(v, 16) for v in row] for row in pt] for pt in (VALS2 * 2)[:n]]
    data = make_data(vals, outlier_prob=0.4)
    if k == 0:
        spec = ((), tuple(range(n)))
    else:
        spec = (tuple(((i,), ()) for i in range(k - 1)) + ((tuple(range(k - 1, n)), ()),), ())
    bad = []
    for seed in seeds:
        rng = np.random.default_rng(seed)
        tree_dist = TreeJointDistribution(FSCRPDistribution(1.0))
        samplers = setup_samplers(setup_kernel(0.4, "semi-adapted", rng, tree_dist), 2, 0.4, 0.5, rng, tree_dist)
        tree = build_tree(spec, data)
        with np.errstate(all="ignore"):
            update_concentration_value(samplers.conc_sampler, tree, tree_dist)
            a = float(tree_dist.prior.alpha)
            lp = float(tree_dist.log_p_one(tree))
        if not (math.isfinite(a) and a > 0 and math.isfinite(lp)):
            bad.append((seed, a, lp))
    return {"task": (k, n, len(seeds)), "bad": bad[:5], "nbad": len(bad)}


def part_c(ctx, pool):
    per = 4000 if ctx.quick else 40000
    tasks = []
    for k, n in ((0, 1), (0, 3), (1, 1), (1, 3), (3, 3)):
        base = ctx.rng.randrange(10**6)
        for j in range(0, per, 1000):
            tasks.append((k, n, list(range(base + j, base + j + 1000))))
    ctx.log("(c) %d concentration updates through run.update_concentration_value" % (len(tasks) * 1000))
    for res in pool.map(_conc_task, tasks):
        k, n, m = res["task"]
        ctx.case(key=("c", k, n), nontrivial=True, n=m, sample={"clones": k, "points": n, "updates": m, "bad": res["nbad"]})
        ctx.count("c:clones=%d" % k, m)
        if res["nbad"]:
            seed, a, lp = res["bad"][0]
            ctx.fail(
                "C19:concentration.sample:%s:alpha-not-positive" % ("no-clusters" if k == 0 else "clusters>=1"),
                "concentration update on a tree with %d clones returned alpha = %r (log_p_one = %r) for %d of %d generators" % (k, a, lp, res["nbad"], m),
                {"part": "c", "clones": k, "points": n, "seed": seed, "alpha": a, "log_p_one": repr(lp), "call": "phyclone.run.update_concentration_value(setup_samplers(...).conc_sampler, tree, tree_dist) with rng = numpy.random.default_rng(seed)"},
            )


# ---------------------------------------------------------------- correspondence with the Coq model
def _reads_task(task):
    """Indices of constrained_path read by one real conditional-SMC sweep, by phase, and whether it raised."""
    proposal, op, N, thr, npts, seed = task
    import random
    from fractions import Fraction

    import numpy as np

    import phyclone.mcmc.particle_gibbs as pgmod
    from phyclone.run import setup_kernel, setup_samplers
    from phyclone.smc.samplers import ConditionalSMCSampler
    from phyclone.tree import FSCRPDistribution, TreeJointDistribution
    from phyclone.utils.dev import clear_proposal_dist_caches

    from pv.trees import build_tree, make_data, random_spec

    log = []

    class RecList(list):
        def __getitem__(self, i):
            log.append(("read", int(i)))
            return list.__getitem__(self, i)

    class Rec(ConditionalSMCSampler):
        def __init__(self, *a, **k):
            super().__init__(*a, **k)
            self.constrained_path = RecList(self.constrained_path)

        def _init_swarm(self):
            log.append(("phase", "init"))
            super()._init_swarm()

        def _resample_swarm(self):
            trig = bool(self.swarm.relative_ess <= self.resample_threshold)
            # which generation's retained particle heads the swarm that is being resampled (by identity)
            gen = [k for k, p in enumerate(list.__iter__(self.constrained_path)) if p is self.swarm.particles[0]]
            log.append(("phase", "resample", int(self.iteration), trig, gen[0] if gen else -1))
            super()._resample_swarm()

        def _update_swarm(self):
            log.append(("phase", "update", int(self.iteration)))
            super()._update_swarm()

    r = random.Random(seed)
    vals = [[[Fraction(r.randint(1, 16), 16) for _ in range(4)]] for _ in range(npts)]
    data = make_data(vals, outlier_prob=op)
    spec = random_spec(r, range(npts), outlier_frac=(0.3 if op > 0 else 0.0), max_block=2)
    rng = np.random.default_rng(seed)
    clear_proposal_dist_caches()
    tree_dist = TreeJointDistribution(FSCRPDistribution(1.0))
    kernel = setup_kernel(op, proposal, rng, tree_dist)
    s = setup_samplers(kernel, N, op, thr, rng, tree_dist)
    tree = build_tree(spec, data)
    old = pgmod.ConditionalSMCSampler
    pgmod.ConditionalSMCSampler = Rec
    crashed = None
    try:
        s.tree_sampler.sample_tree(tree)
    except IndexError as e:
        crashed = "IndexError"
    except Exception as e:
        crashed = type(e).__name__
    finally:
        pgmod.ConditionalSMCSampler = old
    # per phase: distinct consecutive indices read
    phases = []
    for ev in log:
        if ev[0] == "phase":
            phases.append([ev[1:], []])
        elif phases:
            if not phases[-1][1] or phases[-1][1][-1] != ev[1]:
                phases[-1][1].append(ev[1])
    return {"task": task, "phases": phases, "crashed": crashed}


def correspondence(ctx, pool, iters_seen, subtree_obs):
    tasks = []
    for proposal, op, N, thr, npts in itertools.product(["bootstrap", "semi-adapted", "fully-adapted"], (0.0, 0.4), (1, 2, 3), (0.0, 0.5, 1.0), (1, 2, 3, 4)):
        for k in range(1 if ctx.quick else 3):
            tasks.append((proposal, op, N, thr, npts, ctx.rng.randrange(10**6)))
    obs = list(pool.map(_reads_task, tasks, chunksize=8))
    resample_reads_path = any(ph[0][0] == "resample" and ph[1] for o in obs for ph in o["phases"])
    variant = "false" if resample_reads_path else "true"  # Coq flag `fixed`
    ctx.extra["corr_resample_variant"] = "pinned (reads constrained_path[iteration+1])" if resample_reads_path else "retained particle not read from the path"
    header = "\n".join([
        "From PV Require Import Model.RunDriver Model.CaseUtil.", "Open Scope nat_scope.",
        "Definition chk (fixed : bool) (T : nat) (init : bool) (trig : list bool) (obs : list nat) (crashed : bool) : bool :=",
        "  let l := sample_reads fixed T init (fun it => nth it trig false) in",
        "  Bool.eqb (reads_ok T l) (negb crashed) && (if crashed then true else lnat_eqb l obs).",
        "Definition chk_iters (n thin : nat) (stop : bool) (obs : list nat) : bool := lnat_eqb (trace_iters n thin (fun _ => stop)) obs.",
        "Definition chk_pick (fixed : bool) (labels : list (nat * option nat)) (obs : Q) : bool := qcclose (1#1000000000) (mass (subtree_pick fixed labels)) obs."])
    items, meta = [], []
    # the subtree pick: surviving probability mass of one subtree move vs the model's pick on the same labels
    from ..trees import spec_nodes

    pick_variant = "false" if any(crash for _, crash, _ in subtree_obs) else "true"
    ctx.extra["corr_subtree_pick_variant"] = "rng.choice on the non-outlier labels (raises on all-outlier trees)" if pick_variant == "false" else "all-outlier trees fall back to the whole-tree update"
    seen_specs = set()
    for spec, crash, m in subtree_obs:
        if (spec, crash) in seen_specs:
            continue
        seen_specs.add((spec, crash))
        labels = []
        for j, node in enumerate(spec_nodes(spec)):
            labels += [(i, "Some %d" % j) for i in node[0]]
        labels += [(i, "None") for i in spec[1]]
        fr = Fraction(m).limit_denominator(10**12)
        items.append("chk_pick %s [%s] (%d#%d)%%Q" % (pick_variant, "; ".join("(%d, %s)" % l for l in sorted(labels)), fr.numerator, fr.denominator))
        meta.append(("pick", spec, crash, m))
        ctx.case(key=("corr-pick", spec, crash), nontrivial=bool(spec[1]))
    for o in obs:
        proposal, op, N, thr, npts, seed = o["task"]
        init, trig, reads = False, [False] * (npts + 1), []
        first = True
        for (ph, idxs) in o["phases"]:
            if ph[0] == "resample":
                if first:
                    init, first = ph[2], False
                else:
                    trig[ph[1]] = ph[2]
                if resample_reads_path:
                    reads += idxs
                elif ph[2]:
                    reads.append(ph[3])  # no path read: the generation of the retained particle the resample carries over
            else:
                reads += idxs
        crashed = o["crashed"] is not None
        if o["crashed"] not in (None, "IndexError"):
            continue  # another crash: reported by the search parts
        items.append("chk %s %d %s [%s] [%s] %s" % (variant, npts, "true" if init else "false", "; ".join("true" if b else "false" for b in trig), "; ".join(str(i) for i in reads), "true" if crashed else "false"))
        meta.append(o["task"])
        ctx.case(key=("corr-reads", npts, init, tuple(trig), crashed), nontrivial=npts > 1, n=1)
    for n, thin, stop, iters in iters_seen:
        items.append("chk_iters %d %d %s [%s]" % (n, thin, "true" if stop else "false", "; ".join(str(i) for i in iters)))
        meta.append(("iters", n, thin, stop, iters))
        ctx.case(key=("corr-iters", n, thin, stop), nontrivial=True)
    ok, bad, detail = coq.coq_eval_bool_cases(ctx, "corr", header, items, shard=80)
    ctx.extra["coq_corr_cases"] = len(items)
    if not ok:
        ctx.broken_tie("C19 correspondence file did not evaluate", detail)
    else:
        ctx.obligation("corr_model_eq_impl_%d_cases" % len(items), not bad)
        if bad:
            ctx.broken[-1]["detail"] = {"failing_case_count": len(bad), "first": repr(meta[bad[0]]), "item": items[bad[0]][:400]}


def run(ctx):
    coq.check_property_file(ctx)
    ctx.rule = (
        "(a) every start tree over <= 2 data points (all outlier subsets when outliers are on; thorough adds all 3-point trees for the cheap moves and a seeded sample "
        "of 3-point two-particle updates) x proposal x outlier prob {0, 0.4} x particles {1, 2} x threshold {0, 0.5, 1}: every random outcome of one PG update, one subtree "
        "update, one data-point sweep, one prune-regraft move enumerated through the real setup_kernel/setup_samplers wiring; (b) run_phyclone_chain on inputs loaded by the real "
        "loader over the product of the boundary values of the click declarations of `phyclone run` (quick: seeded subset of 150 + named corners; thorough: the full product), "
        "2 seeds each; (c) run.update_concentration_value on trees with 0, 1, 3 clones under 4e3 (thorough 4e4) fresh generators each; non-trivial = more than one decision path (a) / every run (b); distinct = (move, options, start tree) or (options, input shape)"
    )
    ctx.exhaustive = False
    with ProcessPoolExecutor(max_workers=WORKERS) as pool:
        subtree_obs = part_a(ctx, pool)
        iters_seen = part_b(ctx, pool)
        part_c(ctx, pool)
        correspondence(ctx, pool, iters_seen, subtree_obs)
    ctx.assumptions += [
        "C19_driver_total is conditional on per-kernel totality hypotheses (to be discharged by C01/C04/C07/C08), validated here by exhaustive enumeration on <= 2-3 points and by driver runs",
        "enumerating generator visits every outcome numpy could produce (pv.enumrng)",
        "wall-clock limit exercised only at 0 and infinity",
    ]


def replay(ctx, doc):
    import json

    r = doc.get("replay", {})
    print(json.dumps({k: v for k, v in r.items() if k not in ("traceback", "input_rows")}, indent=1))
    if r.get("part") == "a":
        t = (r["move"], r["proposal"], r["outlier_prob"], r["num_particles"], r["resample_threshold"], _tup(r["start_tree"]), len(r["values_over_16"]))
        res = _enum_task(t)
        for c in res.get("crashes", []):
            print(c["tb"])
            ctx.fail(crash_key(c["site"], c["type"], c["msg"], t[6], t[4], all_outliers=not t[5][0]), c["msg"], r)
    elif r.get("part") == "b":
        d = runs.tmpdir("C19_replay")
        p = os.path.join(d, "in.tsv")
        open(p, "w").write(r["input_rows"])
        t = dict(r)
        t["file"] = p
        t["max_time"] = float(t["max_time"]) if not isinstance(t["max_time"], str) else float(t["max_time"].replace("'", ""))
        res = _chain_task(t)
        if "crash" in res:
            print(res["crash"]["tb"])
            ctx.fail(crash_key(res["crash"]["site"], res["crash"]["type"], res["crash"]["msg"], t["n_points"], t["resample_threshold"]), res["crash"]["msg"], r)
        else:
            print("no crash; problems:", res["problems"])


def _tup(x):
    return tuple(_tup(y) for y in x) if isinstance(x, (list, tuple)) else x
