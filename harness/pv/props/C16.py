"""C16 - the consensus tree contains exactly the clades with majority support.

Function level: get_consensus_tree + get_tree_from_consensus_graph on multisets of real trees (exhaustive for small
sizes, seeded samples beyond), thresholds {0.5, 0.6, 0.75, 1}, unweighted and weighted (dyadic weights).
Command level: the real write_consensus_results on trace files (both weight types; scores log k so that the
normalised weights are k/sum).  Oracle: clades of the output tree == {clade : support > threshold}, uncovered points
are outliers / clone id -1, no exception, the tree's redundant views agree.  Model: coq/Model/Consensus.v."""
import itertools
import math
from fractions import Fraction

from .. import coq
from .. import tracefiles as tf
from ..trees import all_specs, canon, clades, spec_points

THRESHOLDS = [0.5, 0.6, 0.75, 1.0]
DYADIC_THR = (0.5, 0.75, 1.0)
WEIGHTS = {1: [[1.0]], 2: [[0.625, 0.375]], 3: [[0.5, 0.25, 0.25], [0.375, 0.375, 0.25]], 4: [[0.375, 0.25, 0.25, 0.125]]}
# design-time witness (DESIGN.md section 8 #9): {0,1} and {2,3} are both fully covered by retained sub-clades


def N(own, *kids):
    return (tuple(own), tuple(kids))


WITNESS = [
    canon(((N([1], N([0])), N([3], N([2]))), ())),
    canon(((N([0], N([1])), N([2], N([3]))), ())),
    canon(((N([0]), N([1]), N([2]), N([3])), ())),
]
# found by this check: a fully covered clade above another one -> the merged node is its own descendant (cycle)
WITNESS_CYCLE = [
    canon(((N([0]), N([3], N([2], N([1])))), ())),
    canon(((N([0], N([3], N([1], N([2])))),), ())),
    canon(((N([3], N([0]), N([1]), N([2])),), ())),
]
# six points: the merged empty node gets two parents (a DAG); the table then reports a negative prevalence
WITNESS_DAG = [
    canon(((N([4], N([1], N([0]))), N([5], N([3], N([2])))), ())),
    canon(((N([4], N([0], N([1]))), N([5], N([2], N([3])))), ())),
    canon(((N([4], N([0]), N([1])), N([5], N([2]), N([3]))), ())),
]


def own_sets(family):
    fam = list(family)
    out = {}
    for c in fam:
        rest = set(c)
        for d in fam:
            if d < c:
                rest -= d
        out[c] = frozenset(rest)
    return out


def shape_of(retained):
    own = own_sets(retained)
    empties = sum(1 for v in own.values() if not v)
    return "two-empty-own-sets" if empties >= 2 else ("one-empty-own-set" if empties == 1 else "distinct-own-sets")


def expected(specs, weights, thr):
    """(retained clades, near-threshold flag) from first principles."""
    sup = {}
    n = len(specs)
    for i, sp in enumerate(specs):
        for c in clades(sp):
            sup[c] = sup.get(c, 0) + (Fraction(1, n) if weights is None else Fraction(weights[i]))
    t = Fraction(thr)
    # all weights are dyadic, so float sums / quotients are exact whenever the threshold is dyadic too; only the
    # non-representable threshold 0.6 can be "within rounding" of a support value
    near = thr not in DYADIC_THR and any(abs(float(v) - thr) < 1e-9 for v in sup.values())
    return frozenset(c for c, v in sup.items() if v > t), near


_STATE = {}


def _setup(n_points):
    if _STATE.get("n") == n_points:
        return
    import warnings

    warnings.simplefilter("ignore")
    _STATE.clear()
    _STATE["n"] = n_points
    _STATE["data"] = tf.make_points(n_points, 1)
    _STATE["trees"] = {}


def _tree(spec):
    from ..trees import build_tree

    t = _STATE["trees"].get(spec)
    if t is None:
        t = _STATE["trees"][spec] = build_tree(spec, _STATE["data"])
    return t


def eval_case(n_points, specs, weights, thr, detail=False):
    """One function-level evaluation on the real code.  Returns (problem or None, observation dict or None)."""
    from phyclone.process_trace.consensus import clade_probabilities, consensus, get_consensus_tree, key_above_threshold
    from phyclone.process_trace.process_trace import get_tree_from_consensus_graph
    from ..trees import AbsError, abs_spec

    _setup(n_points)
    data = _STATE["data"]
    trees = [_tree(s) for s in specs]
    want, near = expected(specs, weights, thr)
    if near:
        return ("near", None, None)
    shape = shape_of(want)
    pts = set(range(n_points))
    try:
        graph = get_consensus_tree(trees, data=data, threshold=thr, weighted=weights is not None, log_p_list=weights)
        tree = get_tree_from_consensus_graph(data, graph)
    except Exception as e:  # noqa: BLE001
        err = tf._err(e)
        return (("C16:%s:%s:%s" % (err["where"].split(":")[-1], err["error"], shape), "consensus raised %s(%s) at %s" % (err["error"], err["message"], err["where"])), None, shape)
    prob = None
    try:
        out = abs_spec(tree)
        got = clades(out)
        if got != want:
            site = "relabel" if shape == "two-empty-own-sets" else "consensus"
            prob = ("C16:%s:%s" % (site, shape), "output clades %s, clades with support > %s are %s" % (sorted(map(sorted, got)), thr, sorted(map(sorted, want))))
        else:
            cov = set().union(*want) if want else set()
            if set(out[1]) != pts - cov:
                prob = ("C16:get_tree_from_consensus_graph:outliers:%s" % shape, "outliers %r, uncovered points %r" % (out[1], sorted(pts - cov)))
    except (AbsError, ValueError) as e:  # ValueError: a clone without any data point below it
        out = None
        key = "C16:relabel:two-empty-own-sets:not-a-forest" if shape == "two-empty-own-sets" else "C16:from_dict_nx:invalid-tree:%s" % shape
        prob = (key, "the consensus tree is not a valid tree: %s" % e)
    obs = None
    if detail:
        cp = clade_probabilities(trees, weighted=weights is not None, log_p_list=weights)
        kept = key_above_threshold(cp, thr)
        obs = {
            "retained": sorted(sorted(c) for c in kept),
            "nodes": sorted(sorted(graph.nodes[v]["idxs"]) for v in graph.nodes),
            "n_nodes": graph.number_of_nodes(),
            "edges": sorted((sorted(graph.nodes[a]["idxs"]), sorted(graph.nodes[b]["idxs"])) for a, b in graph.edges),
            "clades": sorted(sorted(c) for c in clades(out)) if out is not None else None,
            "outliers": sorted(out[1]) if out is not None else None,
        }
        try:
            ce = consensus(set(kept))
            obs["cedges"] = sorted((sorted(a), sorted(b)) for a, b in ce.edges)
        except Exception:  # noqa: BLE001
            obs["cedges"] = None
    return (prob, obs, shape)


_POOLS = {}


def pool(name):
    """Tree pools by name, rebuilt (deterministically) inside each worker."""
    if name not in _POOLS:
        n, outl = {"s3o": (3, True), "s4": (4, False), "s4o": (4, True)}[name]
        _POOLS[name] = all_specs(range(n), outliers=outl)
    return _POOLS[name]


def expand(desc):
    """Work descriptor -> list of (specs, weights, thr)."""
    import random

    kind, n_points, src, thrs, wmodes, seed = desc[:6]
    rng = random.Random(seed)
    if kind == "explicit":
        multisets = [tuple(ms) for ms in src]
    elif kind == "comb":
        name, k, start, stop = src
        P = pool(name)
        multisets = [tuple(P[i] for i in idx) for idx in itertools.islice(itertools.combinations_with_replacement(range(len(P)), k), start, stop)]
    else:  # "rand"
        name, kmin, kmax, count = src
        P = pool(name)
        multisets = [tuple(sorted(rng.choice(P) for _ in range(rng.randint(kmin, kmax)))) for _ in range(count)]
    cases = []
    for ms in multisets:
        for thr in thrs:
            for wm in wmodes:
                if wm is None:
                    cases.append((ms, None, thr))
                else:
                    for wv in WEIGHTS[len(ms)][:wm]:
                        w = list(wv)
                        rng.shuffle(w)
                        cases.append((ms, w, thr))
    return n_points, cases


def n_cases(desc):
    kind, _, src, thrs, wmodes, _ = desc[:6]
    if kind == "explicit":
        sizes = [len(ms) for ms in src]
    elif kind == "comb":
        sizes = [src[1]] * (src[3] - src[2])
    else:
        sizes = [src[2]] * src[3]  # upper bound on the weight-vector count when kmin < kmax
    per = lambda k: sum(1 if wm is None else len(WEIGHTS[k][:wm]) for wm in wmodes)  # noqa: E731
    return sum(per(k) for k in sizes) * len(thrs)


def run_chunk(args):
    """Evaluate one work descriptor; returns compact results."""
    desc, detail_every = args
    n_points, cases = expand(desc)
    fails, obs, hist = [], [], {}
    for k, (specs, weights, thr) in enumerate(cases):
        want_detail = detail_every and (k % detail_every == 0)
        prob, ob, shape = eval_case(n_points, specs, weights, thr, detail=want_detail)
        if prob == "near":
            hist["near-threshold-skipped"] = hist.get("near-threshold-skipped", 0) + 1
            continue
        hist[shape] = hist.get(shape, 0) + 1
        if prob is not None:
            hist["FAIL " + prob[0]] = hist.get("FAIL " + prob[0], 0) + 1
            fails.append((prob, specs, weights, thr))
            if ob is None and len(obs) < 300:
                _, ob, _ = eval_case(n_points, specs, weights, thr, detail=True)
        if ob is not None:
            obs.append((specs, weights, thr, ob))
    # keep the 5 smallest failing inputs per key
    by = {}
    for f in fails:
        by.setdefault(f[0][0], []).append(f)
    fails = []
    for k, fs in by.items():
        fs.sort(key=lambda f: (len(f[1]), sum(len(clades(s)) for s in f[1])))
        fails += fs[:5]
    return fails, obs, hist, len(cases)


# ---------------------------------------------------------------- Coq printing
def cl(c):
    return "[" + "; ".join("%d" % x for x in sorted(c)) + "]"


def cls(lst):
    return "[" + "; ".join(cl(c) for c in lst) + "]"


def qc(x):
    fr = Fraction(x)
    return "(Q2Qc (%d # %d))" % (fr.numerator, fr.denominator)


def coq_item(specs, weights, thr, ob):
    trees = "[" + "; ".join(cls(sorted(map(sorted, clades(s)))) for s in specs) + "]"
    if weights is None:
        ret = "(retained_counts %s %s)" % (qc(thr), trees)
    else:
        wt = "[" + "; ".join("(%s, %s)" % (cls(sorted(map(sorted, clades(s)))), qc(w)) for s, w in zip(specs, weights)) + "]"
        ret = "(retained_weighted %s %s)" % (qc(thr), wt)
    edges = "[" + "; ".join("(%s, %s)" % (cl(a), cl(b)) for a, b in ob["edges"]) + "]"
    cedges = "[" + "; ".join("(%s, %s)" % (cl(a), cl(b)) for a, b in (ob["cedges"] or [])) + "]"
    final = cls(ob["clades"]) if ob["clades"] is not None else "[]"
    return "chk PINNED %s %s %s %s %d %s %s %s" % (ret, cls(ob["retained"]), cedges, cls(ob["nodes"]), ob["n_nodes"], edges, "true" if ob["clades"] is not None else "false", final)


HEADER = "\n".join([
    "From PV Require Import Model.Consensus Model.CaseUtil.",
    "Open Scope nat_scope.",
    "Definition chk (pinned : bool) (F : list clade) (kept : list clade) (cedges : list (clade * clade)) (nodes : list clade) (nn : nat)",
    "               (edges : list (clade * clade)) (have_final : bool) (final : list clade) : bool :=",
    "  set_eqb clade_eqb F kept && Nat.eqb (length F) (length kept) &&",
    "  match consensus F with",
    "  | None => false",
    "  | Some E => set_eqb pair_eqb (fedges E) cedges && Nat.eqb (length (fedges E)) (length cedges)",
    "      && (if pinned",
    "          then set_eqb clade_eqb (rnodes E) nodes && Nat.eqb (length (rnodes E)) nn",
    "               && set_eqb pair_eqb (redges E) edges && Nat.eqb (length (redges E)) (length edges)",
    "               && (negb have_final || set_eqb clade_eqb (map norm (out_clades F E)) final)",
    "          else set_eqb clade_eqb (map snd (fnodes E)) nodes && Nat.eqb (length (fnodes E)) nn",
    "               && Nat.eqb (length (fedges E)) (length edges)",
    "               && (negb have_final || set_eqb clade_eqb (map norm (map (out_clade_fixed (fuel_of F) E) F)) final))",
    "  end.",
])


def relabel_is_pinned():
    """Does relabel still key nodes by their own-mutation set (the witness's six clades give five nodes)?"""
    prob, ob, _ = eval_case(4, tuple(WITNESS), None, 0.5, detail=True)
    return ob is None or ob["n_nodes"] != 6


def run(ctx):
    from concurrent.futures import ProcessPoolExecutor

    coq.check_property_file(ctx)
    ctx.rule = (
        "function level (get_consensus_tree + get_tree_from_consensus_graph on real trees): every multiset of 1-3 trees over 3 data "
        "points with every outlier subset (42 trees) and every multiset of 1-2 trees over 4 points (243 trees), thresholds "
        "{0.5,0.6,0.75,1}, unweighted and weighted with dyadic weight vectors; seeded samples of 3-multisets (quick) / all 3-multisets at "
        "threshold 0.5 and sampled 4-multisets (thorough) over 4 points; the design-time witness first; command level: the real "
        "write_consensus_results on seeded trace files (1-3 chains, 2-5 entries, scores log k), both weight types, all four thresholds; "
        "non-trivial = >= 2 trees; distinct = (multiset, weights, threshold)"
    )
    ctx.exhaustive = False
    rng = ctx.rng
    work = []  # descriptors, expanded inside the workers

    def seed():
        return rng.randrange(2**31)

    def comb(n_points, name, size, k, thrs, wmodes, step=3000):
        total = math.comb(size + k - 1, k)
        for st in range(0, total, step):
            work.append(("comb", n_points, (name, k, st, min(total, st + step)), thrs, wmodes, seed()))

    def rand(n_points, name, kmin, kmax, count, thrs, wmodes, step=3000):
        for st in range(0, count, step):
            work.append(("rand", n_points, (name, kmin, kmax, min(step, count - st)), thrs, wmodes, seed()))

    work.append(("explicit", 4, [tuple(WITNESS), tuple(WITNESS_CYCLE)], THRESHOLDS, [None, 2], seed()))
    work.append(("explicit", 6, [tuple(WITNESS_DAG)], [0.5], [None], seed()))
    s3 = all_specs(range(3), outliers=True)
    s4 = all_specs(range(4), outliers=False)
    for k in (1, 2, 3):
        comb(3, "s3o", len(s3), k, THRESHOLDS, [None, 1] if ctx.quick else [None, 2])
    for k in (1, 2):
        comb(4, "s4", len(s4), k, THRESHOLDS if not ctx.quick else [0.5, 0.75], [None, 1])
    if ctx.quick:
        rand(4, "s4", 3, 3, 40000, [0.5], [None, 1])
        rand(4, "s4", 4, 4, 10000, [0.5, 0.75], [None])
    else:
        comb(4, "s4", len(s4), 3, [0.5], [None], step=20000)
        rand(4, "s4", 3, 3, 200000, [0.5, 0.75], [2], step=10000)
        rand(4, "s4", 4, 4, 150000, [0.5, 0.6, 0.75], [None, 1], step=10000)
        rand(4, "s4o", 2, 4, 100000, THRESHOLDS, [None, 1], step=10000)
    total = sum(n_cases(d) for d in work)
    ctx.log("function level: about %d evaluations in %d chunks" % (total, len(work)))
    detail_every = max(1, total // 1500)
    all_fails, all_obs = [], []
    with ProcessPoolExecutor(max_workers=4) as ex:
        for fails, obs, hist, n in ex.map(run_chunk, [(d, detail_every) for d in work]):
            all_fails += fails
            all_obs += obs
            for k, v in hist.items():
                ctx.count("fn/" + k, v)
            ctx.evaluations += n
    ctx.log("function level done: %d failing evaluations kept, %d observations" % (len(all_fails), len(all_obs)))
    # smallest failing input per key
    best = {}
    for prob, specs, weights, thr in all_fails:
        size = (len(specs), sum(len(clades(s)) for s in specs), len(spec_points(specs[0])))
        if prob[0] not in best or size < best[prob[0]][0]:
            best[prob[0]] = (size, prob, specs, weights, thr)
    for key, (size, prob, specs, weights, thr) in sorted(best.items()):
        n_fail = ctx.hist.get("fn/FAIL " + key, 0)
        ctx.fail(key, "%s [trees %r, threshold %s, %s]" % (prob[1], list(specs), thr, "weights %r" % (weights,) if weights else "unweighted"), {"level": "function", "trees": list(specs), "weights": weights, "threshold": thr, "n_points": size[2], "failing_evaluations_with_this_key": n_fail})
    for specs, weights, thr, ob in all_obs[:6]:
        ctx.case(key=None, nontrivial=False, n=0, sample={"trees": specs, "weights": weights, "threshold": thr, "observed": ob})
    for specs, weights, thr, ob in all_obs:
        ctx.distinct.add(repr((specs, weights, thr)))

    # ---- command level
    jobs, meta = [], []
    n_files = 60 if ctx.quick else 600
    for fi in range(n_files):
        n = rng.choice([3, 4])
        pool_all = s3 if n == 3 else s4
        if fi < 3:
            n, pool = [(4, WITNESS), (4, WITNESS_CYCLE), (6, WITNESS_DAG)][fi]
            chains = {0: [(0.0, pool[0], ("plain", 0)), (0.0, pool[1], ("plain", 0)), (0.0, pool[2], ("plain", 0))]}
        else:
            pool = [rng.choice(pool_all) for _ in range(rng.randint(1, 3))]
            chains = {}
            for c in range(rng.randint(1, 3)):
                chains[c] = [(math.log(rng.choice([1, 2, 3, 4])), rng.choice(pool), (rng.choice(["plain", "perm", "relabel"]), rng.randrange(10**6))) for _ in range(rng.randint(1, 3))]
        cmds = [("cons", thr, wt) for thr in THRESHOLDS for wt in ("counts", "joint-likelihood")]
        jobs.append({"n_points": n, "n_samples": 1, "chains": chains, "order": sorted(chains, reverse=bool(fi % 2)) if 0 in chains else None, "cmds": cmds})
        meta.append((n, chains))
    outs = tf.run_jobs(jobs, workers=4)
    ctx.log("command level done (%d files x 8 commands)" % len(jobs))
    for (n, chains), job, out in zip(meta, jobs, outs):
        order = job["order"] or sorted(chains)
        entries = [(s, sp) for c in order for s, sp, _ in chains[c]]
        point_of = {"m%d" % i: i for i in range(n)}
        for key, o in out.items():
            _, thr, wt = key.split("/")
            thr = float(thr)
            ws = tf.consensus_weights(entries, wt)
            sup = tf.clade_support(ws)
            if any(abs(v - thr) < 1e-9 for v in sup.values()) and not (wt == "counts" and thr in DYADIC_THR):
                ctx.count("cmd/near-threshold-skipped")
                continue
            if wt == "counts":
                cnt = {}
                for _, sp in entries:
                    for c in clades(sp):
                        cnt[c] = cnt.get(c, 0) + 1
                want = frozenset(c for c, k in cnt.items() if Fraction(k, len(entries)) > Fraction(thr))
            else:
                want = frozenset(c for c, v in sup.items() if v > thr)
            shape = shape_of(want)
            ctx.case(key=("cmd", tuple(entries), key), nontrivial=len(entries) >= 2)
            ctx.count("cmd/" + shape)
            replay = {"level": "command", "n_points": n, "chains": chains, "order": order, "command": key}
            if "error" in o:
                fn = o["where"].split(":")[-1]
                if fn == "convert_rustworkx_to_networkx" and not want:
                    ctx.count("cmd/no-clade-retained:KeyError-root(C12 finding)")
                    continue
                if shape == "two-empty-own-sets":
                    ctx.fail("C16:relabel:two-empty-own-sets:not-a-forest", "write_consensus_results raised %s(%s) at %s: the relabelled consensus graph is not a forest" % (o["error"], o["message"], o["where"]), dict(replay, error=o))
                    continue
                ctx.fail("C16:%s:%s:%s" % (fn, o["error"], shape), "write_consensus_results raised %s(%s) at %s" % (o["error"], o["message"], o["where"]), dict(replay, error=o))
                continue
            try:
                sp = tf.spec_from_outputs(o["table"], tf.parse_newick(o["newick_text"]), point_of)
            except (ValueError, tf.NewickError) as e:
                ctx.fail("C16:write_consensus_results:inconsistent-output:%s" % shape, str(e), dict(replay, table=o["table"], newick=o["newick_text"]))
                continue
            got = clades(sp)
            cov = set().union(*want) if want else set()
            if got != want:
                site = "relabel" if shape == "two-empty-own-sets" else "consensus"
                ctx.fail("C16:%s:%s" % (site, shape), "consensus command: output clades %s, clades with support > %s are %s" % (sorted(map(sorted, got)), thr, sorted(map(sorted, want))), dict(replay, newick=o["newick_text"]))
            elif set(sp[1]) != set(range(n)) - cov:
                ctx.fail("C16:get_tree_from_consensus_graph:outliers:%s" % shape, "clone id -1 for %r, uncovered points are %r" % (sp[1], sorted(set(range(n)) - cov)), dict(replay, table=o["table"]))

    # ---- model comparison
    pinned = relabel_is_pinned()
    ctx.extra["relabel_variant"] = "pinned (nodes keyed by own-mutation set)" if pinned else "fixed (nodes keyed by clade)"
    items = [coq_item(*x).replace("chk PINNED", "chk true" if pinned else "chk false") for x in all_obs]
    ok, badi, detail = coq.coq_eval_bool_cases(ctx, "corr", HEADER, items, shard=150, workers=4)
    ctx.extra["coq_corr_cases"] = len(items)
    if not ok:
        ctx.broken_tie("C16 correspondence file did not evaluate", detail)
    else:
        ctx.obligation("corr_model_eq_impl_%d_cases" % len(items), not badi)
        if badi:
            ctx.broken[-1]["detail"] = {"failing_case_count": len(badi), "item": items[badi[0]][:900], "case": repr(all_obs[badi[0]])[:900]}
    ctx.assumptions += [
        "input trees are given to the model as their clade lists (Tree/get_clades output); weights are exact dyadic rationals; float threshold passed as its exact rational value",
        "weighted cases whose support lies within 1e-9 of the threshold are skipped, as the property allows; unweighted ties (k/n equal to the threshold) are kept: the float quotient is then exact",
        "Python set iteration order is modelled by list order; the comparison is on sets (nodes, edges, clades)",
        "the model's relabelled graph is compared with the real networkx graph (idxs of nodes, edges); the final clades are compared when the real tree's redundant views agree",
    ]


def replay(ctx, doc):
    """Re-run exactly the recorded case on the real code."""
    r = doc["replay"]
    if r.get("level") == "function":
        specs = tuple(tf.tuplify(t) for t in r["trees"])
        prob, ob, shape = eval_case(r["n_points"], specs, r["weights"], r["threshold"], detail=True)
        ctx.case(key=repr(specs), sample={"observed": ob})
        print("replay (function level): trees=%r weights=%r threshold=%r -> %r" % (specs, r["weights"], r["threshold"], prob))
        if prob not in (None, "near"):
            ctx.fail(prob[0], prob[1], r)
    else:
        chains = {int(c): [(s, tf.tuplify(sp), tf.tuplify(v)) for s, sp, v in ch] for c, ch in r["chains"].items()}
        _, thr, wt = r["command"].split("/")
        job = {"n_points": r["n_points"], "n_samples": 1, "chains": chains, "order": r.get("order"), "cmds": [("cons", float(thr), wt)]}
        out = tf.run_job(job)
        print("replay (command level):", out)
        o = out[r["command"]]
        entries = [(s, sp) for c in (r.get("order") or sorted(chains)) for s, sp, _ in chains[c]]
        sup = tf.clade_support(tf.consensus_weights(entries, wt))
        want = frozenset(c for c, v in sup.items() if v > float(thr) + 1e-9)
        ctx.case(key=r["command"])
        if "error" in o:
            ctx.fail(doc["key"], "still raises %s at %s" % (o["error"], o["where"]), r)
        else:
            sp = tf.spec_from_outputs(o["table"], tf.parse_newick(o["newick_text"]), {"m%d" % i: i for i in range(r["n_points"])})
            if clades(sp) != want:
                ctx.fail(doc["key"], "output clades %s, expected %s" % (sorted(map(sorted, clades(sp))), sorted(map(sorted, want))), r)
