"""C06 - incrementally maintained likelihoods equal a from-scratch rebuild."""
from concurrent.futures import ProcessPoolExecutor

from .. import coq, edits

HEADER = "From PV Require Import Model.LTreeConv.\nOpen Scope nat_scope.\n"
WORKERS = 4


def plan(ctx):
    """(seed, n_points, max length, want_coq) per history"""
    jobs = []
    if ctx.quick:
        n_hist, n_coq = 240, 32
        for k in range(n_hist):
            coqk = k < n_coq
            jobs.append((ctx.rng.randrange(10**9), ctx.rng.randint(5, 8), 12 if coqk else ctx.rng.choice([20, 40, 40]), coqk))
    else:
        n_hist, n_coq = 1000, 120
        for k in range(n_hist):
            coqk = k < n_coq
            length = 14 if coqk else ctx.rng.choice([40, 40, 80, 150, 300])
            jobs.append((ctx.rng.randrange(10**9), ctx.rng.randint(5, 10), length, coqk))
    # large-magnitude stream: every data point's log grid shifted by a big constant, so |log_r| reaches thousands (as with
    # thousands of mutations) while each vector keeps a narrow range; compared with the rebuild only
    for k in range(24 if ctx.quick else 120):
        jobs.append((ctx.rng.randrange(10**9), ctx.rng.randint(6, 9), ctx.rng.choice([20, 40]), False, -float(ctx.rng.choice([800, 1500, 2500]))))
    return jobs


def run_histories(ctx, jobs):
    with ProcessPoolExecutor(max_workers=WORKERS) as ex:
        return list(ex.map(edits.history_job, jobs, chunksize=2))


def report_history_failures(ctx, results, prop):
    """ctx.fail for failures of `prop` (C06 or C07) found by the per-edit oracles."""
    for r in results:
        f = r["failure"]
        if not f:
            continue
        kind, step, what = f
        hist = r.get("hist") or []
        op = hist[step][0] if 0 <= step < len(hist) else "?"
        replay = {"kind": "history", "seed": r["seed"], "n_points": r["n_points"], "start_spec": r["spec"], "history": hist, "failing_step": step, "offset": r.get("offset", 0.0),
                  "values": r.get("vals"), "how": "pv.edits.make_case(seed, n_points, length) regenerates the data; pv.edits.replay(spec, history, data)"}
        if kind == "EXC":
            ctx.fail("%s:%s:exception" % (prop, op), "an edit of the sampler grammar raised: %s" % what.splitlines()[0], replay)
        elif kind == prop:
            shape = what.split(" of ")[0].split(":")[0].split(" differs")[0].split(" %")[0][:40].strip().replace(" ", "_")
            ctx.fail("%s:%s:%s" % (prop, op, shape), what, replay)
        elif prop == "C06" and kind == "C07":
            ctx.fail("C06:%s:tree-not-well-formed" % op, what, replay)


def coq_correspondence(ctx, results, name="corr"):
    items = [r["coq"] for r in results if r.get("coq")]
    if not items:
        return
    # one shard per history (each has its own data definitions)
    from concurrent.futures import ThreadPoolExecutor

    def one(k):
        defs, item = items[k]
        return coq.coq_eval_bool_cases(ctx, "%s%03d" % (name, k), HEADER + defs, [item], shard=1, workers=1)

    bad, broken = [], []
    with ThreadPoolExecutor(max_workers=WORKERS) as ex:
        for k, (ok, b, detail) in enumerate(ex.map(one, range(len(items)))):
            if not ok:
                broken.append((k, detail[-600:]))
            elif b:
                bad.append(k)
    # canary: the comparison must be able to fail (a perturbed cached vector of the start tree is rejected)
    import re

    canary_ok = False
    for defs, item in items:
        m = re.search(r"chk_tree t0 \(mkObs \[\(\d+, (?:None|\(Some \d+\)), \[[\d; ]*\], \[\((\d+) # (\d+)\)%Q", item)
        if not m:
            continue  # start tree without clones
        pert = item[: m.start(1)] + str(int(m.group(1)) * 3 + 1) + item[m.end(1):]
        ok, b, _ = coq.coq_eval_bool_cases(ctx, name + "_canary", HEADER + defs, [pert], shard=1, workers=1)
        canary_ok = ok and b == [0]
        break
    ctx.extra["coq_corr_histories"] = len(items)
    ctx.obligation("corr_canary_perturbed_observation_rejected", canary_ok)
    if broken:
        ctx.broken_tie("%s correspondence file did not evaluate" % ctx.pid, broken[:2])
    else:
        ctx.obligation("corr_model_eq_impl_%d_histories" % len(items), not bad)
        if bad:
            ctx.broken[-1]["detail"] = {"failing_histories": bad[:5], "item": items[bad[0]][1][:600]}


def large_clone_scenario(ctx):
    """Clones of hundreds of data points (blocked / vectorised bulk additions show only beyond their block size): the clone is
    built in one call, grown one point at a time, restored from the dictionary form, copied, and moved as a subtree; its cached
    log_p must be log_prior + the plain sum of its points' grids (numpy, no phyclone code) and all builds must agree on every
    cached vector and both densities."""
    import numpy as np
    from phyclone.data.base import DataPoint
    from phyclone.tree import Tree

    from ..kernels import make_tree_dist

    rng = np.random.default_rng(ctx.rng.randrange(10**9))
    G = (2, 5)
    for size in ((255, 257, 300) if ctx.quick else (100, 255, 256, 257, 300, 511, 513, 700)):
        pts = [DataPoint(i, np.log(rng.integers(8, 17, size=G) / 16.0)) for i in range(size + 3)]
        big, small = pts[:size], pts[size:]

        def one_call():
            t = Tree(G)
            c = t.create_root_node(children=[], data=small[:1])
            t.create_root_node(children=[c], data=list(big))
            t.create_root_node(children=[], data=small[1:])
            return t

        def grown():
            t = Tree(G)
            c = t.create_root_node(children=[], data=small[:1])
            n = t.create_root_node(children=[c], data=big[:1])
            for d in big[1:]:
                t.add_data_point_to_node(d, n)
            t.create_root_node(children=[], data=small[1:2])
            t.add_data_point_to_node(small[2], t.labels[small[1].idx])
            return t

        a = one_call()
        builds = {"one call": a, "grown point by point": grown(), "from_dict(to_dict())": Tree.from_dict(a.to_dict()), "copy": a.copy()}
        moved = a.copy()
        n_big = moved.labels[big[0].idx]
        sub = moved.get_subtree(n_big)
        moved.remove_subtree(sub)
        moved.add_subtree(sub, parent=None)
        builds["pruned and regrafted"] = moved
        want_log_p = -np.log(G[1]) + np.sum([d.value for d in big], axis=0)
        td = make_tree_dist(1.0)
        ref = None
        for name, t in builds.items():
            node = t.labels[big[0].idx]
            got = np.array(t._graph[t._node_indices[node]].log_p, dtype=float)
            ctx.case(key=("large-clone", size, name), nontrivial=True)
            ctx.count("large_clone_builds")
            if got.shape != want_log_p.shape or not np.allclose(got, want_log_p, rtol=1e-10, atol=1e-8):
                ctx.fail("C06:large-clone:log_p", "the cached log_p of a clone holding %d data points (%s) differs from log_prior + the sum of its points' grids by %.3g" % (size, name, float(np.max(np.abs(got - want_log_p))) if got.shape == want_log_p.shape else float("nan")), {"clone_size": size, "build": name})
            obs = (np.array(t.data_log_likelihood, dtype=float), float(td.log_p(t)), float(td.log_p_one(t)))
            if ref is None:
                ref = (name, obs)
            elif not (np.allclose(obs[0], ref[1][0], rtol=1e-10, atol=1e-7) and abs(obs[1] - ref[1][1]) < 1e-6 and abs(obs[2] - ref[1][2]) < 1e-6):
                ctx.fail("C06:large-clone:builds-disagree", "a tree with a clone of %d data points reports different likelihoods / densities when %s than when built in %s" % (size, name, ref[0]), {"clone_size": size, "builds": [ref[0], name], "log_p": [ref[1][1], obs[1]]})


def run(ctx):
    coq.check_property_file(ctx)
    ctx.rule = (
        "seeded random edit histories in the grammar the samplers compose (NewClone, NewCloneAdd, AddPoint, MovePoint, PruneRegraft, "
        "SubtreeResample, Relabel, Copy, ToFromDict(direct|pickle|gzip), Update), generated against the real Tree from a random start tree over "
        "5-10 data points with 1-2 samples and grid 4, values k/16; after EVERY edit: four-view agreement (abs_impl), data conservation, every clone's "
        "log_p/log_r, the root vector and both joint densities against a freshly built tree of the same shape (tolerance 1e-8 x history length), and "
        "originals untouched after copy-then-edit; a subset is replayed in the Coq model (Model/LTree.v with the concrete recursion of LTreeConv.v) and "
        "compared per step as rationals; every tree returned by the real samplers (wired as phyclone.run, all three kernels, outliers on/off) is compared "
        "with its rebuild too; non-trivial = history with >= 3 distinct operation kinds; distinct = (seed) history"
    )
    ctx.exhaustive = False
    jobs = plan(ctx)
    results = run_histories(ctx, jobs)
    n_edits = 0
    for r in results:
        n_edits += r["length"]
        ctx.case(key=r["seed"], nontrivial=len(r["ops"]) >= 3, sample={"seed": r["seed"], "start": r["spec"], "length": r["length"], "ops": r["ops"], "final": r["final"]}, n=r["length"])
        for op, c in r["ops"].items():
            ctx.count("op=" + op, c)
        ctx.count("len<=%d" % (20 if r["length"] <= 20 else 40 if r["length"] <= 40 else 100 if r["length"] <= 100 else 300))
        ctx.count("samples=%d" % r["ns"])
    ctx.extra["edits_checked"] = n_edits
    ctx.log("histories %d, edits %d" % (len(results), n_edits))
    report_history_failures(ctx, results, "C06")
    # trees returned by the real samplers (the real composition of edits, including the particles' dictionary form)
    from . import C07

    sres = C07.run_samplers(ctx, C07.sampler_plan(ctx, 18 if ctx.quick else 180, 5 if ctx.quick else 10))
    C07.report_sampler_results(ctx, sres, "C06")
    ctx.extra["sampler_calls_checked"] = sum(sum(r["calls"].values()) for r in sres)
    ctx.log("sampler runs %d, trees checked %d" % (len(sres), ctx.extra["sampler_calls_checked"]))
    large_clone_scenario(ctx)
    coq_correspondence(ctx, results)
    ctx.assumptions += [
        "the recursion S (compute_log_S) is abstract in the theorems; the executable correspondence instantiates it with an exact truncated convolution + running sum",
        "float rounding, the 1e-100 floor and the FFT path (grid >= 1000) are outside the model; data values are kept in [1/16, 1]",
        "the Tree's four redundant views are abstracted by pv.trees.abs_impl (checked after every edit), not modelled index by index",
        "the SMC result grafted by the subtree move is an arbitrary cache_ok tree in the theorem; in the tie it is a freshly built random tree over the extracted data",
    ]


def _tuplify(x):
    return tuple(_tuplify(y) for y in x) if isinstance(x, list) else x


def replay_doc(ctx, doc, prop):
    """Re-run exactly the recorded case on the implementation (framework: ./check Cxx --replay file)."""
    rp = doc.get("replay", {})
    if rp.get("kind") == "history" or "history" in rp:
        case = edits.make_case(rp["seed"], rp["n_points"], 0, offset=rp.get("offset", 0.0) or 0.0)
        spec, hist = _tuplify(rp["start_spec"]), [_tuplify(e) for e in rp["history"]]
        _, f = edits.replay(spec, hist, case["data"])
        ctx.case(key="replay", n=len(hist), sample={"replay": rp, "outcome": f})
        r = {"seed": rp["seed"], "n_points": rp["n_points"], "spec": spec, "hist": hist, "failure": f, "length": len(hist), "ops": {}, "ns": case["ns"], "final": None, "offset": rp.get("offset", 0.0)}
        report_history_failures(ctx, [r], prop)
        ctx.log("replayed history: %s" % (f,))
    elif "sampler_job_args" in rp:
        from . import C07

        res = edits.sampler_job(tuple(rp["sampler_job_args"]))
        C07.report_sampler_results(ctx, [res], prop)
        ctx.log("replayed sampler run: c06=%s c07=%s" % (res["c06"], res["c07"]))
    else:
        ctx.log("nothing to replay in this file (a tie/proof replay names the obligation that broke)")
        print(doc)


def replay(ctx, doc):
    replay_doc(ctx, doc, "C06")
