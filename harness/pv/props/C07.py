"""C07 - every tree is a well-formed forest and no move loses or duplicates data."""
from concurrent.futures import ProcessPoolExecutor

from .. import coq, edits
from . import C06 as h  # noqa: E402  (C06 imports this module lazily inside run)

PROPOSALS = ["bootstrap", "semi-adapted", "fully-adapted"]


def sampler_plan(ctx, n_runs, sweeps):
    jobs = []
    k = 0
    while len(jobs) < n_runs:
        for prop in PROPOSALS:
            for outliers in (False, True):
                jobs.append((ctx.rng.randrange(10**9), ctx.rng.randint(4, 8), prop, outliers, sweeps, ctx.rng.randint(3, 6), 0.4, ctx.rng.choice([5, 8])))
        k += 1
    return jobs[:n_runs]


def run_samplers(ctx, jobs):
    with ProcessPoolExecutor(max_workers=h.WORKERS) as ex:
        return list(ex.map(edits.sampler_job, jobs))


def report_sampler_results(ctx, results, prop):
    for r in results:
        seed, n_points, proposal, outliers = r["args"][:4]
        calls = sum(r["calls"].values())
        ctx.case(key="sampler:%d" % seed, nontrivial=r["shapes"] >= 3, n=calls,
                 sample={"sampler_run": r["args"], "calls": r["calls"], "distinct_trees": r["shapes"], "exception": r["exception"]})
        ctx.count("proposal=%s,outliers=%s" % (proposal, outliers))
        for name, c in r["calls"].items():
            ctx.count("call=" + name, c)
        if r["exception"]:
            ctx.count("sampler_exception(not judged here)=" + r["exception"].split(":")[0])
        f = r["c07" if prop == "C07" else "c06"]
        if f:
            name, what, nth = f
            ctx.fail("%s:%s:%s,outliers=%s" % (prop, name, proposal, outliers), "%s (call %d of %s)" % (what, nth, name),
                     {"sampler_job_args": r["args"], "how": "pv.edits.sampler_job(args)", "call": name, "nth": nth})


def _conserve_job(args):
    """every sampler move applied (a few seeded times) to one start tree: the returned tree must be well formed and hold
    exactly the start tree's data points"""
    spec, values, reps, seed = args
    import numpy as np

    from phyclone.mcmc.gibbs_mh import DataPointSampler, PruneRegraphSampler
    from phyclone.mcmc.particle_gibbs import ParticleGibbsSubtreeSampler, ParticleGibbsTreeSampler
    from phyclone.smc.samplers import UnconditionalSMCSampler
    from phyclone.utils.dev import clear_proposal_dist_caches

    from ..kernels import KINDS, make_kernel, make_tree_dist
    from ..trees import AbsError, abs_spec, build_tree, make_data, spec_points

    has_out = len(spec[1]) > 0
    data = make_data(values, outlier_prob=0.2)
    pts = tuple(spec_points(spec))
    bad = []
    n = 0
    for kind in KINDS:
        for rep in range(reps):
            rng = np.random.default_rng(seed + 1000 * rep)
            td = make_tree_dist(1.0)
            k = make_kernel(kind, td, rng, 0.1, True)
            movers = [("ParticleGibbsSubtreeSampler", ParticleGibbsSubtreeSampler(k, rng, num_particles=3, resample_threshold=0.5)),
                      ("ParticleGibbsTreeSampler", ParticleGibbsTreeSampler(k, rng, num_particles=3, resample_threshold=0.5)),
                      ("UnconditionalSMCSampler", UnconditionalSMCSampler(k, num_particles=3, resample_threshold=0.5)),
                      ("DataPointSampler", DataPointSampler(td, rng, outliers=True)),
                      ("PruneRegraphSampler", PruneRegraphSampler(td, rng))]
            for name, mv in movers:
                clear_proposal_dist_caches()
                tree = build_tree(spec, data)
                n += 1
                try:
                    out = mv.sample_tree(tree)
                    sp = abs_spec(out)
                    got = tuple(spec_points(sp))
                    if got != pts:
                        bad.append((name, kind, "returned tree holds data points %r, the input held %r" % (got, pts)))
                except AbsError as e:
                    bad.append((name, kind, "returned tree is not well formed: %s" % e))
                except Exception as e:  # crashes are C19's subject; recorded, not judged here
                    pass
    return spec, n, bad


def move_conservation(ctx):
    """Every real move from EVERY start tree over 3 data points with every outlier subset (and a sample of 4-point
    trees): well-formedness and exact data conservation of the returned tree."""
    from ..trees import all_specs, rational_values

    specs = all_specs(range(3), outliers=True)
    more = all_specs(range(4), outliers=True)
    ctx.rng.shuffle(more)
    specs = specs + more[: (40 if ctx.quick else 400)]
    vals = rational_values(ctx.rng, 4, 1, 3)
    jobs = [(sp, vals, 2 if ctx.quick else 5, ctx.rng.randrange(10**6)) for sp in specs]
    with ProcessPoolExecutor(max_workers=h.WORKERS) as ex:
        res = list(ex.map(_conserve_job, jobs, chunksize=4))
    tot = 0
    for spec, n, bad in res:
        tot += n
        shape = "outliers=%d,roots=%d" % (len(spec[1]), len(spec[0]))
        ctx.case(key=("conserve", spec), nontrivial=True, n=n)
        for name, kind, what in bad[:1]:
            ctx.fail("C07:%s:conservation:%s" % (name, "with-outliers" if spec[1] else "no-outliers"), what, {"start_tree": spec, "kernel": kind, "shape": shape})
    ctx.count("move_conservation_calls", tot)


def run(ctx):
    coq.check_property_file(ctx)
    move_conservation(ctx)
    ctx.rule = (
        "(a) the seeded random edit histories of C06 (same grammar, own seeds): after EVERY edit the four redundant views of the real Tree agree "
        "(pv.trees.abs_impl: name<->index maps inverse, payload names/data = _data, one parent each, all reachable, edge count) and the data-index multiset "
        "changed exactly by the points the edit adds; (b) the real samplers wired as phyclone.run (UnconditionalSMCSampler, ParticleGibbsTreeSampler, "
        "ParticleGibbsSubtreeSampler, DataPointSampler, PruneRegraphSampler, relabel_nodes) for each proposal kernel x outliers on/off on 4-8 data points: "
        "same two checks on every returned tree; (c) a subset of histories replayed in the Coq model (clades, parents, outliers, name sets per step); "
        "non-trivial = history with >= 3 operation kinds / sampler run visiting >= 3 distinct trees"
    )
    ctx.exhaustive = False
    # (a) edit histories
    if ctx.quick:
        jobs = [(ctx.rng.randrange(10**9), ctx.rng.randint(5, 8), 12 if k < 12 else 40, k < 12) for k in range(160)]
        sjobs = sampler_plan(ctx, 60, 6)
    else:
        jobs = [(ctx.rng.randrange(10**9), ctx.rng.randint(5, 10), 14 if k < 30 else ctx.rng.choice([40, 80, 150, 300]), k < 30) for k in range(700)]
        sjobs = sampler_plan(ctx, 420, 10)
    results = h.run_histories(ctx, jobs)
    n_edits = 0
    for r in results:
        n_edits += r["length"]
        ctx.case(key=r["seed"], nontrivial=len(r["ops"]) >= 3, n=r["length"],
                 sample={"seed": r["seed"], "start": r["spec"], "length": r["length"], "ops": r["ops"], "final": r["final"]})
        for op, c in r["ops"].items():
            ctx.count("op=" + op, c)
    ctx.extra["edits_checked"] = n_edits
    ctx.log("histories %d, edits %d" % (len(results), n_edits))
    h.report_history_failures(ctx, results, "C07")
    # (b) real samplers
    sres = run_samplers(ctx, sjobs)
    report_sampler_results(ctx, sres, "C07")
    ctx.extra["sampler_calls_checked"] = sum(sum(r["calls"].values()) for r in sres)
    ctx.log("sampler runs %d, calls %d, exceptions %d" % (len(sres), ctx.extra["sampler_calls_checked"], sum(1 for r in sres if r["exception"])))
    # (c) model agreement
    h.coq_correspondence(ctx, results)
    ctx.assumptions += [
        "one-parent / reachability / map consistency of the real Tree is checked by pv.trees.abs_impl, not modelled (a rose tree has them by construction)",
        "sampler-level conservation (every tree returned by a sampler holds exactly its input's data) is validated on the sampler runs, and follows in the model "
        "from C07_all_histories for any composition of grammar edits; the samplers' control flow itself is not modelled here",
        "NewClone is only used on trees named 0..n-1 (side condition [pre]; C07_create_after_prune_refuted shows it is needed)",
        "crashes of a sampler are recorded in the histogram but judged by C19, not here",
    ]


def replay(ctx, doc):
    h.replay_doc(ctx, doc, "C07")
