"""C07 - every tree is a well-formed forest and no move loses or duplicates data."""
from concurrent.futures import ProcessPoolExecutor

from .. import coq, edits
from . import C06 as h  # noqa: E402  (C06 imports this module lazily inside run)

PROPOSALS = ["bootstrap", "semi-adapted", "fully-adapted"]


def sampler_plan(ctx, n_runs, sweeps):
    jobs = []
    k = 0
    while len(jobs) < n_runs:
        for prop in PROPOSALS:
            for outliers in (False, True):
                jobs.append((ctx.rng.randrange(10**9), ctx.rng.randint(4, 8), prop, outliers, sweeps, ctx.rng.randint(3, 6), 0.4, ctx.rng.choice([5, 8])))
        k += 1
    return jobs[:n_runs]


def run_samplers(ctx, jobs):
    with ProcessPoolExecutor(max_workers=h.WORKERS) as ex:
        return list(ex.map(edits.sampler_job, jobs))


def report_sampler_results(ctx, results, prop):
    for r in results:
        seed, n_points, proposal, outliers = r["args"][:4]
        calls = sum(r["calls"].values())
        ctx.case(key="sampler:%d" % seed, nontrivial=r["shapes"] >= 3, n=calls,
                 sample={"sampler_run": r["args"], "calls": r["calls"], "distinct_trees": r["shapes"], "exception": r["exception"]})
        ctx.count("proposal=%s,outliers=%s" % (proposal, outliers))
        for name, c in r["calls"].items():
            ctx.count("call=" + name, c)
        if r["exception"]:
            ctx.count("sampler_exception(not judged here)=" + r["exception"].split(":")[0])
        f = r["c07" if prop == "C07" else "c06"]
        if f:
            name, what, nth = f
            ctx.fail("%s:%s:%s,outliers=%s" % (prop, name, proposal, outliers), "%s (call %d of %s)" % (what, nth, name),
                     {"sampler_job_args": r["args"], "how": "pv.edits.sampler_job(args)", "call": name, "nth": nth})


def run(ctx):
    coq.check_property_file(ctx)
    ctx.rule = (
        "(a) the seeded random edit histories of C06 (same grammar, own seeds): after EVERY edit the four redundant views of the real Tree agree "
        "(pv.trees.abs_impl: name<->index maps inverse, payload names/data = _data, one parent each, all reachable, edge count) and the data-index multiset "
        "changed exactly by the points the edit adds; (b) the real samplers wired as phyclone.run (UnconditionalSMCSampler, ParticleGibbsTreeSampler, "
        "ParticleGibbsSubtreeSampler, DataPointSampler, PruneRegraphSampler, relabel_nodes) for each proposal kernel x outliers on/off on 4-8 data points: "
        "same two checks on every returned tree; (c) a subset of histories replayed in the Coq model (clades, parents, outliers, name sets per step); "
        "non-trivial = history with >= 3 operation kinds / sampler run visiting >= 3 distinct trees"
    )
    ctx.exhaustive = False
    # (a) edit histories
    if ctx.quick:
        jobs = [(ctx.rng.randrange(10**9), ctx.rng.randint(5, 8), 12 if k < 12 else 40, k < 12) for k in range(160)]
        sjobs = sampler_plan(ctx, 60, 6)
    else:
        jobs = [(ctx.rng.randrange(10**9), ctx.rng.randint(5, 10), 14 if k < 30 else ctx.rng.choice([40, 80, 150, 300]), k < 30) for k in range(700)]
        sjobs = sampler_plan(ctx, 420, 10)
    results = h.run_histories(ctx, jobs)
    n_edits = 0
    for r in results:
        n_edits += r["length"]
        ctx.case(key=r["seed"], nontrivial=len(r["ops"]) >= 3, n=r["length"],
                 sample={"seed": r["seed"], "start": r["spec"], "length": r["length"], "ops": r["ops"], "final": r["final"]})
        for op, c in r["ops"].items():
            ctx.count("op=" + op, c)
    ctx.extra["edits_checked"] = n_edits
    ctx.log("histories %d, edits %d" % (len(results), n_edits))
    h.report_history_failures(ctx, results, "C07")
    # (b) real samplers
    sres = run_samplers(ctx, sjobs)
    report_sampler_results(ctx, sres, "C07")
    ctx.extra["sampler_calls_checked"] = sum(sum(r["calls"].values()) for r in sres)
    ctx.log("sampler runs %d, calls %d, exceptions %d" % (len(sres), ctx.extra["sampler_calls_checked"], sum(1 for r in sres if r["exception"])))
    # (c) model agreement
    h.coq_correspondence(ctx, results)
    ctx.assumptions += [
        "one-parent / reachability / map consistency of the real Tree is checked by pv.trees.abs_impl, not modelled (a rose tree has them by construction)",
        "sampler-level conservation (every tree returned by a sampler holds exactly its input's data) is validated on the sampler runs, and follows in the model "
        "from C07_all_histories for any composition of grammar edits; the samplers' control flow itself is not modelled here",
        "NewClone is only used on trees named 0..n-1 (side condition [pre]; C07_create_after_prune_refuted shows it is needed)",
        "crashes of a sampler are recorded in the histogram but judged by C19, not here",
    ]


def replay(ctx, doc):
    h.replay_doc(ctx, doc, "C07")
