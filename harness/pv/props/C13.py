"""C13 - the concentration update is an exact Gibbs step for the CRP concentration.

Nothing here is sampled: scipy's beta / bernoulli / gamma objects inside phyclone.mcmc.concentration are replaced by recording
fakes that return controlled values, so the *parameters* of the three draws are observed exactly.
  * correspondence: recorded parameters vs Model/Concentration.v (sample_calls / sample_value / K_n_of_tree) by vm_compute;
  * property-level search: (i) the recorded parameters against the statement evaluated directly (Beta(alpha+1, n); the mixture
    pi*Gamma(shape+1, rate) + (1-pi)*Gamma(shape, rate) with the recorded numbers must be proportional to
    x^(a+K-2) (x+n) exp(-x (b - log eta)) - checked with scipy's own gamma.pdf at several x); (ii) update_concentration_value on
    every tree over <= 4 points with every outlier subset: K, n passed to sample(), the alpha stored afterwards, log_alpha, and the
    next log_p_one against a fresh distribution.
"""
import math
from fractions import Fraction

import numpy as np

from .. import coq
from ..trees import all_specs, random_spec, rational_values, spec_nodes, node_points
from . import C03 as c03


class Recorder:
    """stands in for scipy.stats.beta / bernoulli / gamma inside phyclone.mcmc.concentration"""

    def __init__(self, kind, log, values):
        self.kind, self.log, self.values = kind, log, values

    def rvs(self, *args, **kw):
        rs = kw.pop("random_state", None)
        self.log.append((self.kind, tuple(args), dict(kw), rs))
        return self.values[self.kind]


def q(fr):
    fr = Fraction(fr)
    return "(Q2Qc (%d#%d))" % (fr.numerator, fr.denominator)


def qq(x):
    fr = Fraction(x)
    return "(%d#%d)%%Q" % (fr.numerator, fr.denominator)


HEADER = """From PV Require Import Model.Concentration Model.CaseUtil.
Open Scope nat_scope.
Definition tol : Q := (1#1000000000000)%Q.
Fixpoint lq_close (a b : list Q) : bool :=
  match a, b with [] , [] => true | x :: a', y :: b' => qclose tol x y && lq_close a' b' | _, _ => false end.
Fixpoint llq_close (a b : list (list Q)) : bool :=
  match a, b with [] , [] => true | x :: a', y :: b' => lq_close x y && llq_close a' b' | _, _ => false end.
(* recorded calls (beta: [a; b], bernoulli: [p], gamma: [shape; scale]) and the returned value *)
Definition chk (a b alpha : Qc) (K n : nat) (L : Qc) (z : bool) (g : Qc) (calls : list (list Q)) (ret : Q) : bool :=
  llq_close (map call_q (sample_calls a b alpha K n L z)) calls && qcclose tol (sample_value K g) ret.
Definition chk_kn (F : forest) (K n : nat) : bool :=
  Nat.eqb (fst (K_n_of_tree F)) K && Nat.eqb (snd (K_n_of_tree F)) n.
"""


def run(ctx):
    import scipy.stats as st

    import phyclone.mcmc.concentration as conc
    from phyclone.run import update_concentration_value
    from phyclone.tree.distributions import FSCRPDistribution, TreeJointDistribution

    coq.check_property_file(ctx)
    ctx.rule = (
        "grid of (a, b, alpha, K, n, eta = exp(-L), bernoulli outcome, gamma outcome) including K = 0 and gamma outcomes below the 1e-10 "
        "floor: parameters passed to beta.rvs / bernoulli.rvs / gamma.rvs recorded through fakes bound to the module globals; "
        "update_concentration_value on every canonical tree over <= 4 data points with every outlier subset (exhaustive), built through "
        "three histories, plus seeded random larger trees; non-trivial = K >= 1 for the grid, >= 1 clone or outlier for trees; "
        "distinct = parameter tuple / canonical tree"
    )
    ctx.exhaustive = True
    real_gamma_pdf = st.gamma.pdf
    real = (conc.beta, getattr(conc, "bernoulli", None), conc.gamma)
    items, meta = [], []
    try:
        log = []
        values = {"beta": 0.5, "bernoulli": 0, "gamma": 1.0}
        conc.beta = Recorder("beta", log, values)
        conc.bernoulli = Recorder("bernoulli", log, values)
        conc.gamma = Recorder("gamma", log, values)
        class _Probe:
            # a uniform variate compared with p is a Bernoulli(p) draw, however the code realises it
            def __init__(self, rng):
                self.rng = rng

            def __lt__(self, p):
                log.append(("bernoulli", (float(p),), {}, self.rng))
                return bool(values["bernoulli"])

            def __le__(self, p):
                return self.__lt__(p)

            def __gt__(self, p):  # u > p  <=>  not Bernoulli(p)
                return not self.__lt__(p)

            def __ge__(self, p):
                return not self.__lt__(p)

        class _ProbeRng:
            def random(self):
                return _Probe(self)

        sentinel_rng = _ProbeRng()

        # ---------------- (1) parameter grid
        As = [Fraction(1, 100), Fraction(1), Fraction(5, 2)]
        Bs = [Fraction(1, 100), Fraction(1), Fraction(3)]
        alphas = [Fraction(3, 10), Fraction(1), Fraction(7)]
        Ls = [Fraction(1, 10), Fraction(1), Fraction(7, 2)]
        KN = [(0, 0), (0, 3), (1, 1), (1, 4), (2, 2), (2, 5), (3, 7), (5, 5), (6, 40), (40, 2500), (300, 301)]
        gs = [Fraction(37, 100), Fraction(1, 10**12), Fraction(0)]  # the last: a Gamma draw that underflows to exactly 0.0
        if not ctx.quick:
            As += [Fraction(7, 3)]
            Bs += [Fraction(1, 7)]
            alphas += [Fraction(1, 1000), Fraction(40)]
            Ls += [Fraction(1, 1000), Fraction(12)]
            KN += [(k, n) for n in range(1, 9) for k in range(1, n + 1)]
            KN = sorted(set(KN))
        for a in As:
            for b in Bs:
                sampler = conc.GammaPriorConcentrationSampler(float(a), float(b), sentinel_rng)
                for alpha in alphas:
                    for K, n in KN:
                        for L in Ls:
                            for z in (0, 1):
                                for g in gs:
                                    if K == 0 and (L != Ls[0] or z != 0):
                                        continue
                                    eta = math.exp(-float(L))
                                    values.update(beta=eta, bernoulli=z, gamma=float(g))
                                    del log[:]
                                    ret = sampler.sample(float(alpha), K, n)
                                    calls = list(log)
                                    key = (str(a), str(b), str(alpha), K, n, str(L), z, str(g))
                                    ctx.case(key=key, nontrivial=K >= 1, sample={"a": str(a), "b": str(b), "alpha": str(alpha), "K": K, "n": n, "L": str(L), "z": z, "g": str(g), "calls": [(c[0], c[1], c[2]) for c in calls], "ret": ret})
                                    ctx.count("K=0" if K == 0 else ("K=n" if K == n else "1<=K<n"))
                                    shape_key = "K=0" if K == 0 else "K>=1"
                                    replay = {"a": str(a), "b": str(b), "alpha": str(alpha), "K": K, "n": n, "eta": eta, "bernoulli": z, "gamma": str(g), "calls": [(c[0], c[1], c[2]) for c in calls], "returned": ret}
                                    # every draw must use the sampler's generator
                                    if any(c[3] is not sentinel_rng for c in calls):
                                        ctx.fail("C13:sample:random_state:%s" % shape_key, "a draw does not use the sampler's generator", replay)
                                    # ---- the statement, directly
                                    flat = _flatten(calls)
                                    if K == 0:
                                        ok = len(calls) == 1 and calls[0][0] == "gamma" and _close(flat[0][0], float(a)) and _close(flat[0][1], 1.0 / float(b))
                                        if not ok:
                                            ctx.fail("C13:sample:params:K=0", "K = 0 must draw from the prior Gamma(a, scale 1/b)", replay)
                                        if not _is_draw(ret, float(g)):
                                            ctx.fail("C13:sample:return:K=0", "returned value is not the gamma draw (up to the 1e-10 floor)", replay)
                                    else:
                                        if [c[0] for c in calls] != ["beta", "bernoulli", "gamma"]:
                                            ctx.fail("C13:sample:calls:K>=1", "expected beta, bernoulli, gamma draws in this order", replay)
                                            continue
                                        (ba, bb), (pi,), (shape, scale) = flat
                                        if not (_close(ba, float(alpha) + 1) and _close(bb, n)):
                                            ctx.fail("C13:sample:beta:K>=1", "auxiliary variable is not Beta(alpha + 1, n)", replay)
                                        r = float(b) - math.log(eta)
                                        s0 = float(a) + K - 1
                                        if not (_close(scale, 1.0 / r) and _close(shape, s0 + z)):
                                            ctx.fail("C13:sample:gamma:K>=1", "gamma draw is not Gamma(a+K-1+z, rate b - log eta)", replay)
                                        # mixture proportional to the target, using the recorded numbers and scipy's pdf
                                        ratios = []
                                        for x in (0.05, 0.4, 1.0, 2.7, 9.0):
                                            mix = pi * real_gamma_pdf(x, s0 + 1, scale=scale) + (1 - pi) * real_gamma_pdf(x, s0, scale=scale)
                                            tgt = x ** (float(a) + K - 2) * (x + n) * math.exp(-x * r)
                                            ratios.append(mix / tgt)
                                        if max(ratios) - min(ratios) > 1e-9 * max(ratios):
                                            ctx.fail("C13:sample:mixture:K>=1", "mixture with the code's weight is not proportional to x^(a+K-2)(x+n)exp(-x r): ratios %r" % (ratios,), replay)
                                        if not _is_draw(ret, float(g)):
                                            ctx.fail("C13:sample:return:K>=1", "returned value is not the gamma draw (up to the 1e-10 floor)", replay)
                                    # ---- Coq correspondence item
                                    items.append("chk %s %s %s %d %d %s %s %s [%s] %s" % (
                                        q(a), q(b), q(alpha), K, n, q(L), "true" if z else "false", q(g),
                                        "; ".join("[" + "; ".join(qq(float(v)) for v in c) + "]" for c in flat), qq(float(ret))))
                                    meta.append(replay)

        # ---------------- (2) update_concentration_value on trees
        rng = ctx.rng
        n_samples, grid = 1, 3
        NP = 7
        vals = rational_values(rng, NP + 1, n_samples, grid)
        sizes = [1] * (NP + 1)
        data = c03.mk_data(vals, Fraction(1, 10), sizes)
        G = (n_samples, grid)
        specs = []
        for npts in range(0, 5):
            specs += all_specs(range(npts), outliers=True)
        n_enum = len(specs)
        for _ in range(20 if ctx.quick else 300):
            specs.append(random_spec(rng, range(rng.randint(5, NP)), outlier_frac=0.3, max_block=3))

        class RecSampler(conc.GammaPriorConcentrationSampler):
            __slots__ = ("seen",)

            def sample(self, old_value, num_clusters, num_data_points):
                ret = super().sample(old_value, num_clusters, num_data_points)
                self.seen.append((old_value, num_clusters, num_data_points, ret))
                return ret

        for si, spec in enumerate(specs):
            K_true = len(spec_nodes(spec))
            n_true = sum(len(node_points(r)) for r in spec[0])
            shape_key = "clones=%d,outliers=%d" % (min(K_true, 2), min(len(spec[1]), 2))
            trees = [("children_first", c03.build_children_first(spec, data, G)),
                     ("one_at_a_time_shuffled", c03.build_one_at_a_time(spec, data, G, rng)),
                     ("graft_subtrees", c03.build_by_grafting(spec, data, G, rng))]
            trees.append(("prune_regraft", c03.regraft(trees[0][1], rng)))
            for hname, tree in trees:
                old_alpha = float(rng.choice([Fraction(3, 10), Fraction(1), Fraction(5, 2)]))
                first_draw = float(rng.choice([Fraction(37, 100), Fraction(9, 4), Fraction(1, 10**12)]))
                # a history of updates on ONE distribution object (what the run loop does sweep after sweep): an ordinary draw, a draw
                # that differs from the current value only in the 7th digit, two different tiny draws (the Gamma(0.01, 0.01) prior with
                # few clones produces values far below 1e-8), back to an ordinary value
                draws = [first_draw, None, 3.2e-9, 4.7e-9, float(rng.choice([Fraction(37, 100), Fraction(9, 4)]))]
                prior = FSCRPDistribution(old_alpha)
                dist = TreeJointDistribution(prior)
                for step, new_draw in enumerate(draws if (hname == "children_first" or si >= n_enum) else draws[:1]):
                    if new_draw is None:
                        new_draw = float(dist.prior.alpha) * (1 + 3e-7)
                    old_alpha = float(dist.prior.alpha)
                    values.update(beta=math.exp(-0.5), bernoulli=rng.randint(0, 1), gamma=new_draw)
                    del log[:]
                    before = float(dist.log_p_one(tree))
                    sampler = RecSampler(1.0, 1.0, sentinel_rng)
                    sampler.seen = []
                    update_concentration_value(sampler, tree, dist)
                    replay = {"tree": spec, "history": hname, "update_number": step, "old_alpha": old_alpha, "gamma_draw": new_draw, "seen": list(sampler.seen), "alpha_after": float(dist.prior.alpha)}
                    ctx.case(key=spec, nontrivial=(K_true >= 1 or len(spec[1]) >= 1), sample=replay if si % 97 == 5 else None)
                    ctx.count("tree clones=%d" % K_true)
                    ctx.count("tree outliers=%d" % len(spec[1]))
                    if len(sampler.seen) != 1:
                        ctx.fail("C13:update_concentration_value:calls:%s" % shape_key, "sample() called %d times" % len(sampler.seen), replay)
                        continue
                    ov, K, n, returned = sampler.seen[0]
                    if (K, n) != (K_true, n_true) or ov != old_alpha:
                        ctx.fail("C13:update_concentration_value:K_n:%s" % shape_key,
                                 "sample() received (old, K, n) = (%r, %r, %r); the tree has %d clones holding %d non-outlier points, alpha was %r" % (ov, K, n, K_true, n_true, old_alpha), replay)
                    # the 1e-10 floor is a numerical guard outside the statement: the draw itself or the floored draw is accepted
                    if not _is_draw(returned, new_draw):
                        ctx.fail("C13:update_concentration_value:draw:%s" % shape_key, "sample() returned %r for the gamma draw %r" % (returned, new_draw), replay)
                    expect = returned
                    if dist.prior.alpha != returned:
                        ctx.fail("C13:update_concentration_value:alpha:%s" % shape_key, "prior.alpha after the update is %r, the sampler returned %r" % (dist.prior.alpha, returned), replay)
                    if not _close(float(dist.prior.log_alpha), math.log(expect)):
                        ctx.fail("C13:update_concentration_value:log_alpha:%s" % shape_key, "prior.log_alpha = %r but log(alpha) = %r" % (dist.prior.log_alpha, math.log(expect)), replay)
                    fresh = TreeJointDistribution(FSCRPDistribution(expect))
                    for nm in ("log_p_one", "log_p"):
                        v_after, v_fresh = float(getattr(dist, nm)(tree)), float(getattr(fresh, nm)(tree))
                        if not _close(v_after, v_fresh):
                            ctx.fail("C13:update_concentration_value:next-density:%s" % shape_key, "%s after the update is %r, a fresh distribution with the new alpha gives %r" % (nm, v_after, v_fresh), replay)
                    # the density really moved by K * (log new - log old): the new value is in use
                    after = float(dist.log_p_one(tree))
                    if not _close(after - before, K_true * (math.log(expect) - math.log(old_alpha)), tol=1e-7):
                        ctx.fail("C13:update_concentration_value:uses-new-alpha:%s" % shape_key, "log_p_one changed by %r, expected K*(log new - log old) = %r" % (after - before, K_true * (math.log(expect) - math.log(old_alpha))), replay)
                if hname == "children_first" or si >= n_enum:
                    items.append("chk_kn %s %d %d" % (c03.coq_forest(spec), K, n))
                    meta.append(replay)
    finally:
        conc.beta, conc.gamma = real[0], real[2]
        if real[1] is None:
            if hasattr(conc, "bernoulli"):
                del conc.bernoulli
        else:
            conc.bernoulli = real[1]

    # keep the Coq file bounded in the quick tier (seeded subsample of the grid items, all tree items)
    if ctx.quick and len(items) > 900:
        idx = sorted(ctx.rng.sample(range(len(items)), 900))
        items, meta = [items[i] for i in idx], [meta[i] for i in idx]
    ok, bad, detail = coq.coq_eval_bool_cases(ctx, "corr", HEADER, items, shard=150, workers=4)
    ctx.extra["coq_corr_cases"] = len(items)
    if not ok:
        ctx.broken_tie("C13 correspondence file did not evaluate", detail)
    else:
        ctx.obligation("corr_model_eq_impl_%d_cases" % len(items), not bad)
        if bad:
            ctx.broken[-1]["detail"] = {"failing_case_count": len(bad), "first": meta[bad[0]], "item": items[bad[0]][:600]}
    ctx.assumptions += [
        "scipy.stats beta/bernoulli/gamma .rvs sample from the distributions with the recorded parameters (a, b), p, (shape, scale)",
        "the Gamma function enters the theorems as a variable with premises Gam(s+1) = s*Gam(s), Gam(s) > 0 (s > 0)",
        "NOT formalised: that a two-block Gibbs sweep over (alpha, eta) on a continuous space leaves the joint invariant, and that the "
        "Beta/Gamma densities integrate to one (no measure theory library installed); the theorems give the algebraic proportionalities only",
        "eta is observed through L = -log eta (rational); rate compared at 1e-12",
    ]


def _flatten(calls):
    """numeric arguments of each recorded call: beta -> (a, b), bernoulli -> (p,), gamma -> (shape, scale)"""
    out = []
    for kind, args, kw, _ in calls:
        if kind == "beta":
            a = kw.get("a", args[0] if args else None)
            b = kw.get("b", args[1] if len(args) > 1 else None)
            out.append((float(a), float(b)))
        elif kind == "bernoulli":
            out.append((float(kw.get("p", args[0] if args else None)),))
        else:
            shape = kw.get("a", args[0] if args else None)
            out.append((float(shape), float(kw.get("scale", 1.0))))
    return out


def _is_draw(ret, g, floor=1e-10):
    """the returned value is the gamma draw, possibly raised to the numerical floor"""
    return ret == g or (g < floor and ret == floor)


def _close(x, y, tol=1e-12):
    return abs(x - y) <= tol * max(1.0, abs(x), abs(y))
