"""C09 - data orders are drawn uniformly from those compatible with the tree; log_pdf = -log(#orders)."""
import itertools
import math
from fractions import Fraction

from .. import coq
from ..enumrng import enumerate_outcomes
from ..trees import all_specs, build_tree, make_data, random_spec, rational_values, scramble, spec_nodes, node_points, spec_points, tree_spec


def coq_tree(node):
    own, kids = node
    return "(Node %s %s)" % (nl(own), "[" + "; ".join(coq_tree(k) for k in kids) + "]")


def nl(xs):
    return "[" + "; ".join(str(int(x)) for x in xs) + "]"


def coq_forest(spec):
    return "(mkF [%s] %s)" % ("; ".join(coq_tree(r) for r in spec[0]), nl(spec[1]))


def compatible_orders(spec):
    """Independent oracle: brute force over all permutations."""
    pts = spec_points(spec)
    cons = []  # (x, y): x must come after y
    for n in spec_nodes(spec):
        own, kids = n
        desc = []
        for k in kids:
            desc += node_points(k)
        for x in own:
            for y in desc:
                cons.append((x, y))
    out = []
    for perm in itertools.permutations(pts):
        pos = {p: i for i, p in enumerate(perm)}
        if all(pos[x] > pos[y] for x, y in cons):
            out.append(perm)
    return out


def _one_tree(args):
    spec, vals = args
    from phyclone.smc.utils import RootPermutationDistribution

    data = make_data(vals, outlier_prob=0.1)
    tree = build_tree(spec, data)
    dist, npaths, _ = enumerate_outcomes(lambda r: tuple(d.idx for d in RootPermutationDistribution.sample(tree, r)))
    log_pdf = float(RootPermutationDistribution.log_pdf(tree))
    # the same tree after the edits a sampler / the run loop applies (relabel_nodes every iteration, prune + graft, dictionary
    # form): node ids and child order are then not those of a bottom-up build, the compatible orders are unchanged
    edited = []
    nn = len(spec_nodes(spec))
    for history in ([("relabel",)], [("regraft", k) for k in range(nn)] + [("relabel",)], [("regraft", 0), ("dict",)], [("relabel",), ("regraft", 1), ("regraft", 0)]):
        t2 = scramble(build_tree(spec, data), history)
        if tree_spec(t2) != spec:
            edited.append((history, None, None))
            continue
        d2 = None
        if npaths <= 1500 and history[-1] == ("relabel",):
            d2, _, _ = enumerate_outcomes(lambda r: tuple(d.idx for d in RootPermutationDistribution.sample(t2, r)))
        edited.append((history, float(RootPermutationDistribution.log_pdf(t2)), d2))
    # query - edit IN PLACE - query again on ONE tree object (what a sampler that keeps working on its tree does): anything the
    # tree memoises about subtree sizes must follow every edit.  A spare data point is added to / removed from each clone and the
    # outliers, an own point is moved between clones; after every step log_pdf must be -log(#orders) of the forest as it is now.
    inplace = []
    spare = data[len(vals) - 1]
    if spare.idx not in spec_points(spec):
        t3 = build_tree(spec, data)
        RootPermutationDistribution.log_pdf(t3)

        def probe(step):
            s3 = tree_spec(t3)
            inplace.append((step, float(RootPermutationDistribution.log_pdf(t3)), len(compatible_orders(s3)), s3))

        for node in sorted(t3.nodes):
            t3.add_data_point_to_node(spare, node); probe("add spare point to clone %s" % node)
            t3.remove_data_point_from_node(spare, node); probe("remove it from clone %s" % node)
        t3.add_data_point_to_outliers(spare); probe("add spare point to the outliers")
        t3.remove_data_point_from_outliers(spare); probe("remove it from the outliers")
        names = sorted(t3.nodes)
        big = [n_ for n_ in names if len(t3.get_data(n_)) >= 2]
        if big and len(names) >= 2:
            src = big[0]
            dst = [n_ for n_ in names if n_ != src][-1]
            dp = t3.get_data(src)[0]
            t3.remove_data_point_from_node(dp, src); probe("take point %d out of clone %s" % (dp.idx, src))
            t3.add_data_point_to_node(dp, dst); probe("put it into clone %s" % dst)
    return spec, dist, npaths, log_pdf, compatible_orders(spec), edited, inplace


def run(ctx):

    coq.check_property_file(ctx)
    ctx.rule = (
        "every canonical tree over <= n data points with every outlier subset (exhaustive), plus seeded random larger trees; "
        "for each: exact outcome distribution of RootPermutationDistribution.sample by enumerating every shuffle, log_pdf, "
        "brute-force set of compatible orders, and the Coq model (forders/fsample/fcount) evaluated by vm_compute on the same tree; "
        "non-trivial = more than one compatible order; distinct = canonical tree"
    )
    nmax = 4 if ctx.quick else 5
    specs = []
    for n in range(1, nmax + 1):
        specs += all_specs(range(n), outliers=(n <= (4 if ctx.quick else 4)))
    # a few larger random ones (kept small enough for full enumeration of shuffles)
    for _ in range(4 if ctx.quick else 40):
        s = random_spec(ctx.rng, range(5), outlier_frac=0.25, max_block=2)
        specs.append(s)
    ctx.exhaustive = True
    vals = rational_values(ctx.rng, 6, 1, 3)
    data = make_data(vals, outlier_prob=0.1)
    cases = []
    from concurrent.futures import ProcessPoolExecutor

    with ProcessPoolExecutor(max_workers=12) as ex:
        results = list(ex.map(_one_tree, [(spec, vals) for spec in specs], chunksize=8))
    for spec, dist, npaths, log_pdf, brute, edited, inplace in results:
        nb = len(brute)
        ctx.case(key=spec, nontrivial=nb > 1, sample={"tree": spec, "orders": nb, "paths": npaths, "log_pdf": log_pdf})
        ctx.count("outliers=%d" % len(spec[1]))
        ctx.count("nodes=%d" % len(spec_nodes(spec)))
        nout = len(spec[1])
        shape = "outliers>=2" if nout >= 2 else "outliers<=1"
        # ---- the property itself, on the implementation
        if set(dist) != set(brute):
            extra = sorted(set(dist) - set(brute))[:3]
            missing = sorted(set(brute) - set(dist))[:3]
            ctx.fail("C09:sample:support:%s" % shape, "sampled orders differ from the compatible orders", {"tree": spec, "not_compatible": extra, "never_drawn": missing})
        else:
            worst = max(abs(p - 1.0 / nb) for p in dist.values())
            if worst > 1e-9:
                ctx.fail("C09:sample:uniform:%s" % shape, "orders not equiprobable (max dev %.3g)" % worst, {"tree": spec, "dist": {str(k): v for k, v in dist.items()}})
        if abs(log_pdf + math.log(nb)) > 1e-9:
            ctx.fail(
                "C09:log_pdf:%s" % shape,
                "log_pdf is %.6f but -log(#compatible orders = %d) is %.6f" % (log_pdf, nb, -math.log(nb)),
                {"tree": spec, "log_pdf": log_pdf, "n_orders": nb},
            )
        for history, lp2, d2 in edited:
            ctx.count("edited_variants")
            hist = [list(h) for h in history]
            if lp2 is None:
                ctx.fail("C09:edited:shape-changed", "prune + graft back / relabel / dictionary round trip changed the tree", {"tree": spec, "history": hist})
            elif abs(lp2 + math.log(nb)) > 1e-9:
                ctx.fail("C09:log_pdf:edited:%s" % shape, "after %s log_pdf is %.6f but -log(#compatible orders = %d) is %.6f" % (hist, lp2, nb, -math.log(nb)), {"tree": spec, "history": hist, "log_pdf": lp2, "n_orders": nb})
            if d2 is not None and (set(d2) != set(brute) or max(abs(p - 1.0 / nb) for p in d2.values()) > 1e-9):
                ctx.fail("C09:sample:edited:%s" % shape, "after %s the sampled orders are not uniform over the compatible orders" % hist, {"tree": spec, "history": hist})
        for step, lp3, nb3, s3 in inplace:
            ctx.count("in_place_edit_steps")
            if abs(lp3 + math.log(nb3)) > 1e-9:
                ctx.fail("C09:log_pdf:in-place-edit:%s" % step.split(" clone")[0].split(" %")[0][:24].replace(" ", "-"), "after '%s' on a tree whose log_pdf had been queried, log_pdf is %.6f but -log(#compatible orders = %d) is %.6f" % (step, lp3, nb3, -math.log(nb3)),
                         {"tree": spec, "step": step, "forest_now": s3, "log_pdf": lp3, "n_orders": nb3})
        cases.append((spec, dist, log_pdf))
    # ---- large trees: log_pdf against the exact integer evaluation of the count formula that Coq proves to be the number of
    # compatible orders (C09_assembly_count_is_count / fcount_is_number_of_orders): clones, sibling groups and outlier sets of
    # hundreds of data points (tables or approximations of log n! that are only right for small n show only here)
    from math import factorial
    from phyclone.smc.utils import RootPermutationDistribution as _RPD

    def _count(node):
        own, kids = node
        c = factorial(len(own))
        tot = 0
        for k in kids:
            ck, nk = _count(k)
            c *= ck
            tot += nk
        m = factorial(tot)
        for k in kids:
            m //= factorial(_count(k)[1])
        return c * m, tot + len(own)

    def _fcount(spec):
        c, tot = 1, 0
        for r in spec[0]:
            cr, nr = _count(r)
            c *= cr
            tot += nr
        m = factorial(tot)
        for r in spec[0]:
            m //= factorial(_count(r)[1])
        no = len(spec[1])
        return c * m * (factorial(tot + no) // (factorial(tot) * factorial(no))) * factorial(no)

    big_layouts = [(130, 5, 126, 0), (255, 1, 3, 2), (256, 0, 2, 1), (257, 4, 200, 3), (40, 30, 300, 257)]
    if not ctx.quick:
        big_layouts += [(512, 3, 2, 0), (300, 256, 20, 258), (1, 1, 1, 300)]
    for (a_, b_, c_, no_) in big_layouts:
        # root clone A (a_ points) with children B (b_ points, if any) and a single-point clone; second root C (c_ points); outliers
        ntot = a_ + b_ + 1 + c_ + no_
        bvals = rational_values(ctx.rng, ntot, 1, 2)
        bdata = make_data(bvals, outlier_prob=0.1)
        ids = list(range(ntot))
        A, rest = ids[:a_], ids[a_:]
        B, rest = rest[:b_], rest[b_:]
        S1, rest = rest[:1], rest[1:]
        C, O = rest[:c_], rest[c_:]
        kidsA = ([(tuple(B), ())] if B else []) + [(tuple(S1), ())]
        bspec = (((tuple(A), tuple(kidsA)), (tuple(C), ())), tuple(O))
        bt = build_tree(bspec, bdata)
        lp_big = float(_RPD.log_pdf(bt))
        cnt = _fcount(bspec)
        ctx.case(key=("large-tree", a_, b_, c_, no_), nontrivial=True, sample={"clone_sizes": [a_, b_, 1, c_], "outliers": no_, "log_pdf": lp_big, "log_count_exact": math.log(cnt)})
        ctx.count("large_trees")
        if abs(lp_big + math.log(cnt)) > 1e-9 * max(1.0, math.log(cnt)):
            ctx.fail("C09:log_pdf:large-tree", "log_pdf is %.9f but -log(#compatible orders) is %.9f for clone sizes %s with %d outliers" % (lp_big, -math.log(cnt), [a_, b_, 1, c_], no_),
                     {"clone_sizes": [a_, b_, 1, c_], "outliers": no_, "log_pdf": lp_big, "minus_log_count": -math.log(cnt)})
        # the sampler on the large tree: one seeded draw is a compatible order over all points
        import numpy as _np
        sig = [int(d.idx) for d in _RPD.sample(bt, _np.random.default_rng(ctx.rng.randrange(10**9)))]
        pos = {x: i for i, x in enumerate(sig)}
        okc = sorted(sig) == ids and all(pos[x] > pos[y] for x in A for y in list(B) + S1)
        if not okc:
            ctx.fail("C09:sample:large-tree", "a draw on a large tree is not a compatible order of all data points", {"clone_sizes": [a_, b_, 1, c_], "outliers": no_})
        # ... and the two top-level subtrees (and the outliers) are interleaved: with hundreds of points per block the
        # probability that a uniformly drawn compatible order keeps a block contiguous is astronomically small
        blockA = set(A) | set(B) | set(S1)
        def contiguous(order, block):
            idx = [i for i, x in enumerate(order) if x in block]
            return bool(idx) and idx[-1] - idx[0] + 1 == len(idx)
        n_contig = 0
        for _k in range(5):
            sg = [int(d.idx) for d in _RPD.sample(bt, _np.random.default_rng(ctx.rng.randrange(10**9)))]
            n_contig += int(contiguous(sg, blockA) or (len(O) >= 2 and contiguous(sg, set(O))))
        if n_contig and len(C) >= 2:
            ctx.fail("C09:sample:large-tree:not-interleaved", "in %d of 5 draws on a tree with clone sizes %s and %d outliers a whole top-level subtree (or the outlier set) occupies a contiguous stretch of the order: sibling subtrees / outliers are not interleaved" % (n_contig, [a_, b_, 1, c_], no_), {"clone_sizes": [a_, b_, 1, c_], "outliers": no_})
    # ---- correspondence: model vs implementation inside Coq
    header = "\n".join([
        "From PV Require Import Model.Perm Model.CaseUtil.", "Open Scope nat_scope.",
        "Definition chk (F : forest) (obs : list (list nat * Q)) (cnt : Q) : bool :=",
        "  set_eqb lnat_eqb (map fst obs) (forders F)",
        "  && forallb (fun p => qcclose (1#1000000000) (pmass (lnat_eqb (fst p)) (fsample F)) (snd p)) obs",
        "  && qcclose (1#1000000000) (fcount F) cnt.",
        "Definition chk_count (F : forest) (n : nat) (cnt : Q) : bool :=",
        "  Nat.eqb (length (forders F)) n && qcclose (1#1000000000) (fcount F) cnt."])
    items, idx = [], []
    budget = 160 if ctx.quick else 2000
    order = list(range(len(cases)))
    ctx.rng.shuffle(order)
    for ci in order:
        spec, dist, log_pdf = cases[ci]
        cnt = Fraction(math.exp(-log_pdf)).limit_denominator(10**6)
        if len(dist) <= 12 and len(items) < budget:
            obs = "; ".join("(%s, (%d#%d)%%Q)" % (nl(o), Fraction(p).limit_denominator(10**12).numerator, Fraction(p).limit_denominator(10**12).denominator) for o, p in sorted(dist.items()))
            items.append("chk %s [%s] (%d#%d)%%Q" % (coq_forest(spec), obs, cnt.numerator, cnt.denominator))
        else:
            items.append("chk_count %s %d (%d#%d)%%Q" % (coq_forest(spec), len(dist), cnt.numerator, cnt.denominator))
        idx.append(ci)
    ok, bad, detail = coq.coq_eval_bool_cases(ctx, "corr", header, items, shard=40)
    ctx.extra["coq_corr_cases"] = len(items)
    if not ok:
        ctx.broken_tie("C09 correspondence file did not evaluate", detail)
    else:
        ctx.obligation("corr_model_eq_impl_%d_cases" % len(items), not bad)
        if bad:
            ctx.broken[-1]["detail"] = {"failing_case_count": len(bad), "first": cases[idx[bad[0]]][0], "item": items[bad[0]][:400]}
    # ---- the order density used by the assembled particle-Gibbs theorem (Proofs/GrammarPG.v: gcden = uniform on the orders that
    # are compatible with the forest's relation table) against the implementation: exp(log_pdf) on a sampled order, 0 on an
    # order the sampler never draws
    from ..trees import coq_nat_list, coq_table, spec_table

    gitems, gidx = [], []
    for ci in order:
        spec, dist, log_pdf = cases[ci]
        pts = spec_points(spec)
        n = len(pts)
        if pts != list(range(n)) or n > 5 or len(gitems) >= (60 if ctx.quick else 400):
            continue
        tab = coq_table(spec_table(spec, n))
        drawn = sorted(dist)[ctx.rng.randrange(len(dist))]
        dens = Fraction(math.exp(log_pdf)).limit_denominator(10**6)
        it = "qcclose (1#1000000000) (gcden %d %s %s) (%d#%d)%%Q" % (n, nl(drawn), tab, dens.numerator, dens.denominator)
        never = [o for o in itertools.permutations(range(n)) if o not in dist]
        if never:
            it += " && Qc_eq_bool (gcden %d %s %s) 0" % (n, nl(never[ctx.rng.randrange(len(never))]), tab)
        it += " && Nat.eqb (gcount %d %s) %d" % (n, tab, len(dist))
        gitems.append(it)
        gidx.append(ci)
    ok, bad, detail = coq.coq_eval_bool_cases(ctx, "gcden", "From PV Require Import Model.CaseUtil Proofs.GrammarPG.\nOpen Scope nat_scope.", gitems, shard=20)
    ctx.extra["coq_order_density_cases"] = len(gitems)
    if not ok:
        ctx.broken_tie("C09 order-density correspondence file did not evaluate", detail)
    else:
        ctx.obligation("corr_assembly_order_density_eq_impl_%d_trees" % len(gitems), not bad)
        if bad:
            ctx.broken[-1]["detail"] = {"failing_case_count": len(bad), "first": cases[gidx[bad[0]]][0], "item": gitems[bad[0]][:400]}
    ctx.assumptions += [
        "numpy shuffle = uniform permutation (enumerated as all n! permutations)",
        "urn model of sentinel shuffle (Model/Perm.v header)",
    ]


def _tup(x):
    return tuple(_tup(y) for y in x) if isinstance(x, list) else x


def replay(ctx, doc):
    """./check C09 --replay file: re-run the recorded tree."""
    rp = doc.get("replay", {})
    if "tree" not in rp:
        ctx.log("nothing to replay in this file")
        print(doc)
        return
    spec = _tup(rp["tree"])
    vals = rational_values(ctx.rng, max(spec_points(spec)) + 1, 1, 3)
    spec, dist, npaths, log_pdf, brute, edited, inplace = _one_tree((spec, vals))
    nb = len(brute)
    for history, lp2, d2 in edited:
        bad2 = lp2 is None or abs(lp2 + math.log(nb)) > 1e-9 or (d2 is not None and (set(d2) != set(brute) or max(abs(p - 1.0 / nb) for p in d2.values()) > 1e-9))
        ctx.log("edited by %s: log_pdf %s%s" % (history, lp2, "  <-- fails" if bad2 else ""))
        if bad2:
            ctx.fail(doc.get("key", "C09:replay"), "replayed tree still fails after the edits %s" % (history,), rp)
    ctx.case(key="replay", nontrivial=True, sample={"tree": spec, "orders": nb, "log_pdf": log_pdf})
    ctx.log("replayed tree %r: %d compatible orders, %d drawn, log_pdf %.6f (expected %.6f)" % (spec, nb, len(dist), log_pdf, -math.log(nb)))
    if set(dist) != set(brute) or max(abs(p - 1.0 / nb) for p in dist.values()) > 1e-9 or abs(log_pdf + math.log(nb)) > 1e-9:
        ctx.fail(doc.get("key", "C09:replay"), "replayed tree still fails", rp)
