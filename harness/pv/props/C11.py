"""C11 - trace summaries pick the true maximum and count topologies exactly.

Synthetic multi-chain traces (repeated / relabelled / sibling-permuted copies of the same tree, score ties,
chains inserted into the results dict in every order) are written to real gzip-pickle files and processed by
the real write_map_results (both map types) and write_topology_report (+ archive, top_trees in {1, 2, all}).
Oracle: direct recomputation from the trace.  Model: coq/Model/TraceSummary.v through vm_compute."""
import itertools

from .. import coq
from .. import tracefiles as tf
from ..trees import all_specs, spec_nodes


def shape(node_or_nw, kids_of):
    return tuple(sorted(shape(k, kids_of) for k in kids_of(node_or_nw)))


def spec_shape(spec):
    return tuple(sorted(shape(r, lambda n: n[1]) for r in spec[0]))


def gen_trace(rng, specs, max_chains, quick):
    """{chain: [(score, spec, variant)]}: few distinct trees, many repeats, small integer scores (ties)."""
    n_chains = rng.randint(1, max_chains)
    pool = rng.sample(specs, rng.randint(1, 4))
    scores = [-1, -2, -3, -4] if rng.random() < 0.7 else [-2, -2, -3]
    chains = {}
    for c in range(n_chains):
        n = rng.randint(1, 4 if quick else 6)
        chains[c] = [(rng.choice(scores), rng.choice(pool), (rng.choice(["plain", "perm", "relabel"]), rng.randrange(10**6))) for _ in range(n)]
    return chains


def zs(z):
    return "(%d)" % int(z)


def examine(ctx, ti, chains, order, out):
    """Oracle for one (trace, chain order) and the Coq item for the model comparison."""
    point_of = {"m%d" % i: i for i in range(3)}
    entries = [(c, i, e[0], e[1]) for c in order for i, e in enumerate(chains[c])]
    n_entries = len(entries)
    ctx.case(key=(ti, order), nontrivial=n_entries >= 2, sample={"chains": {c: [(s, sp) for s, sp, _ in v] for c, v in chains.items()}, "order": order} if ti < 2 else None)
    ctx.count("chains=%d" % len(order))
    ctx.count("entries=%d" % n_entries)
    # ---- oracle from the trace itself
    classes = {}
    for c, i, s, sp in entries:
        d = classes.setdefault(sp, {"count": 0, "max": None, "arg": set()})
        d["count"] += 1
        if d["max"] is None or s > d["max"]:
            d["max"], d["arg"] = s, {(c, i)}
        elif s == d["max"]:
            d["arg"].add((c, i))
    gmax = max(s for _, _, s, _ in entries)
    cmax = max(d["count"] for d in classes.values())
    ties = sum(1 for d in classes.values() if d["max"] == gmax) > 1 or len({d["max"] for d in classes.values()}) < len(classes)
    ctx.count("classes=%d" % len(classes))
    ctx.count("score-tie-between-classes" if ties else "no-tie-between-classes")
    replay = {"chains": {c: [(s, sp, v) for s, sp, v in ch] for c, ch in chains.items()}, "order": list(order)}
    def bad(site, what, extra=None):
        r = dict(replay)
        r["observed"] = extra
        ctx.fail("C11:%s:chains=%d" % (site, len(order)), what, r)
    errs = [k for k, v in out.items() if "error" in v]
    for k in errs:
        bad("%s:%s:%s" % (k.split("/")[0], out[k]["where"], out[k]["error"]), "command %s raised %s: %s" % (k, out[k]["error"], out[k]["message"]), out[k])
    if errs:
        return None, None
    # MAP, joint-likelihood
    try:
        o = out["map/joint-likelihood"]
        sp_map = tf.spec_from_outputs(o["table"], tf.parse_newick(o["newick_text"]), point_of)
        if sp_map not in classes or classes[sp_map]["max"] != gmax:
            bad("write_map_results:joint-likelihood", "MAP tree is not a tree attaining the maximal log_p_one %s" % gmax, {"tree": sp_map})
        o = out["map/frequency"]
        spf = tf.spec_from_outputs(o["table"], tf.parse_newick(o["newick_text"]), point_of)
        if spf not in classes or classes[spf]["count"] != cmax:
            bad("write_map_results:frequency", "frequency-MAP tree does not have the maximal count %d" % cmax, {"tree": spf})
    except (ValueError, tf.NewickError) as e:
        bad("write_map_results:output", "MAP outputs inconsistent: %s" % e)
        return None, None
    # topology report (identical for the three top_trees values)
    rep = out["topo/all"]["report"]
    obs_rows = []
    okrep = True
    seen = set()
    for ri, r in enumerate(rep):
        if r["topology_id"] != "t_%d" % ri:
            bad("create_topology_dataframe:ids", "row %d has id %r" % (ri, r["topology_id"]), rep)
        c, i = r["chain_num"], r["iter"]
        if c not in chains or not (0 <= i < len(chains[c])):
            bad("count_topology:pointer", "pointer (%r, %r) is not an entry" % (c, i), rep)
            okrep = False
            continue
        s, sp, _ = chains[c][i]
        cl = classes[sp]
        if sp in seen:
            bad("count_topology:rows", "two rows for one tree", rep)
        seen.add(sp)
        if r["count"] != cl["count"]:
            bad("count_topology:count", "row count %r but the tree occurs %d times" % (r["count"], cl["count"]), rep)
        if float(r["log_p_joint_max"]) != float(cl["max"]) or (c, i) not in cl["arg"]:
            bad("count_topology:max", "row score %r / pointer (%r,%r): class maximum is %r attained at %r" % (r["log_p_joint_max"], c, i, cl["max"], sorted(cl["arg"])), rep)
        try:
            nw = tf.parse_newick(r["topology"])
            if tuple(sorted(shape(k, lambda n: n[1]) for k in nw[1])) != spec_shape(sp):
                bad("create_topology_dataframe:newick", "row Newick %r does not have the shape of the pointed tree" % r["topology"], rep)
        except tf.NewickError as e:
            bad("create_topology_dataframe:newick", str(e), rep)
        obs_rows.append((sp, r["count"], int(r["log_p_joint_max"])))
    if not okrep:
        return None, None
    if len(rep) != len(classes):
        bad("count_topology:rows", "%d rows for %d distinct trees" % (len(rep), len(classes)), rep)
    if sum(r["count"] for r in rep) != n_entries:
        bad("count_topology:count-sum", "counts sum to %d, trace has %d entries" % (sum(r["count"] for r in rep), n_entries), rep)
    sc = [r["log_p_joint_max"] for r in rep]
    if any(a < b for a, b in zip(sc, sc[1:])):
        bad("create_topology_dataframe:rank", "rows not ranked by score: %r" % sc, rep)
    # archives
    arch_obs = []
    for k in sorted({("all" if x.split("/")[1] == "all" else int(x.split("/")[1])) for x in out if x.startswith("topo/")}, key=str):
        o = out["topo/%s" % k]
        if o["report"] != rep:
            bad("write_topology_report:report", "report differs between top_trees values", None)
        want = len(rep) if k == "all" else min(k, len(rep))
        ids = sorted(o["archive"], key=lambda t: int(t[2:]))
        if ids != ["t_%d" % j for j in range(want)]:
            bad("create_topologies_archive:top_trees=%s" % k, "archive holds %r, requested the top %s of %d" % (ids, k, len(rep)), {"ids": ids})
            continue
        for j, t in enumerate(ids):
            a = o["archive"][t]
            try:
                spa = tf.spec_from_outputs(a["table"], tf.parse_newick(a["newick_text"]), point_of)
            except (ValueError, tf.NewickError, TypeError) as e:
                bad("create_topologies_archive:content", "archive entry %s inconsistent: %s" % (t, e), a)
                continue
            if j < len(obs_rows) and spa != obs_rows[j][0]:
                bad("create_topologies_archive:content", "archive entry %s is not the tree of report row %d" % (t, j), {"archive": spa, "row": obs_rows[j][0]})
        arch_obs.append((1000 if k == "all" else k, [row[2] for row in obs_rows[:want]]))
    # ---- model comparison item
    ids_of = {sp: n for n, sp in enumerate(sorted(classes))}
    tr = "[" + "; ".join("(%d%%nat, [%s])" % (c, "; ".join("(%s, %d%%nat)" % (zs(s), ids_of[sp]) for s, sp, _ in chains[c])) for c in order) + "]"
    rows = "[" + "; ".join("(%d%%nat, %d%%nat, %s)" % (ids_of[sp], cnt, zs(mx)) for sp, cnt, mx in obs_rows) + "]"
    arch = "[" + "; ".join("(%d%%nat, [%s])" % (k, "; ".join(zs(x) for x in l)) for k, l in arch_obs) + "]"
    item = "chk %s %s %s %d%%nat %s" % (tr, rows, zs(classes[sp_map]["max"] if sp_map in classes else gmax), classes[spf]["count"] if spf in classes else 0, arch)
    key = (frozenset((s_, c_, m_) for s_, c_, m_ in obs_rows), classes[sp_map]["max"] if sp_map in classes else None)
    return item, key


def run(ctx):
    coq.check_property_file(ctx)
    ctx.rule = (
        "seeded synthetic traces over 3 data points / 2 samples: 1-4 chains of 1-4 (thorough 1-6) entries drawn from a pool of 1-4 "
        "distinct trees (every tree with >= 1 clone, outlier subsets included) in plain / sibling-permuted / relabelled copies with "
        "integer scores from a 3-4 value set (ties within and across chains); each trace written once per insertion order of its "
        "chain keys (all orders; 4 chains: all 24 in thorough, 6 sampled in quick) to a gzip-pickle file and read by the real "
        "write_map_results (joint-likelihood, frequency) and write_topology_report with archive, top_trees in {1, 2, all}; "
        "non-trivial = a trace with >= 2 entries; distinct = (trace, chain order)"
    )
    ctx.exhaustive = False
    specs = [s for s in all_specs(range(3), outliers=True) if s[0]]  # all-outlier trees crash the table writer: C12's finding
    n_traces = 250 if ctx.quick else 2000
    cmds = [("map", "joint-likelihood"), ("map", "frequency"), ("topo", 1), ("topo", 2), ("topo", "all")]
    jobs, meta = [], []
    for ti in range(n_traces):
        chains = gen_trace(ctx.rng, specs, 4, ctx.quick)
        keys = sorted(chains)
        orders = list(itertools.permutations(keys))
        if len(keys) == 4 and ctx.quick:
            orders = ctx.rng.sample(orders, 6)
        for order in orders:
            jobs.append({"n_points": 3, "n_samples": 2, "chains": chains, "order": list(order), "cmds": cmds})
            meta.append((ti, chains, order))
    # wide traces: more than ten chains (chain numbers of different digit counts, stored in completion order) and long chains
    for wi in range(6 if ctx.quick else 40):
        n_chains = ctx.rng.randint(11, 14)
        pool = ctx.rng.sample(specs, ctx.rng.randint(2, 4))
        chains = {c: [(ctx.rng.choice([-1, -2, -3, -4, -5]), ctx.rng.choice(pool), (ctx.rng.choice(["plain", "perm", "relabel"]), ctx.rng.randrange(10**6))) for _ in range(ctx.rng.randint(1, 2))] for c in range(n_chains)}
        if wi % 3 == 0:
            chains[ctx.rng.randrange(n_chains)] = [(ctx.rng.choice([-1, -2, -3]), ctx.rng.choice(pool), ("perm", ctx.rng.randrange(10**6))) for _ in range(ctx.rng.randint(260, 300) if wi == 0 else 40)]
        if wi % 2 == 1:
            # scores of large magnitude that differ in the last digits (log densities of data sets with thousands of mutations):
            # "is larger" must not be decided up to a relative tolerance
            base_sc = -ctx.rng.choice([200000000, 73000000, 9100000])
            chains = {c: [(base_sc - ctx.rng.randint(0, 6), sp, var) for (_, sp, var) in v] for c, v in chains.items()}
        for _ in range(2):
            order = list(chains)
            ctx.rng.shuffle(order)
            jobs.append({"n_points": 3, "n_samples": 2, "chains": chains, "order": list(order), "cmds": cmds})
            meta.append((n_traces + wi, chains, tuple(order)))
    # many distinct topologies (more than ten: ranks / ids of different digit counts) with cut-offs between 3 and the number of
    # topologies for the archive
    cmds_many = [("map", "joint-likelihood"), ("map", "frequency"), ("topo", 3), ("topo", 5), ("topo", 11), ("topo", "all")]
    for mi in range(3 if ctx.quick else 20):
        pool = ctx.rng.sample(specs, ctx.rng.randint(12, 16))
        scs = ctx.rng.sample(range(-60, -1), len(pool))
        ents = [(scs[j], sp, (ctx.rng.choice(["plain", "perm", "relabel"]), ctx.rng.randrange(10**6))) for j, sp in enumerate(pool)]
        ents += [(scs[j] - 1, pool[j], ("perm", ctx.rng.randrange(10**6))) for j in ctx.rng.sample(range(len(pool)), 4)]
        ctx.rng.shuffle(ents)
        cut = ctx.rng.randint(3, len(ents) - 3)
        chains = {0: ents[:cut], 1: ents[cut:]}
        order = ctx.rng.choice([[0, 1], [1, 0]])
        jobs.append({"n_points": 3, "n_samples": 2, "chains": chains, "order": list(order), "cmds": cmds_many})
        meta.append((n_traces + 1000 + mi, chains, tuple(order)))
    ctx.log("%d trace files (%d base traces)" % (len(jobs), n_traces))
    outs = tf.run_jobs(jobs, workers=4)
    ctx.log("commands done")
    items_coq = []
    per_trace_keys = {}
    for (ti, chains, order), out in zip(meta, outs):
        item, key = examine(ctx, ti, chains, order, out)
        if item is not None:
            items_coq.append(item)
            per_trace_keys.setdefault(ti, []).append(key)
    # schedule independence observed on the implementation: same rows and MAP score for every chain order
    for ti, lst in per_trace_keys.items():
        if len(set(lst)) > 1:
            ctx.fail("C11:chain-order:rows-differ", "report rows / MAP score depend on the chain insertion order", {"trace": ti, "variants": [sorted(map(str, a)) for a, _ in lst]})
    header = "\n".join([
        "From PV Require Import Model.TraceSummary Model.CaseUtil.",
        "Local Open Scope Z_scope.",
        "Definition key_eqb (a b : nat * nat * Z) : bool :=",
        "  Nat.eqb (fst (fst a)) (fst (fst b)) && Nat.eqb (snd (fst a)) (snd (fst b)) && Z.eqb (snd a) (snd b).",
        "Definition chk (tr : trace) (rows : list (nat * nat * Z)) (mapsc : Z) (freqc : nat) (arch : list (nat * list Z)) : bool :=",
        "  set_eqb key_eqb (map row_key (report tr)) rows",
        "  && Nat.eqb (length (report tr)) (length rows)",
        "  && list_eqb Z.eqb (map rmax (report tr)) (map snd rows)",
        "  && match map_scan tr with Some b => Z.eqb (iscore b) mapsc | None => false end",
        "  && match freq_mode tr with Some r => Nat.eqb (rcount r) freqc | None => false end",
        "  && forallb (fun p => list_eqb Z.eqb (map rmax (archive (fst p) tr)) (snd p)) arch.",
    ])
    ok, badi, detail = coq.coq_eval_bool_cases(ctx, "corr", header, items_coq, shard=100, workers=4)
    ctx.extra["coq_corr_cases"] = len(items_coq)
    if not ok:
        ctx.broken_tie("C11 correspondence file did not evaluate", detail)
    else:
        ctx.obligation("corr_model_eq_impl_%d_cases" % len(items_coq), not badi)
        if badi:
            ctx.broken[-1]["detail"] = {"failing_case_count": len(badi), "item": items_coq[badi[0]][:600]}
    ctx.assumptions += [
        "tree identity is an abstract key in the model; the harness assigns keys by its own canonical form (clades + outliers), so Tree.__eq__/__hash__ are exercised but their adequacy in general is C03's statement",
        "scores are integers (no float rounding ties); NaN scores are outside the model",
        "pandas sort order among equal keys is unspecified: rows and the frequency-mode choice are compared up to the order of tied rows; pointers are checked against the trace (must attain the class maximum), not compared with the model's tie choice",
        "the results dict has a chain 0 (results[0]['data'] is read unconditionally) and every chain holds >= 1 entry, as run.py produces",
    ]


CMDS = [("map", "joint-likelihood"), ("map", "frequency"), ("topo", 1), ("topo", 2), ("topo", "all")]


def replay(ctx, doc):
    """Re-run exactly the recorded trace (chains + insertion order) through the real commands."""
    r = doc["replay"]
    chains = {int(c): [(s, tf.tuplify(sp), tf.tuplify(v)) for s, sp, v in ch] for c, ch in r["chains"].items()}
    order = [int(c) for c in r["order"]]
    out = tf.run_job({"n_points": 3, "n_samples": 2, "chains": chains, "order": order, "cmds": CMDS})
    print("replay:", {k: (v if "error" in v else "ok") for k, v in out.items()})
    examine(ctx, 0, chains, tuple(order), out)
