"""C05 - emission likelihood grids implement the PyClone mutation model.

Three parts (DEV.md):
  * obligations: coq/Properties/C05.v (binomial theorem, Chu-Vandermonde, evaf bounds, mixture normalisation,
    cluster product, outlier terms);
  * correspondence: real `load_data` on generated TSV/CSV files vs (a) the Coq model evaluated by vm_compute on
    small depths and (b) an independent exact-rational (Fraction / big-int) implementation for depths up to 1e4;
  * property-level oracle on the implementation alone: for a fixed depth the grid entries summed over all
    alternate counts are 1 at every grid point; a clustered data point equals the sum of its members' grids and
    its outlier terms are size * log p, size * log(1-p).
"""
import math
import os
import shutil
from fractions import Fraction

import numpy as np

from .. import coq
from .. import tables as T

ERRS = ["0.0001", "0.001", "0.2", "0.49"]
TCS = ["0.05", "0.3", "1.0"]
PRECISIONS = ["0.5", "10", "400", "10000"]


# ---------------------------------------------------------------------------------------------------------
# independent exact model (not derived from the Coq text; integers only inside the products)
# ---------------------------------------------------------------------------------------------------------
def py_genotypes(major, minor, normal, err):
    total = major + minor
    out = []
    for x in range(1, major + 1):
        out.append(((normal, normal, total), (err, err, min(1 - err, Fraction(x, total)))))
    after = (normal, total, total)
    if after not in [g[0] for g in out]:
        out.append((after, (err, err, min(1 - err, Fraction(1, total)))))
    return out


def py_evaf(g, t, f):
    cn, mu = g
    w = (1 - t, t * (1 - f), t * f)
    num = sum(w[i] * cn[i] * mu[i] for i in range(3))
    den = sum(w[i] * cn[i] for i in range(3))
    return num / den


def _rising_parts(a, k):
    """rising(a, k) = prod_{j<k} (a + j) as (integer numerator, q, k): value = num / q**k."""
    p, q = a.numerator, a.denominator
    num = 1
    for j in range(k):
        num *= p + j * q
    return num, q


def py_pmf(dens, s, n, x, e):
    """exact pmf as a Fraction."""
    c = math.comb(n, x)
    if dens == "binomial":
        return c * e**x * (1 - e) ** (n - x)
    a = e * s
    b = s - a
    na, qa = _rising_parts(a, x)
    nb, qb = _rising_parts(b, n - x)
    nab, qab = _rising_parts(a + b, n)
    return Fraction(c * na * nb * qab**n, qa**x * qb ** (n - x) * nab)


def py_mixture(dens, s, gs, t, f, n, x):
    return sum(py_pmf(dens, s, n, x, py_evaf(g, t, f)) for g in gs) / len(gs)


def flog(q):
    """log of a positive Fraction with huge numerator/denominator."""
    return math.log(q.numerator) - math.log(q.denominator)


# ---------------------------------------------------------------------------------------------------------
# configurations
# ---------------------------------------------------------------------------------------------------------
def cn_states(maxcn=6):
    return [(M, m) for M in range(1, maxcn + 1) for m in range(0, M + 1)]


def random_sample_cfg(rng, maxcn=6):
    M, m = rng.choice(cn_states(maxcn))
    normal = rng.choice([1, 2, 2, 2, M + m])  # M+m: the "already in cn" branch
    return {"major": M, "minor": m, "normal": normal, "t": rng.choice(TCS), "err": rng.choice(ERRS)}


def cover_cfgs(rng):
    """every copy-number state, tumour content and error rate at least once."""
    out = []
    for M, m in cn_states():
        for normal in (1, 2):
            out.append({"major": M, "minor": m, "normal": normal, "t": rng.choice(TCS), "err": rng.choice(ERRS)})
    for t in TCS:
        for err in ERRS:
            M, m = rng.choice(cn_states())
            out.append({"major": M, "minor": m, "normal": 2, "t": t, "err": err})
    rng.shuffle(out)
    return out


def depth_rows(cfgs, n, mut_prefix="d"):
    """n+1 mutations (alt = 0..n at depth n) in len(cfgs) samples."""
    rows = []
    for b in range(n + 1):
        for si, c in enumerate(cfgs):
            rows.append(T.row("%s%05d" % (mut_prefix, b), "S%d" % si, n - b, b, c["major"], c["minor"], c["normal"], c["t"], c["err"]))
    return rows


def model_log(dens, prec, c, G, i, n, x):
    err, t = T.frac(c["err"]), T.frac(c["t"])
    gs = py_genotypes(c["major"], c["minor"], c["normal"], err)
    f = Fraction(i, G - 1) if G > 1 else Fraction(0)
    s = T.frac(prec) if dens == "beta-binomial" else None
    return flog(py_mixture(dens, s, gs, t, f, n, x))


def coq_density(dens, prec):
    return "Binomial" if dens == "binomial" else "(BetaBinomial %s)" % T.coq_q(prec)


def coq_sdp(c, ref, alt):
    return "(mkS %d %d (genotypes %d %d %d %s) %s)" % (ref, alt, c["major"], c["minor"], c["normal"], T.coq_q(c["err"]), T.coq_q(c["t"]))


HEADER = "\n".join(
    [
        "From PV Require Import Model.Emission Model.CaseUtil.",
        "Open Scope nat_scope.",
        "(* |model - obs| <= tol * |obs| : purely relative *)",
        "Definition qrel (tol : Q) (a : Qc) (b : Q) : bool := Qle_bool (qabs (this a - b)) (tol * qabs b)%Q.",
        "Definition tol := (1 # 1000000000)%Q.",
        "Definition chk_entry (d : density) (G i : nat) (sd : sdp) (obs : Q) : bool :=",
        "  match sample_grid_opt d G sd with Some g => qrel tol (nth i g 0%Qc) obs | None => false end.",
        "Definition chk_cluster (d : density) (G s i : nat) (members : list (list sdp)) (obs : Q) : bool :=",
        "  qrel tol (entry (cluster_grid (map (point_grid d G) members)) s i) obs.",
        "Definition chk_outlier (glob : Qc) (col : option Qc) (size : nat) (o1 o2 : Q) : bool :=",
        "  let r := outlier_terms (cluster_p glob col) size in qrel tol (fst r) o1 && qrel tol (snd r) o2.",
        "Definition chk_ngeno (major minor normal : nat) (err : Qc) (k : nat) : bool :=",
        "  Nat.eqb (length (genotypes major minor normal err)) k.",
    ]
)


def run(ctx):
    from phyclone.data.pyclone import get_major_cn_prior

    coq.check_property_file(ctx)
    rng = ctx.rng
    quick = ctx.quick
    ctx.rule = (
        "generated TSV/CSV tables loaded by the real load_data: per file 1-2 samples with independent copy-number state "
        "(major 1..6, minor 0..major, normal 1/2/total), tumour content {0.05,0.3,1}, error rate {1e-4,1e-3,0.2,0.49}, "
        "binomial or beta-binomial with precision {0.5,10,400,1e4}, grid size 2..101, one mutation per alternate count "
        "0..n at depth n (0..60, 1000, 10000): (i) sum over alternate counts of exp(grid) = 1 at every grid point, "
        "(ii) sampled entries vs an exact-rational model, (iii) depth <= 12 entries vs the Coq model by vm_compute, "
        "(iv) clustered files: data point = sum of members' grids, outlier terms = size*log p / size*log(1-p); "
        "non-trivial = depth >= 1; distinct = (copy-number states, t, err, density, precision, grid, depth)"
    )
    ctx.exhaustive = False
    tmp = T.tmpdir(ctx, "tables")
    coq_items, coq_meta = [], []
    max_norm_dev = 0.0
    max_log_dev = 0.0

    # ---------------------------------------------------------------- unclustered sweep
    covers = cover_cfgs(rng)
    n_files = 160 if quick else 2400
    small_depths = list(range(0, 13))
    depth_pool = list(range(0, 61))
    dens_pool = [("binomial", None)] + [("beta-binomial", p) for p in PRECISIONS]
    grid_pool = list(range(2, 102))
    plans = []
    for k in range(n_files):
        nsamp = 1 + (k % 2)
        cfgs = [covers[(2 * k + j) % len(covers)] if k < len(covers) else random_sample_cfg(rng) for j in range(nsamp)]
        dens, prec = dens_pool[k % len(dens_pool)]
        if k % 4 == 0:
            n = rng.choice(small_depths)
            G = rng.choice([2, 3, 4, 5, 7])
        else:
            n = rng.choice(depth_pool)
            G = rng.choice(grid_pool)
        plans.append((cfgs, dens, prec, G, n, "\t" if k % 3 else ","))
    # the boundary depths and extreme depths
    for n in (0, 1, 60):
        plans.append(([random_sample_cfg(rng)], "beta-binomial", "400", 101, n, "\t"))
        plans.append(([random_sample_cfg(rng)], "binomial", None, 101, n, "\t"))
    deep = [(1000, "beta-binomial", "400", 11), (1000, "binomial", None, 5)] if quick else [
        (1000, "beta-binomial", "0.5", 11), (1000, "beta-binomial", "10", 11), (1000, "beta-binomial", "400", 21),
        (1000, "beta-binomial", "10000", 11), (1000, "binomial", None, 11), (10000, "beta-binomial", "400", 5),
        (10000, "beta-binomial", "10000", 3), (10000, "beta-binomial", "0.5", 3), (10000, "binomial", None, 5)]
    for n, dens, prec, G in deep:
        plans.append(([random_sample_cfg(rng)], dens, prec, G, n, "\t"))

    # rows that share a copy-number state but differ in error rate / tumour content (per-row parameters must not be
    # shared between rows): every entry of these files is compared
    for dens, prec in (("binomial", None), ("beta-binomial", "400")):
        M, m = rng.choice([(2, 1), (3, 1), (2, 2)])
        plans.append(([{"major": M, "minor": m, "normal": 2, "t": t, "err": e} for t, e in (("1", "0.001"), ("0.3", "0.2"), ("1", "0.0001"), ("0.05", "0.49"))],
                      dens, prec, 5, rng.choice([4, 6]), "\t"))

    for k, (cfgs, dens, prec, G, n, sep) in enumerate(plans):
        path = os.path.join(tmp, "u%04d.%s" % (k, "tsv" if sep == "\t" else "csv"))
        rows = depth_rows(cfgs, n)
        rng.shuffle(rows)
        T.write_table(path, rows, sep=sep)
        kw = {"density": dens, "grid_size": G}
        if prec is not None:
            kw["precision"] = float(prec)
        try:
            data, samples, _ = T.load(path, **kw)
        except Exception as e:  # noqa: BLE001
            ctx.fail("C05:load_data:exception:%s" % type(e).__name__, "load_data raised %r inside the property's quantifier" % (e,), {"rows": rows[:50], "kw": kw, "cfgs": cfgs})
            continue
        key = (tuple(sorted(tuple(sorted(c.items())) for c in cfgs)), dens, prec, G, n)
        ctx.case(key=key, nontrivial=n >= 1, sample={"cfgs": cfgs, "density": dens, "precision": prec, "grid": G, "depth": n})
        ctx.count("density=%s" % dens + ("/s=%s" % prec if prec else ""))
        ctx.count("depth=%s" % ("0" if n == 0 else "1-12" if n <= 12 else "13-60" if n <= 60 else str(n)))
        ctx.count("grid=%s" % ("2-5" if G <= 5 else "6-50" if G <= 50 else "51-101"))
        for c in cfgs:
            ctx.count("major=%d" % c["major"])
            ctx.count("t=%s" % c["t"])
            ctx.count("err=%s" % c["err"])
            ctx.count("normal=%s" % ("total" if c["normal"] == c["major"] + c["minor"] else c["normal"]))
        if len(data) != n + 1 or list(samples) != ["S%d" % i for i in range(len(cfgs))]:
            ctx.broken_tie("C05 harness: loaded %d data points / samples %r for depth %d" % (len(data), samples, n), {"file": path})
            continue
        by_alt = {int(str(d.name)[1:]): d for d in data}
        vals = np.array([by_alt[b].value for b in range(n + 1)])  # (n+1, S, G)
        if vals.shape != (n + 1, len(cfgs), G) or not np.all(np.isfinite(vals)):
            ctx.fail("C05:to_likelihood_grid:shape_or_nonfinite", "grid has shape %r / non-finite entries" % (vals.shape,), {"cfgs": cfgs, "kw": kw, "depth": n})
            continue
        # (i) the property-level oracle on the implementation alone
        tot = np.exp(vals).sum(axis=0)
        dev = float(np.abs(tot - 1).max())
        max_norm_dev = max(max_norm_dev, dev)
        if dev > 1e-9:
            s_i, g_i = np.unravel_index(np.abs(tot - 1).argmax(), tot.shape)
            ctx.fail(
                "C05:to_likelihood_grid:sum_over_alt_counts:%s" % dens,
                "sum over alt counts 0..%d of exp(grid) = %.12g at sample %d grid point %d" % (n, tot[s_i, g_i], s_i, g_i),
                {"cfg": cfgs[s_i], "density": dens, "precision": prec, "grid_size": G, "depth": n, "sum": float(tot[s_i, g_i])},
            )
        # (ii) sampled entries against the exact-rational model
        n_ent = (6 if quick else 12) if n <= 60 else (3 if n <= 1000 else 2)
        tol = 1e-9 if n < 1000 else 1e-8
        shared_cn = len({(c["major"], c["minor"], c["normal"]) for c in cfgs}) < len(cfgs)
        if shared_cn and n <= 12 and G <= 7:
            entries = [(si, i, x) for si in range(len(cfgs)) for i in range(G) for x in range(n + 1)]
        else:
            entries = []
            for _ in range(n_ent):
                entries.append((rng.randrange(len(cfgs)), rng.choice([0, G - 1, rng.randrange(G)]), rng.choice([0, n, rng.randrange(n + 1)])))
        for (si, i, x) in entries:
            ml = model_log(dens, prec, cfgs[si], G, i, n, x)
            il = float(vals[x, si, i])
            ctx.case(n=1, nontrivial=False)
            max_log_dev = max(max_log_dev, abs(ml - il))
            if abs(ml - il) > tol:
                ctx.fail(
                    "C05:to_likelihood_grid:entry:%s" % dens,
                    "grid entry %.15g but the PyClone mixture gives %.15g (log domain)" % (il, ml),
                    {"cfg": cfgs[si], "density": dens, "precision": prec, "grid_size": G, "grid_index": i, "ref": n - x, "alt": x, "impl": il, "model": ml},
                )
        # (iii) small depths: Coq model
        if n <= 12 and G <= 7 and len(coq_items) < (300 if quick else 3000):
            for _ in range(4):
                si = rng.randrange(len(cfgs))
                i = rng.randrange(G)
                x = rng.randrange(n + 1)
                obs = Fraction(math.exp(float(vals[x, si, i])))
                if obs == 0:
                    continue
                coq_items.append("chk_entry %s %d %d %s %s" % (coq_density(dens, prec), G, i, coq_sdp(cfgs[si], n - x, x), T.coq_Q(obs)))
                coq_meta.append({"cfg": cfgs[si], "density": dens, "precision": prec, "grid": G, "i": i, "ref": n - x, "alt": x})
    ctx.extra["max_abs_dev_of_sum_over_alt_counts"] = max_norm_dev
    ctx.extra["max_log_dev_vs_exact_model"] = max_log_dev
    ctx.log("unclustered sweep done: %d files, max |sum-1| %.3g, max log dev %.3g" % (len(plans), max_norm_dev, max_log_dev))

    # ---------------------------------------------------------------- genotype enumeration, direct
    for M, m in cn_states():
        for normal in sorted({1, 2, 3, M + m}):
            cn, mu, log_pi = get_major_cn_prior(M, m, normal, error_rate=0.2)
            gs = py_genotypes(M, m, normal, Fraction(1, 5))
            ok = [tuple(int(v) for v in r) for r in cn] == [g[0] for g in gs] and np.allclose(mu, [[float(v) for v in g[1]] for g in gs], rtol=1e-12, atol=0) and np.allclose(np.exp(log_pi), 1.0 / len(gs), rtol=1e-12)
            ctx.case(key=("geno", M, m, normal), nontrivial=True)
            if not ok:
                ctx.fail("C05:get_major_cn_prior:genotypes", "genotype list differs from the PyClone enumeration", {"major": M, "minor": m, "normal": normal, "cn": cn.tolist(), "mu": mu.tolist()})
            coq_items.append("chk_ngeno %d %d %d %s %d" % (M, m, normal, T.coq_q("0.2"), len(cn)))
            coq_meta.append({"geno": (M, m, normal)})

    # ---------------------------------------------------------------- clustered files
    n_cl = 30 if quick else 400
    for k in range(n_cl):
        nsamp = rng.choice([1, 2, 3])
        nmut = rng.randint(2, 7)
        ncl = rng.randint(1, min(3, nmut))
        dens, prec = rng.choice(dens_pool)
        small = k % 2 == 0
        G = rng.choice([2, 3, 5]) if small else rng.choice(grid_pool)
        muts = ["m%d" % j for j in range(nmut)]
        cl_ids = rng.sample([0, 1, 2, 5, 10, 11], ncl)
        assign = {mm: (cl_ids[j] if j < ncl else rng.choice(cl_ids)) for j, mm in enumerate(muts)}
        scfg = [random_sample_cfg(rng) for _ in range(nsamp)]  # t / err per sample
        rows, cfg_of = [], {}
        # every third file: mutations with IDENTICAL content (same counts, copy numbers, purity in every sample) - inside one
        # cluster and across clusters - as real data has them; a grid shared between such mutations must not be altered by the
        # cluster sums
        dup_of = {}
        if k % 3 == 0 and nmut >= 3:
            for mm in muts[1:]:
                if rng.random() < 0.6:
                    dup_of[mm] = rng.choice([x for x in muts[: muts.index(mm)] if x not in dup_of])
        for mm in muts:
            for si in range(nsamp):
                if mm in dup_of:
                    c, ref_, x = cfg_of[(dup_of[mm], si)]
                    cfg_of[(mm, si)] = (c, ref_, x)
                    rows.append(T.row(mm, "S%d" % si, ref_, x, c["major"], c["minor"], c["normal"], c["t"], c["err"]))
                    continue
                M, m = rng.choice(cn_states(4))
                c = {"major": M, "minor": m, "normal": rng.choice([1, 2, 2]), "t": scfg[si]["t"], "err": scfg[si]["err"]}
                n = rng.randint(0, 12) if small else rng.randint(0, 60)
                x = rng.randint(0, n)
                cfg_of[(mm, si)] = (c, n - x, x)
                rows.append(T.row(mm, "S%d" % si, n - x, x, M, m, c["normal"], c["t"], c["err"]))
        if dup_of:
            ctx.count("clustered:files_with_identical_mutations")
        rng.shuffle(rows)
        path = os.path.join(tmp, "c%04d.tsv" % k)
        T.write_table(path, rows)
        glob = rng.choice(["0.0001", "0.1", "0.5", "0"])
        col = None
        if k % 3 == 1:
            col = {c: rng.choice(["0.0", "0.2", "0.01"]) for c in cl_ids}  # decimals: an all-integer column is int64 and pandas 3 refuses the float default
        cpath = os.path.join(tmp, "c%04d_clusters.tsv" % k)
        T.write_clusters(cpath, assign, outlier_probs=col, per_sample=["S%d" % i for i in range(nsamp)] if k % 4 == 3 else None, order=rng.sample(muts, len(muts)))
        kw = {"density": dens, "grid_size": G, "outlier_prob": float(glob)}
        if prec is not None:
            kw["precision"] = float(prec)
        try:
            cdata, _, _ = T.load(path, cluster_file=cpath, **kw)
            udata, _, _ = T.load(path, **kw)
        except Exception as e:  # noqa: BLE001
            ctx.fail("C05:load_data:clustered:exception:%s" % type(e).__name__, "load_data raised %r" % (e,), {"rows": rows, "assign": assign, "kw": kw})
            continue
        ctx.case(key=("cl", k, dens, prec, G, nsamp, nmut, ncl), nontrivial=nmut > ncl, sample={"clusters": assign, "density": dens, "grid": G, "outlier_prob": glob, "column": col})
        ctx.count("clustered:members_max=%d" % max(list(assign.values()).count(c) for c in cl_ids))
        uval = {str(d.name): d.value for d in udata}
        for d in cdata:
            cid = int(d.name)
            members = [mm for mm in muts if assign[mm] == cid]
            want = np.sum([uval[mm] for mm in members], axis=0)
            if d.value.shape != want.shape or float(np.abs(d.value - want).max()) > 1e-9 * max(1.0, float(np.abs(want).max())):
                ctx.fail("C05:_create_clustered_data_arr:value", "cluster data point is not the sum of its members' log grids", {"rows": rows, "assign": assign, "cluster": cid, "kw": kw})
            # outlier terms
            g, cc = float(glob), (float(col[cid]) if col is not None else None)
            p = 0.0 if g == 0 else (g if cc is None or cc == 0 else cc)
            size = len(members)
            want_o = (0.0, 0.0) if p == 0 else (math.log(p) * size, math.log1p(-p) * size)
            if abs(d.outlier_prob - want_o[0]) > 1e-9 * max(1, abs(want_o[0])) or abs(d.outlier_prob_not - want_o[1]) > 1e-9 * max(1, abs(want_o[1])):
                ctx.fail("C05:compute_outlier_prob:cluster:all_members_loaded", "outlier terms (%.12g, %.12g) but size*log p, size*log(1-p) = (%.12g, %.12g)" % (d.outlier_prob, d.outlier_prob_not, want_o[0], want_o[1]), {"rows": rows, "assign": assign, "cluster": cid, "global": glob, "column": col})
            if len(coq_items) < (400 if quick else 6000):
                coq_items.append("chk_outlier %s %s %d %s %s" % (T.coq_q(glob), "None" if col is None else "(Some %s)" % T.coq_q(col[cid]), size, T.coq_Q(Fraction(math.exp(d.outlier_prob))), T.coq_Q(Fraction(math.exp(d.outlier_prob_not)))))
                coq_meta.append({"outlier": (glob, col, size)})
                if small:
                    si, i = rng.randrange(nsamp), rng.randrange(G)
                    obs = Fraction(math.exp(float(d.value[si, i])))
                    if obs > 0:
                        mem = "[" + "; ".join("[" + "; ".join(coq_sdp(*cfg_of[(mm, s2)]) for s2 in range(nsamp)) + "]" for mm in members) + "]"
                        coq_items.append("chk_cluster %s %d %d %d %s %s" % (coq_density(dens, prec), G, si, i, mem, T.coq_Q(obs)))
                        coq_meta.append({"cluster": cid, "assign": assign, "rows": rows, "kw": kw, "s": si, "i": i})
        # unclustered outlier terms (size 1)
        for d in udata:
            g = float(glob)
            want_o = (0.0, 0.0) if g == 0 else (math.log(g), math.log1p(-g))
            if abs(d.outlier_prob - want_o[0]) > 1e-9 * max(1, abs(want_o[0])) or abs(d.outlier_prob_not - want_o[1]) > 1e-12 + 1e-9 * abs(want_o[1]):
                ctx.fail("C05:compute_outlier_prob:single", "per-mutation outlier terms differ from log p / log(1-p)", {"global": glob, "got": (float(d.outlier_prob), float(d.outlier_prob_not))})

    # ---------------------------------------------------------------- cluster file naming mutations the loader dropped
    for variant in ("member_dropped_by_filter", "member_absent_from_table"):
        rows = []
        for mm in ("m0", "m1", "m2"):
            for s in ("S0", "S1"):
                if variant == "member_dropped_by_filter" and mm == "m1" and s == "S1":
                    rows.append(T.row(mm, s, 10, 5, 0, 0, 2))  # major copy number 0 in S1 -> m1 is dropped entirely
                elif variant == "member_absent_from_table" and mm == "m1":
                    continue
                else:
                    rows.append(T.row(mm, s, 10, 5, 2, 1, 2))
        path = os.path.join(tmp, "drop_%s.tsv" % variant)
        T.write_table(path, rows)
        cpath = os.path.join(tmp, "drop_%s_clusters.tsv" % variant)
        assign = {"m0": 0, "m1": 0, "m2": 1}
        T.write_clusters(cpath, assign)
        try:
            cdata, _, _ = T.load(path, cluster_file=cpath, grid_size=5, outlier_prob=0.1)
            udata, _, _ = T.load(path, grid_size=5, outlier_prob=0.1)
        except Exception as e:  # noqa: BLE001
            ctx.fail("C05:load_data:clustered:exception:%s" % type(e).__name__, "load_data raised %r" % (e,), {"rows": rows, "assign": assign})
            continue
        ctx.case(key=("cl-drop", variant), nontrivial=True)
        ctx.count("clustered:%s" % variant)
        d0 = [d for d in cdata if str(d.name) == "0"][0]
        loaded = [str(d.name) for d in udata if assign[str(d.name)] == 0]
        want = (math.log(0.1) * len(loaded), math.log1p(-0.1) * len(loaded))
        if abs(d0.outlier_prob - want[0]) > 1e-9 or abs(d0.outlier_prob_not - want[1]) > 1e-9:
            ctx.fail(
                "C05:_create_clustered_data_arr:cluster_size:%s" % variant,
                "cluster 0 is the sum of %d member grid(s) (%s) but its outlier terms use size %.3g: (%.6g, %.6g) instead of (%.6g, %.6g)"
                % (len(loaded), ",".join(loaded), d0.outlier_prob / math.log(0.1), d0.outlier_prob, d0.outlier_prob_not, want[0], want[1]),
                {"table_rows": rows, "cluster_file": assign, "loaded_members_of_cluster_0": loaded, "outlier_prob": 0.1,
                 "observed": [float(d0.outlier_prob), float(d0.outlier_prob_not)], "expected": list(want),
                 "call": "phyclone.data.pyclone.load_data(table, rng, 0.0001, 0.4, False, cluster_file=..., grid_size=5, outlier_prob=0.1)"},
            )

    # ---------------------------------------------------------------- outside the quantifier: normal_cn = 0 (documented guard)
    path = os.path.join(tmp, "normal0.tsv")
    T.write_table(path, [T.row("m0", "S0", 5, 3, 2, 1, 0)])
    kind, _, _ = T.load_outcome(path, grid_size=3)
    ctx.extra["normal_cn_0_pure_tumour_outcome"] = kind
    ctx.obligation("corr_normal0_matches_model_None", kind == "ZeroDivisionError", kind)

    # ---------------------------------------------------------------- Coq correspondence
    ok, bad, detail = coq.coq_eval_bool_cases(ctx, "corr", HEADER, coq_items, shard=40, workers=4)
    ctx.extra["coq_corr_cases"] = len(coq_items)
    if not ok:
        ctx.broken_tie("C05 correspondence file did not evaluate", detail)
    else:
        ctx.obligation("corr_model_eq_impl_%d_cases" % len(coq_items), not bad)
        if bad:
            ctx.broken[-1]["detail"] = {"failing_case_count": len(bad), "first": coq_meta[bad[0]], "item": coq_items[bad[0]][:600]}
    ctx.assumptions += [
        "Gamma(a+k)/Gamma(a) = rising a k (the lgamma differences in log_beta_binomial_pdf) - standard identity, validated numerically against the implementation, not proved in Coq (no Gamma function in the model)",
        "np.linspace(0,1,G)[i] = i/(G-1) and float rounding of e_vaf are below the 1e-9 tolerance",
        "'cluster size' in the statement is read as the number of member mutations whose grids are summed into the data point",
        "outlier_prob = 0 is the documented 'outliers off' switch: the code stores (0, log 1); not compared with log 0",
        "evaf lower bound proved is min(err, 1/total), not err (DESIGN's interval fails for err > 1/total; Example evaf_in_err_interval_refuted)",
    ]
    shutil.rmtree(tmp, ignore_errors=True)
