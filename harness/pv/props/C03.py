"""C03 - the joint log-density implements the FS-CRP model and depends only on the tree.

Property-level search (independent of the Coq model):
  * every canonical tree over <= 4 data points with every outlier subset, plus seeded random larger ones, is built through
    several construction histories / sibling orders / labellings; all builds must give the same value (1e-9) from
    TreeJointDistribution.log_p / .log_p_one / .compute_both_log_p_and_log_p_one and FSCRPDistribution.*, and that value
    must equal an exact Fraction evaluation of the statement (own recursion for the data term, no lgamma);
  * Tree.__eq__ / __hash__ against canonical-spec equality on all pairs of the enumerated set.
Correspondence: impl_log_p / impl_log_p_one / impl_both / spec_* of coq/Model/Density.v evaluated by vm_compute on the same trees,
with exp(tree.data_log_likelihood) as the root-vector input.
"""
import math
from fractions import Fraction

import numpy as np

from .. import coq
from ..trees import all_specs, spec_points, canon, random_spec, rational_values, spec_nodes, node_points, tree_spec, abs_spec, AbsError

C_CONST = 1000
TOL = 1e-9


# ------------------------------------------------------------------ exact evaluation of the statement
def _fact(n):
    r = 1
    for i in range(2, n + 1):
        r *= i
    return r


def _node_R(node, vals, s, G):
    """root-vector recursion for one sample, exact: R[k] = p[k] * sum_{j<=k} D[j], D = convolution of the children's R."""
    own, kids = node
    p = [Fraction(1, G)] * G
    for i in own:
        p = [a * b for a, b in zip(p, vals[i][s])]
    if not kids:
        return p
    D = None
    for k in kids:
        Rk = _node_R(k, vals, s, G)
        if D is None:
            D = Rk
        else:
            D = [sum(D[i] * Rk[j - i] for i in range(j + 1)) for j in range(G)]
    S, acc = [], Fraction(0)
    for j in range(G):
        acc += D[j]
        S.append(acc)
    return [a * b for a, b in zip(p, S)]


def exact_values(spec, vals, alpha, p, sizes, c=C_CONST):
    """(prior_marg, prior_one, joint_marg, joint_one) as Fractions, from the property statement."""
    roots, outl = spec
    alpha = Fraction(alpha)
    pl = plist(p, len(vals))
    nodes = spec_nodes(spec)
    K = len(nodes)
    crp = alpha**K
    for own, _ in nodes:
        crp *= _fact(len(own) - 1)
    mult = Fraction(1, _fact(len(roots)))
    for _, kids in nodes:
        mult /= _fact(len(kids))
    topo_marg = Fraction(1, (K + 1) ** (K - 1)) if K >= 1 else Fraction(1)
    topo_one = Fraction(1)
    for r in roots:
        m = len(spec_nodes(((r,), ())))
        topo_one /= m ** (m - 1)
    R = len(roots)
    if R > 0:
        c = Fraction(c)
        topo_one *= c ** -(R - 1) / sum(c ** -(r - 1) for r in range(1, R + 1))
    oprior = Fraction(1)
    for r in roots:
        for i in node_points(r):
            if pl[i] != 0:
                oprior *= (1 - pl[i]) ** sizes[i]
    for i in outl:
        if pl[i] != 0:
            oprior *= pl[i] ** sizes[i]
    n_samples = len(vals[0])
    G = len(vals[0][0])
    dm = d1 = Fraction(1)
    if roots:
        for s in range(n_samples):
            Rroot = _node_R(((), roots), vals, s, G)
            dm *= sum(Rroot)
            d1 *= Rroot[-1]
    om = Fraction(1)
    for i in outl:
        for s in range(n_samples):
            om *= sum(_node_R(((), (((i,), ()),)), vals, s, G))
    pm, p1 = crp * topo_marg * mult, crp * topo_one * mult
    return pm, p1, pm * oprior * dm * om, p1 * oprior * d1 * om


def plist(p, n):
    """outlier priors per data point: a scalar means the same prior for every point"""
    return [Fraction(x) for x in p] if isinstance(p, (list, tuple)) else [Fraction(p)] * n


def pname(p):
    return "mixed" if isinstance(p, (list, tuple)) else str(p)


def flog(fr):
    return math.log(fr.numerator) - math.log(fr.denominator)


def close(a, b, tol=TOL):
    return abs(a - b) <= tol * max(1.0, abs(a), abs(b))


# ------------------------------------------------------------------ construction histories
def mk_data(vals, p, sizes):
    from phyclone.data.base import DataPoint
    from phyclone.data.pyclone import compute_outlier_prob

    data = []
    pl = plist(p, len(vals))
    for i, v in enumerate(vals):
        arr = np.log(np.array([[float(x) for x in row] for row in v], dtype=float))
        op, opn = compute_outlier_prob(float(pl[i]), sizes[i])
        data.append(DataPoint(i, arr, outlier_prob=op, outlier_prob_not=opn))
    return data


def build_children_first(spec, data, G, order=lambda xs: list(xs)):
    from phyclone.tree import Tree

    t = Tree(G)

    def rec(node):
        own, kids = node
        ch = [rec(k) for k in order(kids)]
        return t.create_root_node(children=ch, data=[data[i] for i in order(own)])

    for r in order(spec[0]):
        rec(r)
    for i in order(spec[1]):
        t.add_data_point_to_outliers(data[i])
    return t


def build_one_at_a_time(spec, data, G, rng):
    """nodes created with a single point (children in shuffled order), the other points added one by one afterwards in a
    global shuffled order; outliers interleaved."""
    from phyclone.tree import Tree

    t = Tree(G)
    later = []

    def rec(node):
        own, kids = node
        kids = list(kids)
        rng.shuffle(kids)
        ch = [rec(k) for k in kids]
        own = list(own)
        rng.shuffle(own)
        n = t.create_root_node(children=ch, data=[data[own[0]]])
        later.extend((n, i) for i in own[1:])
        return n

    roots = list(spec[0])
    rng.shuffle(roots)
    for r in roots:
        rec(r)
    later += [(-1, i) for i in spec[1]]
    rng.shuffle(later)
    for n, i in later:
        if n == -1:
            t.add_data_point_to_outliers(data[i])
        else:
            t.add_data_point_to_node(data[i], n)
    return t


def build_by_grafting(spec, data, G, rng):
    """each top-level clone built as its own Tree (labels clash: every one starts at 0) and grafted with add_subtree;
    below the top level, the last child of each node is grafted under its parent the same way."""
    from phyclone.tree import Tree

    def sub(node):
        own, kids = node
        t = Tree(G)
        kids = list(kids)
        direct, grafted = (kids[:-1], kids[-1:]) if kids else ([], [])
        for k in direct:
            t.add_subtree(sub(k))
        n = t.create_root_node(children=list(t.roots), data=[data[i] for i in own])
        for k in grafted:
            t.add_subtree(sub(k), parent=n)
        return t

    t = Tree(G)
    roots = list(spec[0])
    rng.shuffle(roots)
    for r in roots:
        t.add_subtree(sub(r))
    for i in spec[1]:
        t.add_data_point_to_outliers(data[i])
    return t


def regraft(tree, rng):
    """prune a random clone's subtree and graft it back under the same parent (labels and sibling order change)."""
    t = tree.copy()
    nodes = t.nodes
    if not nodes:
        return t
    n = rng.choice(sorted(nodes))
    parent = t.get_parent(n)
    st = t.get_subtree(n)
    t.remove_subtree(st)
    t.add_subtree(st, parent=None if parent == "root" else parent)
    return t


def scratch_edit(tree, extra, rng):
    """add a scratch data point to a clone / the outliers and remove it again."""
    t = tree.copy()
    nodes = sorted(t.nodes)
    if nodes:
        n = rng.choice(nodes)
        t.add_data_point_to_node(extra, n)
        t.remove_data_point_from_node(extra, n)
    t.add_data_point_to_outliers(extra)
    t.remove_data_point_from_outliers(extra)
    return t


def histories(spec, data, extra, G, rng):
    from phyclone.tree import Tree

    out = [("children_first", build_children_first(spec, data, G))]
    out.append(("children_first_reversed", build_children_first(spec, data, G, order=lambda xs: list(reversed(list(xs))))))
    out.append(("one_at_a_time_shuffled", build_one_at_a_time(spec, data, G, rng)))
    out.append(("graft_subtrees", build_by_grafting(spec, data, G, rng)))
    out.append(("from_dict_to_dict", Tree.from_dict(out[2][1].to_dict())))
    out.append(("prune_regraft", regraft(out[0][1], rng)))
    t = regraft(out[1][1], rng)
    t.relabel_nodes()
    out.append(("prune_regraft_relabel", t))
    out.append(("scratch_add_remove", scratch_edit(out[3][1], extra, rng)))
    out.append(("copy", out[5][1].copy()))
    return out


# ------------------------------------------------------------------ Coq printing
def q(fr):
    fr = Fraction(fr)
    return "(Q2Qc (%d#%d))" % (fr.numerator, fr.denominator)


def qq(x):
    fr = Fraction(x)
    return "(%d#%d)%%Q" % (fr.numerator, fr.denominator)


def nl(xs):
    return "[" + "; ".join(str(int(x)) for x in xs) + "]"


def coq_tree(node):
    own, kids = node
    return "(Node %s [%s])" % (nl(own), "; ".join(coq_tree(k) for k in kids))


def coq_forest(spec):
    return "(mkF [%s] %s)" % ("; ".join(coq_tree(r) for r in spec[0]), nl(spec[1]))


def coq_data(name, vals, p, sizes):
    pts = []
    pl = plist(p, len(vals))
    for i, v in enumerate(vals):
        rows = "; ".join("[" + "; ".join(q(x) for x in row) + "]" for row in v)
        pts.append("mkDP %s %d [%s]" % (q(pl[i]), sizes[i], rows))
    return "Definition %s (i : nat) : dpoint := nth i [%s] (mkDP 0 1 []).\n" % (name, ";\n  ".join(pts))


HEADER = """From PV Require Import Model.Density Model.CaseUtil.
Open Scope nat_scope.
Definition tol : Q := (1#1000000000)%Q.
(* model of the code paths and the spec, against the four observed values *)
Definition chk (alpha : Qc) (D : nat -> dpoint) (F : forest) (R : list (list Qc)) (lp lp1 blp blp1 : Q) : bool :=
  qcclose tol (impl_log_p alpha D F R) lp && qcclose tol (impl_log_p_one alpha c_default D F R) lp1
  && qcclose tol (fst (impl_both alpha c_default D F R)) blp && qcclose tol (snd (impl_both alpha c_default D F R)) blp1
  && qcclose tol (spec_log_p alpha D F R) lp && qcclose tol (spec_log_p_one alpha c_default D F R) lp1.
(* prior alone: FSCRPDistribution.log_p / log_p_one / compute_both... *)
Definition chkp (alpha : Qc) (F : forest) (lp lp1 blp blp1 : Q) : bool :=
  qcclose tol (prior_log_p alpha F None None None) lp && qcclose tol (prior_log_p_one alpha c_default F None None None) lp1
  && qcclose tol (fst (prior_both alpha c_default F)) blp && qcclose tol (snd (prior_both alpha c_default F)) blp1.
(* model of the code paths only (used where the premises of C03_impl_is_spec do not hold: p = 1) *)
Definition chki (alpha : Qc) (D : nat -> dpoint) (F : forest) (R : list (list Qc)) (lp lp1 : Q) : bool :=
  qcclose tol (impl_log_p alpha D F R) lp && qcclose tol (impl_log_p_one alpha c_default D F R) lp1.
(* Tree.get_clades() as a set of sets against the model's clade family *)
Definition chkc (F : forest) (obs : list (list nat)) : bool := set_eqb (set_eqb Nat.eqb) (clades F) obs.
(* DataPoint attributes *)
Definition chkd (d : dpoint) (op opn om : Q) : bool :=
  qcclose tol (i_op (data_point d)) op && qcclose tol (i_opn (data_point d)) opn && qcclose tol (i_omarg (data_point d)) om
  && qcclose tol (spec_outlier_marg (dp_val d)) om.
"""


# ------------------------------------------------------------------ the check
def run(ctx):
    from phyclone.tree.distributions import FSCRPDistribution, TreeJointDistribution

    coq.check_property_file(ctx)
    ctx.rule = (
        "every canonical tree over <= 4 data points with every outlier subset (exhaustive; thorough adds every tree over 5 points without outliers) plus seeded random trees over 5-8 points; "
        "each built through 9 construction histories (children-first in two sibling orders, one point at a time in shuffled order, "
        "grafting separately built subtrees with clashing labels, from_dict(to_dict()), prune-regraft, relabel_nodes, add+remove of a "
        "scratch point, copy); alpha in {3/10, 1, 5/2, 7} x outlier prior in {0, 1/10} x cluster sizes in 1..3; all histories must agree "
        "with one another and with an exact Fraction evaluation of the statement (own convolution recursion for the data term); "
        "Tree.__eq__/__hash__ vs canonical-spec equality on all pairs; the Coq model is evaluated on the same trees with "
        "exp(tree.data_log_likelihood) as root vector.  non-trivial = at least 2 clones or an outlier; distinct = (canonical tree, alpha, p)"
    )
    ctx.exhaustive = True
    rng = ctx.rng
    alphas = [Fraction(3, 10), Fraction(1), Fraction(5, 2), Fraction(7)]
    ps = [Fraction(0), Fraction(1, 10)]
    NPTS = 8
    n_samples, grid = 2, 4
    G = (n_samples, grid)
    vals = rational_values(rng, NPTS + 1, n_samples, grid)
    sizes = [rng.randint(1, 3) for _ in range(NPTS + 1)]
    # a per-point setting: points without an outlier prior (0 is the "no prior" sentinel) next to points with different priors,
    # as per-cluster outlier probabilities produce them (--assign-loss-prob / --user-provided-loss-prob)
    mixed = [Fraction(0) if rng.random() < 0.4 else Fraction(rng.choice([1, 3, 5]), 20) for _ in range(NPTS + 1)]
    mixed[0] = Fraction(0)
    mixed[1] = Fraction(1, 4)
    ps = ps + [tuple(mixed)]
    datas = {p: mk_data(vals, p, sizes) for p in ps}
    specs = []
    for n in range(0, 5):
        specs += all_specs(range(n), outliers=True)
    n_enum = len(specs)
    if not ctx.quick:
        specs += all_specs(range(5), outliers=False)  # 2992 more trees (not part of the ==/hash pair pool)
    for _ in range(25 if ctx.quick else 400):
        specs.append(random_spec(rng, range(rng.randint(5, NPTS)), outlier_frac=0.25, max_block=rng.choice([1, 2, 3])))
    ctx.extra["enumerated_trees"] = n_enum
    ctx.extra["random_trees"] = len(specs) - n_enum

    coq_items, coq_meta = [], []
    budget = 220 if ctx.quick else 2500
    pool = []  # (spec, tree) for the ==/hash check
    want_coq = set(rng.sample(range(len(specs) * len(ps)), min(budget // 2, len(specs) * len(ps))))
    ci = 0
    for si, spec in enumerate(specs):
        nclones = len(spec_nodes(spec))
        shape = "clones=%d,outliers=%d" % (min(nclones, 3), min(len(spec[1]), 2))
        for p in ps:
            data = datas[p]
            extra = data[NPTS]
            try:
                hs = histories(spec, data, extra, G, rng)
            except Exception as e:  # a construction path raised: not this property's subject, but never silently pass
                ctx.fail("C03:history:raises:%s" % type(e).__name__, "building the tree through a history raised %r" % (e,), {"tree": spec})
                continue
            ok_hist = []
            for name, t in hs:
                try:
                    s2 = abs_spec(t)
                except AbsError as e:
                    ctx.fail("C03:history:%s:views-disagree" % name, "tree views disagree after history: %s" % e, {"tree": spec, "history": name})
                    continue
                if s2 != spec:
                    ctx.fail("C03:history:%s:other-forest" % name, "history built a different forest", {"tree": spec, "got": s2, "history": name})
                    continue
                ok_hist.append((name, t))
            if si < n_enum and p == ps[0]:
                pool += [(spec, t, name) for name, t in ok_hist[:1] + ok_hist[3:4] + ok_hist[6:7]]
            for alpha in alphas:
                fa = float(alpha)
                ex = exact_values(spec, vals, alpha, p, sizes)
                want = [flog(x) for x in ex]
                first = None
                for name, t in ok_hist:
                    prior = FSCRPDistribution(fa)
                    dist = TreeJointDistribution(prior)
                    got = {
                        "log_p": float(dist.log_p(t)),
                        "log_p_one": float(dist.log_p_one(t)),
                        "prior.log_p": float(prior.log_p(t)),
                        "prior.log_p_one": float(prior.log_p_one(t)),
                    }
                    b = dist.compute_both_log_p_and_log_p_one(t)
                    got["both[0]"], got["both[1]"] = float(b[0]), float(b[1])
                    pb = prior.compute_both_log_p_and_log_p_one_priors(t)
                    got["prior.both[0]"], got["prior.both[1]"] = float(pb[0]), float(pb[1])
                    exp_ = {
                        "log_p": want[2], "log_p_one": want[3], "both[0]": want[2], "both[1]": want[3],
                        "prior.log_p": want[0], "prior.log_p_one": want[1], "prior.both[0]": want[0], "prior.both[1]": want[1],
                    }
                    for k in got:
                        if not close(got[k], exp_[k]):
                            ctx.fail(
                                "C03:%s:spec:%s" % (k, shape),
                                "%s = %.12g but the FS-CRP statement gives %.12g (history %s)" % (k, got[k], exp_[k], name),
                                {"tree": spec, "alpha": str(alpha), "outlier_prob": pname(p) if not isinstance(p, tuple) else [str(x) for x in p], "sizes": sizes, "values": [[[str(x) for x in r] for r in v] for v in vals], "history": name, "got": got, "expected": exp_},
                            )
                    if not close(got["log_p"], got["both[0]"]) or not close(got["log_p_one"], got["both[1]"]):
                        ctx.fail("C03:compute_both:fused-vs-separate:%s" % shape, "fused and separate evaluation differ", {"tree": spec, "alpha": str(alpha), "got": got, "history": name})
                    if first is None:
                        first = (name, got)
                    else:
                        for k in got:
                            if not close(got[k], first[1][k]):
                                ctx.fail(
                                    "C03:%s:history:%s" % (k, shape),
                                    "%s differs between two builds of the same forest: %.12g (%s) vs %.12g (%s)" % (k, first[1][k], first[0], got[k], name),
                                    {"tree": spec, "alpha": str(alpha), "outlier_prob": pname(p), "histories": [first[0], name], "got": [first[1], got]},
                                )
                    ctx.case(n=1)
                ctx.case(key=(spec, str(alpha), pname(p)), nontrivial=(nclones >= 2 or len(spec[1]) >= 1), n=0,
                         sample={"tree": spec, "alpha": str(alpha), "p": pname(p), "log_p": want[2], "log_p_one": want[3], "histories": len(ok_hist)})
                ctx.count("clones=%d" % nclones)
                ctx.count("outliers=%d" % len(spec[1]))
                # ---- Coq correspondence on a seeded subset (all alphas of the chosen (tree, p))
                if ci in want_coq and ok_hist and len(coq_items) < budget:
                    name, t = ok_hist[rng.randrange(len(ok_hist))]
                    prior = FSCRPDistribution(fa)
                    dist = TreeJointDistribution(prior)
                    R = np.exp(np.asarray(t.data_log_likelihood, dtype=float))
                    Rc = "[" + "; ".join("[" + "; ".join(q(Fraction(float(x))) for x in row) + "]" for row in R) + "]"
                    b = dist.compute_both_log_p_and_log_p_one(t)
                    obs = [math.exp(float(dist.log_p(t))), math.exp(float(dist.log_p_one(t))), math.exp(float(b[0])), math.exp(float(b[1]))]
                    coq_items.append("chk %s D%d %s %s %s" % (q(alpha), ps.index(p), coq_forest(spec), Rc, " ".join(qq(x) for x in obs)))
                    coq_meta.append({"tree": spec, "alpha": str(alpha), "p": pname(p), "history": name})
                    pb = prior.compute_both_log_p_and_log_p_one_priors(t)
                    obs = [math.exp(float(prior.log_p(t))), math.exp(float(prior.log_p_one(t))), math.exp(float(pb[0])), math.exp(float(pb[1]))]
                    coq_items.append("chkp %s %s %s" % (q(alpha), coq_forest(spec), " ".join(qq(x) for x in obs)))
                    coq_meta.append({"tree": spec, "alpha": str(alpha), "prior_only": True})
            ci += 1

    # ---- falsy-zero fall-through: alpha = 1 and singleton clones make the start value exactly 0.0
    # (covered above: alpha = 1 is in the grid; clones of size 1 or 2 give log (n-1)! = 0)

    # ---- large clones: the CRP term log (size-1)! and the counts behind the topology / multiplicity terms for clones of
    # hundreds of data points (any table, cache or approximation of the factorials that is only right for small arguments
    # shows here); exact Fraction oracle only (the Coq model's unary factorial cannot be evaluated at these sizes)
    big_sizes = [127, 128, 129, 130, 257] if ctx.quick else [100, 127, 128, 129, 130, 200, 255, 256, 257, 300, 513]
    nbig = max(big_sizes) + 6
    bvals = rational_values(rng, nbig, 1, 3)
    bsz = [1] * nbig
    for p in (Fraction(0), Fraction(1, 10)):
        bdata = mk_data(bvals, p, bsz)
        for size in big_sizes:
            bigc = (tuple(range(size)), (((size, size + 1), ()), ((size + 2,), ())))
            spec = canon(((bigc, ((size + 3,), ())), (size + 4,)))
            t = build_children_first(spec, bdata, (1, 3))
            for alpha in (Fraction(3, 10), Fraction(5, 2)):
                ex = exact_values(spec, bvals, alpha, p, bsz)
                want = [flog(x) for x in ex]
                prior = FSCRPDistribution(float(alpha))
                dist = TreeJointDistribution(prior)
                b = dist.compute_both_log_p_and_log_p_one(t)
                got = {"log_p": float(dist.log_p(t)), "log_p_one": float(dist.log_p_one(t)), "prior.log_p": float(prior.log_p(t)), "prior.log_p_one": float(prior.log_p_one(t)), "both[0]": float(b[0]), "both[1]": float(b[1])}
                exp_ = {"log_p": want[2], "log_p_one": want[3], "prior.log_p": want[0], "prior.log_p_one": want[1], "both[0]": want[2], "both[1]": want[3]}
                ctx.case(key=("large-clone", size, str(alpha), pname(p)), nontrivial=True)
                ctx.count("large_clone_cases")
                for k in got:
                    if not close(got[k], exp_[k]):
                        ctx.fail("C03:%s:spec:large-clone" % k, "%s = %.12g but the FS-CRP statement gives %.12g for a tree whose largest clone holds %d data points" % (k, got[k], exp_[k], size),
                                 {"largest_clone": size, "alpha": str(alpha), "outlier_prob": pname(p), "got": got, "expected": exp_})

    # ---- samples on very different scales: sample s of data point i carries an additive log offset c[i][s] (hundreds of nats
    # apart between samples, as with samples of very different depth or many mutations per cluster).  The densities shift by
    # exactly the sum of the offsets of all data points; any normalisation shared ACROSS samples underflows here.
    from phyclone.data.base import DataPoint as _DP
    from phyclone.data.pyclone import compute_outlier_prob as _cop

    off_specs = [sp for sp in specs[:n_enum] if len(spec_points(sp)) in (2, 3)]
    rng.shuffle(off_specs)
    ns3, g3 = 3, 3
    ovals = rational_values(rng, 4, ns3, g3)
    osz = [1] * 4
    for sp in off_specs[: (25 if ctx.quick else 200)]:
        offs = [[0.0, -float(rng.choice([150, 400, 800])), -float(rng.choice([900, 1300, 1700]))] for _ in range(4)]
        p_ = Fraction(1, 10)
        odata = []
        for i, v in enumerate(ovals):
            arr = np.log(np.array([[float(x) for x in row] for row in v], dtype=float)) + np.array(offs[i])[:, None]
            op, opn = _cop(float(p_), 1)
            odata.append(_DP(i, arr, outlier_prob=op, outlier_prob_not=opn))
        t = build_children_first(sp, odata, (ns3, g3))
        shift = sum(sum(offs[i]) for i in spec_points(sp))
        for alpha in (Fraction(1), Fraction(5, 2)):
            ex = exact_values(sp, ovals, alpha, p_, osz)
            want = [flog(x) for x in ex]
            prior = FSCRPDistribution(float(alpha))
            dist = TreeJointDistribution(prior)
            b = dist.compute_both_log_p_and_log_p_one(t)
            got = {"log_p": float(dist.log_p(t)), "log_p_one": float(dist.log_p_one(t)), "both[0]": float(b[0]), "both[1]": float(b[1])}
            exp_ = {"log_p": want[2] + shift, "log_p_one": want[3] + shift, "both[0]": want[2] + shift, "both[1]": want[3] + shift}
            ctx.case(key=("sample-offsets", sp, str(alpha)), nontrivial=True)
            ctx.count("sample_offset_cases")
            for k in got:
                if not (math.isfinite(got[k]) and close(got[k], exp_[k])):
                    ctx.fail("C03:%s:spec:sample-offsets" % k, "%s = %.12g but the FS-CRP statement gives %.12g when the samples' log-likelihoods sit %s nats apart" % (k, got[k], exp_[k], sorted({o for row in offs for o in row})),
                             {"tree": sp, "alpha": str(alpha), "offsets": offs, "got": got, "expected": exp_})

    # ---- DataPoint attributes (outlier marginal, outlier prior) against the model
    for p in ps:
        for i, d in enumerate(datas[p]):
            ex = Fraction(1)
            for s in range(n_samples):
                ex *= sum(_node_R(((), (((i,), ()),)), vals, s, grid))
            if not close(float(d.outlier_marginal_prob), flog(ex)):
                ctx.fail("C03:DataPoint.outlier_marginal_prob", "outlier marginal differs from the single-clone marginal", {"point": i, "got": float(d.outlier_marginal_prob), "expected": flog(ex)})
            coq_items.append("chkd (D%d %d) %s %s %s" % (ps.index(p), i, qq(math.exp(d.outlier_prob)), qq(math.exp(d.outlier_prob_not)), qq(math.exp(float(d.outlier_marginal_prob)))))
            coq_meta.append({"datapoint": i, "p": pname(p)})
            ctx.case(n=1)

    # ---- boundary observation (not a verdict): outlier prior p = 1.  log(1) * size = 0.0 is the code's "no outlier prior" sentinel,
    # so the prior is skipped although the statement gives (1-p)^size = 0 for every point inside a clone.  The Coq model reproduces
    # the code (chki items); C03_impl_is_spec has the premise p < 1 and Properties/C03.v carries the witness C03_outlier_prob_one_refuted.
    with np.errstate(divide="ignore"):
        data1 = mk_data(vals, Fraction(1), sizes)
    obs_p1 = []
    for spec in specs[: n_enum]:
        if len(spec_nodes(spec)) == 0 or len(spec_nodes(spec)) + len(spec[1]) > 3:
            continue
        t = build_children_first(spec, data1, G)
        dist = TreeJointDistribution(FSCRPDistribution(2.5))
        lp, lp1 = float(dist.log_p(t)), float(dist.log_p_one(t))
        obs_p1.append((spec, lp))
        R = np.exp(np.asarray(t.data_log_likelihood, dtype=float))
        Rc = "[" + "; ".join("[" + "; ".join(q(Fraction(float(x))) for x in row) + "]" for row in R) + "]"
        coq_items.append("chki %s D3 %s %s %s %s" % (q(Fraction(5, 2)), coq_forest(spec), Rc, qq(math.exp(lp)), qq(math.exp(lp1))))
        coq_meta.append({"tree": spec, "p": "1", "boundary": True})
    ctx.extra["boundary_p_equals_1"] = {
        "trees_with_a_clone_probed": len(obs_p1),
        "finite_log_p": sum(1 for _, lp in obs_p1 if math.isfinite(lp)),
        "note": "statement value is -inf for each of these; reported as an observation, not as a violation (degenerate configuration)",
    }

    # ---- Tree.get_clades against the model's clades (one history per enumerated tree)
    for spec, t, name in pool:
        if name != "children_first":
            continue
        obs = sorted(sorted(int(x) for x in cl) for cl in t.get_clades())
        coq_items.append("chkc %s [%s]" % (coq_forest(spec), "; ".join(nl(cl) for cl in obs)))
        coq_meta.append({"tree": spec, "clades": obs})

    # ---- Tree.__eq__ / __hash__ on all pairs
    n_pairs = 0
    keys = [(s, hash(t)) for s, t, _ in pool]
    for i in range(len(pool)):
        si_, ti, ni = pool[i]
        for j in range(i, len(pool)):
            sj, tj, nj = pool[j]
            same = si_ == sj
            eq = ti == tj
            n_pairs += 1
            if eq != same:
                ctx.fail("C03:Tree.__eq__:%s" % ("equal-forests-differ" if same else "different-forests-equal"),
                         "Tree.__eq__ is %s for %s forests" % (eq, "equal" if same else "different"), {"a": si_, "b": sj, "histories": [ni, nj]})
            if same and keys[i][1] != keys[j][1]:
                ctx.fail("C03:Tree.__hash__:equal-forests-differ", "equal forests hash differently", {"a": si_, "b": sj, "histories": [ni, nj]})
    ctx.case(n=n_pairs)
    ctx.extra["eq_hash_pairs"] = n_pairs
    ctx.count("eq/hash pairs", n_pairs)

    # ---- __eq__ / __hash__ along edit histories: hash and compare after EVERY edit step (a memoised hash or key must never
    # survive an edit), against a freshly built tree of the same forest
    n_hist = 0
    hist_specs = [sp for sp in specs[:n_enum] if 1 <= len(spec_points(sp)) <= 4]
    rng.shuffle(hist_specs)
    data0 = datas[ps[0]]
    extra0 = data0[NPTS]
    for spec in hist_specs[: (60 if ctx.quick else 400)]:
        t = build_one_at_a_time(spec, data0, G, rng)
        hash(t)

        def check(step):
            s2 = abs_spec(t)
            pts = sorted(spec_points(s2))
            fresh = build_children_first(s2, data0, G)
            if hash(t) != hash(fresh) or not (t == fresh) or hash(t.copy()) != hash(fresh):
                ctx.fail("C03:Tree.__hash__:after-edit:%s" % step.split(":")[0], "after the edit step '%s' the tree %s a freshly built tree of the same forest" % (step, "hashes differently from" if t == fresh else "does not equal"),
                         {"start": spec, "step": step, "forest_now": s2})
            return pts

        steps = []
        nodes = sorted(t.nodes)
        t.add_data_point_to_outliers(extra0); steps.append("add-outlier"); check(steps[-1])
        t.remove_data_point_from_outliers(extra0); steps.append("remove-outlier"); check(steps[-1])
        if nodes:
            n = rng.choice(nodes)
            t.add_data_point_to_node(extra0, n); steps.append("add-to-clone"); check(steps[-1])
            t.remove_data_point_from_node(extra0, n); steps.append("remove-from-clone"); check(steps[-1])
        # move an existing outlier into a clone and back, the way the data-point sampler does
        if spec[1] and nodes:
            d = data0[spec[1][0]]
            n = rng.choice(nodes)
            t.remove_data_point_from_outliers(d); steps.append("move:outlier-out"); hash(t)
            t.add_data_point_to_node(d, n); steps.append("move:into-clone"); check(steps[-1])
            t.remove_data_point_from_node(d, n); hash(t)
            t.add_data_point_to_outliers(d); steps.append("move:back-to-outliers"); check(steps[-1])
        # move a point of a clone with >= 2 points to the outliers and back (last edit = removal from the outliers' bucket)
        big = [n for n in nodes if len(t.get_data(n)) >= 2]
        if big:
            n = rng.choice(big)
            d = t.get_data(n)[0]
            t.remove_data_point_from_node(d, n); hash(t)
            t.add_data_point_to_outliers(d); steps.append("move:clone-to-outliers"); check(steps[-1])
            t.remove_data_point_from_node(d, t.outlier_node_name) if rng.random() < 0.5 else t.remove_data_point_from_outliers(d)
            steps.append("move:outliers-removal"); hash(t)
            t.add_data_point_to_node(d, n); steps.append("move:back-to-clone"); check(steps[-1])
        st_nodes = sorted(t.nodes)
        if len(st_nodes) >= 2:
            n = rng.choice(st_nodes)
            parent = t.get_parent(n)
            sub = t.get_subtree(n)
            t.remove_subtree(sub); steps.append("prune"); check(steps[-1])
            t.add_subtree(sub, parent=None if parent == "root" else parent); steps.append("regraft"); check(steps[-1])
            t.relabel_nodes(); steps.append("relabel"); check(steps[-1])
        n_hist += len(steps)
        ctx.case(key=("hash-history", spec), nontrivial=len(steps) >= 4, n=len(steps))
    ctx.extra["eq_hash_edit_steps"] = n_hist
    ctx.count("eq/hash edit steps", n_hist)

    # ---- correspondence inside Coq
    header = HEADER + "".join(coq_data("D%d" % k, vals, p, sizes) for k, p in enumerate(ps + [Fraction(1)]))
    ok, bad, detail = coq.coq_eval_bool_cases(ctx, "corr", header, coq_items, shard=60, workers=4)
    ctx.extra["coq_corr_cases"] = len(coq_items)
    if not ok:
        ctx.broken_tie("C03 correspondence file did not evaluate", detail)
    else:
        ctx.obligation("corr_model_eq_impl_%d_cases" % len(coq_items), not bad)
        if bad:
            ctx.broken[-1]["detail"] = {"failing_case_count": len(bad), "first": coq_meta[bad[0]], "item": coq_items[bad[0]][:600]}
    ctx.assumptions += [
        "the per-sample root vector (tree.data_log_likelihood) is an input of the Coq model; the recursion producing it is C02's subject "
        "(here it is cross-checked against an exact Fraction recursion in the harness only)",
        "trees have non-empty clones and data points have outlier prior 0 <= p < 1 and cluster size >= 1 (premises of C03_impl_is_spec; "
        "p = 1 makes the code's log-value sentinel skip the prior)",
        "float evaluation compared at relative 1e-9 in log space on likelihood values k/16",
    ]
