"""C01 correspondence: the generic Coq conditional-SMC model (Model/Csmc.v), instantiated with proposal / weight tables
read off the real kernel, against the exact outcome distribution of the real ConditionalSMCSampler + final draw,
for a fixed data order."""
import itertools
import math
from fractions import Fraction

from ..enumrng import enumerate_outcomes
from ..kernels import make_kernel, make_tree_dist
from ..trees import all_specs, build_tree, make_data, tree_spec


def qlit(x):
    fr = Fraction(x)
    return "(%d#%d)%%Q" % (fr.numerator, fr.denominator)


def _tables(values, data_op, kind, prop_op, alpha, order):
    """BFS over the trees reachable along `order`: proposal probabilities and incremental weights from the real kernel."""
    from phyclone.smc.swarm import Particle, TreeHolder
    from phyclone.tree import Tree
    from phyclone.utils.dev import clear_proposal_dist_caches
    import numpy as np

    data = make_data(values, outlier_prob=data_op)
    ids = {}

    def tid(spec):
        return ids.setdefault(spec, len(ids))

    qt, ot = [], []
    level = [None]
    T = len(order)
    for t, di in enumerate(order):
        dp = data[di]
        nxt = {}
        for parent_spec in level:
            def setup(r):
                clear_proposal_dist_caches()
                td = make_tree_dist(alpha)
                k = make_kernel(kind, td, r, prop_op, True)
                if parent_spec is None:
                    return td, k, None, None
                pt = build_tree(parent_spec, data)
                return td, k, Particle(0, None, TreeHolder(pt, td, k.perm_dist), td, k.perm_dist), pt

            def fn(r):
                td, k, parent, pt = setup(r)
                prop = k.get_proposal_distribution(dp, parent, pt)
                tr = prop.sample()
                lq = float(prop.log_p(tr))
                part = k.create_particle(lq, parent, tr)
                lw = float(part.log_w)
                if t == T - 1:  # last step: the sampler corrects to the fixed-root target (base.py:_get_log_w)
                    lw = lw - float(part.log_p) + float(part.log_p_one)
                tree = tr if isinstance(tr, Tree) else tr.tree
                return (tree_spec(tree), round(lw, 12))

            dist, _, _ = enumerate_outcomes(fn)
            agg = {}
            for (spec, lw), p in dist.items():
                e = agg.setdefault(spec, [0.0, lw])
                e[0] += p
            pk = None if parent_spec is None else tid(parent_spec)
            qt.append((pk, [(tid(s), e[0]) for s, e in agg.items()]))
            for s, e in agg.items():
                ot.append((pk, tid(s), math.exp(e[1])))
                nxt[s] = True
        level = list(nxt)
    return ids, qt, ot


def _impl_row(values, data_op, kind, prop_op, alpha, order, start_spec, N, thr):
    from phyclone.smc.samplers import ConditionalSMCSampler
    from phyclone.utils.dev import clear_proposal_dist_caches
    from phyclone.utils.math import discrete_rvs

    data = make_data(values, outlier_prob=data_op)
    path_specs = []

    def fn(r):
        clear_proposal_dist_caches()
        td = make_tree_dist(alpha)
        k = make_kernel(kind, td, r, prop_op, True)
        tree = build_tree(start_spec, data)
        s = ConditionalSMCSampler(tree, [data[i] for i in order], k, num_particles=N, resample_threshold=thr)
        if not path_specs:
            path_specs.extend(tree_spec(p.tree) for p in s.constrained_path[1:])
        swarm = s.sample()
        idx = discrete_rvs(swarm.weights, r)
        return tree_spec(swarm.particles[idx].tree)

    dist, n, _ = enumerate_outcomes(fn)
    return dist, n, list(path_specs)


def compatible(spec, order):
    from .C09 import compatible_orders

    return tuple(order) in set(compatible_orders(spec))


def build_items(ctx, npts=2):
    """Returns (items, descriptions)."""
    from ..trees import rational_values

    items, desc = [], []
    vals = rational_values(ctx.rng, npts, 1, 3)
    configs = []
    for kind in ("bootstrap", "semi-adapted", "fully-adapted"):
        for (dop, pop) in ((0.0, 0.0), (0.2, 0.1)):
            nt = [(2, 0.5), (3, 0.0), (2, 0.75), (3, 0.6)]
            ctx.rng.shuffle(nt)
            for (N, thr) in nt[: (1 if ctx.quick else 3)]:
                configs.append((kind, dop, pop, N, thr, ctx.rng.choice([0.3, 1.0, 2.5])))
    for (kind, dop, pop, N, thr, alpha) in configs:
        for order in itertools.permutations(range(npts)):
            ids, qt, ot = _tables(vals, dop, kind, pop, alpha, order)
            qtxt = "[" + "; ".join("(%s, [%s])" % ("None" if k is None else "Some %d" % k, "; ".join("(%d, %s)" % (c, qlit(p)) for c, p in d)) for k, d in qt) + "]"
            otxt = "[" + "; ".join("(%s, %d, %s)" % ("None" if k is None else "Some %d" % k, c, qlit(v)) for k, c, v in ot) + "]"
            for start in all_specs(range(npts), outliers=dop > 0):
                if not compatible(start, order):
                    continue
                dist, npaths, path_specs = _impl_row(vals, dop, kind, pop, alpha, order, start, N, thr)
                if any(s not in ids for s in path_specs) or any(s not in ids for s in dist):
                    items.append("false")
                    desc.append({"why": "retained path or outcome outside the trees reachable along the order", "start": start, "order": order})
                    continue
                path = "[" + "; ".join(str(ids[s]) for s in path_specs) + "]"
                obs = "[" + "; ".join("(%d, %s)" % (ids[s], qlit(p)) for s, p in sorted(dist.items(), key=lambda kv: ids[kv[0]])) + "]"
                items.append("chk_pg %s %s %s %d %s %s" % (qtxt, otxt, qlit(Fraction(thr).limit_denominator(1000)), N - 1, path, obs))
                desc.append({"kind": kind, "outliers": dop > 0, "N": N, "thr": thr, "alpha": alpha, "order": order, "start": start, "paths": npaths})
                ctx.case(key=("corr", kind, dop, N, thr, order, start), nontrivial=True)
    return items, desc


# ---------------------------------------------------------------- the grammar of Model/Grammar.v (Proofs/GrammarPG.v)
def grammar_items(ctx):
    """(a) the model's state space `forests n on` (every forest some order's grammar builds) against the harness's independent
    enumeration of clone forests (the state space of the exact transition matrices); (b) the retained path the real
    ConditionalSMCSampler rebuilds from the current tree along an order drawn by the real RootPermutationDistribution is a word
    of the grammar whose states are the successive restrictions of the tree, and the order is compatible in the model's sense."""
    import numpy as np

    from ..trees import coq_nat_list, coq_table, random_spec, rational_values, spec_table

    items, desc = [], []
    for (n, on) in ((1, True), (2, True), (2, False), (3, True), (3, False)) + (() if ctx.quick else ((4, False), (4, True))):
        tabs = [spec_table(s, n) for s in all_specs(range(n), outliers=on)]
        items.append("set_eqb teqb (forests %d %s) [%s] && (length (forests %d %s) =? %d)" % (n, "true" if on else "false", "; ".join(coq_table(t) for t in tabs), n, "true" if on else "false", len(tabs)))
        desc.append({"what": "state space", "n": n, "outliers": on, "forests": len(tabs)})
        ctx.case(key=("grammar-state-space", n, on), nontrivial=n >= 2)
    from phyclone.smc.samplers import ConditionalSMCSampler
    from phyclone.smc.utils import RootPermutationDistribution

    for k in range(40 if ctx.quick else 300):
        n = ctx.rng.randint(2, 7)
        on = ctx.rng.random() < 0.6
        spec = random_spec(ctx.rng, range(n), outlier_frac=0.25 if on else 0.0)
        vals = rational_values(ctx.rng, n, 1, 3)
        data = make_data(vals, outlier_prob=0.2 if on else 0.0)
        tree = build_tree(spec, data)
        rng = np.random.default_rng(ctx.rng.randrange(10**9))
        td = make_tree_dist(1.0)
        kern = make_kernel(ctx.rng.choice(["bootstrap", "semi-adapted", "fully-adapted"]), td, rng, 0.1 if on else 0.0, True)
        sigma = RootPermutationDistribution.sample(tree, rng)
        s = ConditionalSMCSampler(tree, sigma, kern, num_particles=2, resample_threshold=0.5)
        order = [int(dp.idx) for dp in sigma]
        tabs = [spec_table(tree_spec(p.tree), n) for p in s.constrained_path[1:]]
        items.append("chk_retained %d %s %s [%s] %s" % (n, "true" if on else "false", coq_nat_list(order), "; ".join(coq_table(t) for t in tabs), coq_table(spec_table(spec, n))))
        desc.append({"what": "retained path", "start": spec, "order": order})
        ctx.case(key=("grammar-retained", spec, tuple(order)), nontrivial=len(spec[0]) >= 1)
        ctx.count("grammar_retained_npts=%d" % n)
    return items, desc


# ---------------------------------------------------------------- the end-to-end target (Model/EndToEnd.v)
E2E_HEADER = """From PV Require Import Model.EndToEnd Proofs.EndToEndReal Model.CaseUtil.
Open Scope nat_scope.
Definition tol : Q := (1#1000000000)%Q.
Definition teqb (a b : list (list bool)) : bool := if teq a b then true else false.
Definition chk_e2e (alpha : Qc) (G nsamp : nat) (D : nat -> dpoint) (n : nat) (on : bool) (t : list (list bool)) (lp1 lp : Q) : bool :=
  qcclose tol (gam_fscrp alpha c_default G nsamp D n on t) lp1
  && qcclose tol (dens_marg alpha G nsamp D (forest_of_table n on t)) lp
  && teqb (tab n (frel (forest_of_table n on t))) t.
(* the weight targets of the ACTUAL sampler along a retained path: exp(log_p + log_pdf) of every partial tree, exp(log_p_one +
   log_pdf) of the complete one, against gt_real on the prefixes of the word that builds the final table along the order *)
Fixpoint chk_prefixes (f : nat -> Qc) (k : nat) (vs : list Q) : bool :=
  match vs with [] => true | v :: r => qcclose tol (f k) v && chk_prefixes f (S k) r end.
Definition chk_real (alpha : Qc) (G nsamp : nat) (D : nat -> dpoint) (n : nat) (on : bool) (sg : list nat) (t : list (list bool)) (vs : list Q) : bool :=
  let w := genc n on sg t in
  Nat.eqb (length w) n && Nat.eqb (length vs) n
  && chk_prefixes (fun k => gt_real n G nsamp alpha c_default D sg (rev (firstn k w))) 1 vs.
"""


def e2e_items(ctx):
    """The target of C01_phyclone_update_leaves_fscrp_posterior_invariant, evaluated inside Coq on every state of the
    state space, against the real TreeJointDistribution.log_p_one / log_p of the tree the harness builds for that state
    (the pi of the exact transition matrices): the measure the theorem is about IS the posterior the implementation
    records.  Also re-checks on these states that the table denotes the rose forest whose density is taken."""
    from .C03 import coq_data, q, qq
    from ..trees import coq_table, rational_values, spec_table

    header = E2E_HEADER
    items, desc = [], []
    groups = [(1, True, 1, 3), (2, True, 2, 3), (2, False, 1, 4), (3, True, 1, 3), (3, False, 2, 2)]
    if not ctx.quick:
        groups += [(3, True, 2, 4), (4, False, 1, 3), (4, True, 1, 2)]
    for gi, (n, on, nsamp, G) in enumerate(groups):
        vals = rational_values(ctx.rng, n, nsamp, G)
        dop = Fraction(ctx.rng.choice([1, 2, 3]), 10) if on else Fraction(0)
        alpha = Fraction(ctx.rng.choice([3, 10, 25]), 10)
        data = make_data(vals, outlier_prob=float(dop))
        td = make_tree_dist(float(alpha))
        header += coq_data("D%d" % gi, vals, dop, [1] * n)
        for spec in all_specs(range(n), outliers=on):
            tree = build_tree(spec, data)
            lp1 = Fraction(math.exp(float(td.log_p_one(tree))))
            lp = Fraction(math.exp(float(td.log_p(tree))))
            items.append("chk_e2e %s %d %d D%d %d %s %s %s %s" % (q(alpha), G, nsamp, gi, n, "true" if on else "false", coq_table(spec_table(spec, n)), qq(lp1), qq(lp)))
            desc.append({"what": "end-to-end target", "n": n, "outliers": on, "samples": nsamp, "grid": G, "alpha": str(alpha), "state": spec})
            ctx.case(key=("e2e-target", gi, spec), nontrivial=n >= 2)
            ctx.count("e2e_target_npts=%d" % n)
        # the actual weight targets along retained paths the real sampler rebuilds (orders drawn by the real permutation sampler)
        import numpy as np
        from phyclone.smc.samplers import ConditionalSMCSampler
        from phyclone.smc.utils import RootPermutationDistribution
        from ..trees import coq_nat_list, random_spec

        if n >= 2:
            for _ in range(3 if ctx.quick else 12):
                spec = random_spec(ctx.rng, range(n), outlier_frac=0.3 if on else 0.0)
                tree = build_tree(spec, data)
                rng = np.random.default_rng(ctx.rng.randrange(10**9))
                kern = make_kernel(ctx.rng.choice(["bootstrap", "semi-adapted", "fully-adapted"]), td, rng, 0.1 if on else 0.0, True)
                sigma = RootPermutationDistribution.sample(tree, rng)
                smp = ConditionalSMCSampler(tree, sigma, kern, num_particles=2, resample_threshold=0.5)
                parts = smp.constrained_path[1:]
                vs = [Fraction(math.exp(float(pt.log_p) + float(pt.log_pdf))) for pt in parts[:-1]] + [Fraction(math.exp(float(parts[-1].log_p_one) + float(parts[-1].log_pdf)))]
                order = [int(dp.idx) for dp in sigma]
                items.append("chk_real %s %d %d D%d %d %s %s %s [%s]" % (q(alpha), G, nsamp, gi, n, "true" if on else "false", coq_nat_list(order), coq_table(spec_table(spec, n)), "; ".join(qq(v) for v in vs)))
                desc.append({"what": "actual weight targets along a retained path", "n": n, "outliers": on, "state": spec, "order": order})
                ctx.case(key=("e2e-real-weights", gi, spec, tuple(order)), nontrivial=True)
                ctx.count("e2e_real_weight_paths")
    return header, items, desc
