"""C08 - SMC proposals are normalised, faithfully sampled, complete and correctly weighted."""
import itertools
import math
import time
from concurrent.futures import ProcessPoolExecutor
from fractions import Fraction

import numpy as np

from .. import coq
from ..enumrng import enumerate_outcomes
from ..kernels import KINDS, make_kernel, make_tree_dist
from ..trees import all_specs, build_tree, canon, coq_nat_list, coq_table, make_data, rational_values, spec_points, spec_root_reps, spec_table, tree_spec

TOL = 1e-9


def placements(parent_spec, new_idx, outliers_on):
    """Every way of placing the new data point (independent oracle): into each top-level clone, into a new
    clone above any subset of the top-level clones, and (when enabled) into the outlier set."""
    out = []
    if parent_spec is None:
        roots, outl = (), ()
    else:
        roots, outl = parent_spec
    for i, r in enumerate(roots):
        nr = list(roots)
        nr[i] = (tuple(sorted(r[0] + (new_idx,))), r[1])
        out.append(("existing", canon((tuple(nr), outl))))
    for k in range(len(roots) + 1):
        for sub in itertools.combinations(range(len(roots)), k):
            kids = tuple(roots[i] for i in sub)
            rest = tuple(roots[i] for i in range(len(roots)) if i not in sub)
            out.append(("new", canon((rest + (((new_idx,), kids),), outl))))
    if outliers_on:
        out.append(("outlier", canon((roots, outl + (new_idx,)))))
    return out


def _one(args):
    values, data_op, parent_spec, kind, prop_op, perm, alpha = args
    from phyclone.smc.swarm import Particle, TreeHolder
    from phyclone.tree import Tree
    from phyclone.utils.dev import clear_proposal_dist_caches

    data = make_data(values, outlier_prob=data_op)
    new_idx = len(values) - 1
    dp = data[new_idx]

    def setup(r):
        clear_proposal_dist_caches()
        td = make_tree_dist(alpha)
        k = make_kernel(kind, td, r, prop_op, perm)
        if parent_spec is None:
            parent, ptree = None, None
        else:
            ptree = build_tree(parent_spec, data)
            parent = Particle(0, None, TreeHolder(ptree, td, k.perm_dist), td, k.perm_dist)
        return td, k, parent, ptree

    def fn(r):
        td, k, parent, ptree = setup(r)
        prop = k.get_proposal_distribution(dp, parent, ptree)
        t = prop.sample()
        lq = float(prop.log_p(t))
        particle = k.create_particle(lq, parent, t)
        tree = t if isinstance(t, Tree) else t.tree
        return (tree_spec(tree), round(lq, 12), round(float(particle.log_w), 10))

    dist, n, errors = enumerate_outcomes(fn, on_error="collect")
    # independent evaluation of log_p on every placement, and of the target ratio
    import numpy as _np

    td, k, parent, ptree = setup(_np.random.default_rng(0))
    prop = k.get_proposal_distribution(dp, parent, ptree)
    dens = {}
    for what, spec in placements(parent_spec, new_idx, prop_op > 0):
        tree = build_tree(spec, data)
        lg = float(td.log_p(tree))
        lpdf = float(k.perm_dist.log_pdf(tree)) if perm else 0.0
        dens[spec] = (what, lg, lpdf)
    if parent_spec is None:
        pg, ppdf = 0.0, 0.0
    else:
        pt = build_tree(parent_spec, data)
        pg = float(td.log_p(pt))
        ppdf = float(k.perm_dist.log_pdf(pt)) if perm else 0.0
    return dist, n, errors, dens, pg, ppdf


def _swarm_weight_paths(ctx):
    import numpy as np
    from phyclone.smc.samplers import SMCSampler
    from phyclone.smc.utils import RootPermutationDistribution
    from phyclone.utils.dev import clear_proposal_dist_caches

    from ..kernels import KINDS, make_kernel, make_tree_dist
    from ..trees import rational_values

    n_paths = 0
    for kind in KINDS:
        for (dop, pop) in ((0.0, 0.0), (0.2, 0.1)):
            for npts in (2, 3, 4):
                for thr in (0.0, 1.0):
                    vals = rational_values(ctx.rng, npts, 1, 3)
                    data = make_data(vals, outlier_prob=dop)
                    seed = ctx.rng.randrange(10**9)
                    rng = np.random.default_rng(seed)
                    clear_proposal_dist_caches()
                    td = make_tree_dist(ctx.rng.choice([0.3, 1.0, 2.5]))
                    kern = make_kernel(kind, td, rng, pop, True)
                    order = list(data)
                    ctx.rng.shuffle(order)
                    N = 6
                    smp = SMCSampler(order, kern, num_particles=N, resample_threshold=thr)
                    swarm = smp.sample()
                    tag = "%s:outliers=%s:thr=%s" % (kind, "on" if dop > 0 else "off", thr)
                    replay = {"kernel": kind, "outlier_prob": dop, "outlier_proposal_prob": pop, "npts": npts, "resample_threshold": thr, "seed": seed,
                              "order": [int(d.idx) for d in order], "values": [[[str(x) for x in row] for row in pt] for pt in vals]}
                    logw = np.asarray(swarm.unnormalized_log_weights, dtype=float)
                    expect = []
                    for part in swarm.particles:
                        chain = []
                        q = part
                        while q is not None:
                            chain.append(q)
                            q = q.parent_particle
                        incr = [float(c.log_w) for c in chain]          # newest first
                        last_corr = float(part.log_p_one) - float(part.log_p)
                        total = sum(incr) + last_corr
                        # the product of the incremental weights is the final target over the proposal probabilities: recompute the
                        # target from the particle's tree (fixed-root density + order density of the tree as it is)
                        lt = float(td.log_p_one(part.tree)) + float(RootPermutationDistribution.log_pdf(part.tree))
                        if len(chain) != npts:
                            ctx.fail("C08:swarm:%s:ancestry" % tag, "a final particle has %d ancestors for %d data points" % (len(chain), npts), replay)
                        expect.append((total if thr == 0.0 else incr[0] + last_corr, total, lt))
                        n_paths += 1
                    ex = np.array([e[0] for e in expect])
                    d1 = (logw - logw.max()) - (ex - ex.max())
                    ctx.case(key=("swarm-weights", kind, dop, npts, thr), nontrivial=True)
                    ctx.count("swarm_weight_runs")
                    if np.max(np.abs(d1)) > 1e-8:
                        ctx.fail("C08:swarm:%s:weights" % tag,
                                 "final swarm weights of the single-pass sampler are not the %s of the particles' incremental weights (max log difference %.3g)" % ("product along the ancestry" if thr == 0.0 else "last incremental weight", float(np.max(np.abs(d1)))),
                                 dict(replay, swarm_log_weights=[float(x) for x in logw], expected=[float(x) for x in ex]))
    ctx.extra["swarm_weight_paths"] = n_paths
    # extreme data (very deep sequencing / hundreds of mutations per cluster): placements differing by thousands of nats.  The
    # retained path may run through the worst placement; every proposal probability, incremental weight and final weight
    # must stay finite and the weights normalised (only log-space arithmetic survives this regime).
    from phyclone.data.base import DataPoint
    from phyclone.smc.samplers import ConditionalSMCSampler
    from ..trees import all_specs, build_tree

    for kind in KINDS:
        for (dop, pop) in ((0.0, 0.0), (0.2, 0.1)):
            G = 4
            peaks = [0, 3, 1]
            hdata = []
            for i, pk in enumerate(peaks):
                v = np.array([[-1500.0 * abs(x - pk) - 3.0 * i for x in range(G)]])
                op_, opn_ = (math.log(dop), math.log1p(-dop)) if dop > 0 else (0, 0.0)
                hdata.append(DataPoint(i, v, outlier_prob=op_, outlier_prob_not=opn_))
            specs = all_specs(range(3), outliers=dop > 0)
            ctx.rng.shuffle(specs)
            for spec in specs[:6]:
                seed = ctx.rng.randrange(10**9)
                rng = np.random.default_rng(seed)
                clear_proposal_dist_caches()
                td = make_tree_dist(1.0)
                kern = make_kernel(kind, td, rng, pop, True)
                tree = build_tree(spec, hdata)
                sigma = RootPermutationDistribution.sample(tree, rng)
                tag = "%s:outliers=%s" % (kind, "on" if dop > 0 else "off")
                replay = {"kernel": kind, "outlier_prob": dop, "outlier_proposal_prob": pop, "tree": spec, "seed": seed, "log_grids": [d.value.tolist() for d in hdata]}
                ctx.case(key=("extreme-data", kind, dop, spec), nontrivial=True)
                ctx.count("extreme_data_runs")
                try:
                    with np.errstate(all="ignore"):
                        smp = ConditionalSMCSampler(tree, sigma, kern, num_particles=4, resample_threshold=0.5)
                        path_w = [float(pt.log_w) for pt in smp.constrained_path[1:]]
                        swarm = smp.sample()
                        w = np.asarray(swarm.weights, dtype=float)
                        lw = np.asarray(swarm.unnormalized_log_weights, dtype=float)
                except Exception as e:  # noqa: BLE001
                    ctx.fail("C08:extreme-data:%s:exception" % tag, "conditional SMC on data with placements thousands of nats apart raised %s: %s" % (type(e).__name__, str(e)[:160]), replay)
                    continue
                if not all(math.isfinite(x) for x in path_w):
                    ctx.fail("C08:extreme-data:%s:retained-weight" % tag, "an incremental weight on the retained path is not finite (%r): the proposal probability of a placement thousands of nats below the best one must still be its true (tiny) value" % (path_w,), dict(replay, retained_log_w=path_w))
                elif not (np.all(np.isfinite(w)) and abs(float(w.sum()) - 1.0) < 1e-9 and not np.any(np.isnan(lw)) and not np.any(np.isposinf(lw))):
                    ctx.fail("C08:extreme-data:%s:swarm-weights" % tag, "final swarm weights are not a finite normalised vector (%r)" % (w.tolist(),), dict(replay, log_weights=lw.tolist()))


def _run_wiring_probe(ctx):
    """How `run()` wires the chains: the arguments it hands to the chain runner must be the same whether it runs one chain
    in-process or several through the pool, and outlier modelling must be ON for the samplers (outlier proposal available,
    data-point move with the outlier option) whenever the loaded data points carry outlier priors - also when those priors
    come from --user-provided-loss-prob / --assign-loss-prob rather than from -l."""
    import concurrent.futures as cf
    import inspect
    import os

    import phyclone.run as R

    from .. import runs

    d = runs.tmpdir("C08_wiring_%d" % os.getpid())
    rows = runs.make_rows(ctx.rng, 8, 2, depth=(20, 40))
    in_file = runs.write_input(os.path.join(d, "w.tsv"), rows)
    cl = os.path.join(d, "w_clusters.tsv")
    with open(cl, "w") as fh:
        fh.write("mutation_id\tsample_id\tcluster_id\tcellular_prevalence\tchrom\toutlier_prob\n")
        for m in range(8):
            for smp in range(2):
                fh.write("m%d\tS%d\t%d\t%s\tchr%d\t%s\n" % (m, smp, m // 4, "0.9" if m < 4 else "0.3", m + 1 if m < 4 else 7, "0.01" if m < 4 else "0.2"))
    saved = (R.run_phyclone_chain, R.ProcessPoolExecutor, R.create_main_run_output)
    sig = inspect.signature(R.run_phyclone_chain)
    rec = []

    def fake_chain(*a, **k):
        ba = sig.bind(*a, **k)
        ba.apply_defaults()
        rec.append(dict(ba.arguments))
        return {"chain_num": ba.arguments.get("chain_num", 0), "trace": [], "data": ba.arguments.get("data"), "samples": ba.arguments.get("samples")}

    class InlinePool:
        def __init__(self, *a, **k):
            pass

        def __enter__(self):
            return self

        def __exit__(self, *a):
            return False

        def submit(self, fn, *a, **k):
            f = cf.Future()
            try:
                f.set_result(fn(*a, **k))
            except BaseException as e:  # noqa: BLE001
                f.set_exception(e)
            return f

    cfgs = [("outlier-prob", dict(outlier_prob=0.001)), ("user-provided-loss-prob", dict(cluster_file=cl, user_provided_loss_prob=True)), ("assign-loss-prob", dict(cluster_file=cl, assign_loss_prob=True)), ("no-outliers", dict())]
    try:
        R.run_phyclone_chain, R.ProcessPoolExecutor, R.create_main_run_output = fake_chain, InlinePool, (lambda *a, **k: None)
        for name, kw in cfgs:
            calls = {}
            for chains in (1, 3):
                del rec[:]
                try:
                    with runs.quiet():
                        R.run(in_file, os.path.join(d, "o.pkl.gz"), burnin=1, num_iters=2, num_particles=3, seed=5, num_chains=chains, print_freq=1000, grid_size=11, density="binomial", **kw)
                except Exception as e:  # noqa: BLE001
                    ctx.fail("C08:run-wiring:%s:exception" % name, "run() with %d chain(s) raised %s: %s" % (chains, type(e).__name__, str(e)[:160]), {"config": name, "chains": chains})
                    continue
                calls[chains] = [dict(c) for c in rec]
            ctx.case(key=("run-wiring", name), nontrivial=True, sample={"config": name, "calls": {k_: len(v) for k_, v in calls.items()}})
            ctx.count("run_wiring_configs")
            if not calls.get(1) or len(calls.get(3, [])) != 3:
                ctx.log("run-wiring probe (%s): the chain runner was not reached through phyclone.run.run_phyclone_chain / ProcessPoolExecutor (%s); not applicable" % (name, {k_: len(v) for k_, v in calls.items()}))
                continue
            ref = calls[1][0]
            plain = [k_ for k_, v in ref.items() if isinstance(v, (int, float, str, bool)) and k_ != "chain_num"]
            for c in calls[3]:
                diff = {k_: (ref[k_], c.get(k_)) for k_ in plain if c.get(k_) != ref[k_]}
                if diff:
                    ctx.fail("C08:run-wiring:%s:single-vs-multi-chain" % name, "run() hands the chain runner different settings with 3 chains than with 1 chain: %r" % (diff,), {"config": name, "differences": {k_: [repr(x) for x in v] for k_, v in diff.items()}})
                    break
            for chains, cs in calls.items():
                for c in cs:
                    has_prior = any(float(dp.outlier_prob) != 0 for dp in c.get("data") or [])
                    if has_prior and not (float(c.get("outlier_prob", 0)) > 0):
                        ctx.fail("C08:run-wiring:%s:outlier-modelling-off-in-samplers" % name, "the loaded data points carry outlier priors but the chain runner (%d chain(s)) is given outlier_prob = %r: its kernels propose no outlier placement and the data-point move has no outlier option" % (chains, c.get("outlier_prob")), {"config": name, "chains": chains})
                        break
    finally:
        R.run_phyclone_chain, R.ProcessPoolExecutor, R.create_main_run_output = saved


def to_place(parent_spec, outcome_spec, new_idx):
    """Name the placement an outcome realises, relative to the parent's top-level clones in canonical order."""
    from ..trees import spec_nodes

    roots = () if parent_spec is None else parent_spec[0]
    if new_idx in outcome_spec[1]:
        return "Outlier"
    node = [n for n in spec_nodes(outcome_spec) if new_idx in n[0]][0]
    own = tuple(x for x in node[0] if x != new_idx)
    if own:
        return "(Existing %d)" % [i for i, r in enumerate(roots) if r[0] == own][0]
    kids = sorted(i for i, r in enumerate(roots) if any(k[0] == r[0] for k in node[1]))
    return "(NewOver [%s])" % "; ".join(str(i) for i in kids)


def qlit(x):
    fr = Fraction(x)
    return "(%d#%d)%%Q" % (fr.numerator, fr.denominator)


def run(ctx):
    coq.check_property_file(ctx)
    items = []
    gitems, gseen = [], set()
    ctx.rule = (
        "every parent state (none, outliers only, every tree over <= n-1 data points with every outlier subset) x next data point x "
        "proposal kind x outlier proposal prob {0, 0.1} x with/without permutation density x alpha: exact outcome distribution of "
        "proposal.sample() (every random outcome), proposal.log_p on every outcome AND on every placement enumerated independently, "
        "kernel.create_particle(...).log_w; checked: densities sum to 1 over all placements, sampled probability = exp(log_p), every placement "
        "has positive mass, log_w = target ratio (+ permutation density ratio) - log_q; non-trivial = parent with >= 1 clone or outliers"
    )
    ctx.exhaustive = True
    nmax = 4 if ctx.quick else 5
    jobs = []
    vals_by_n = {n: rational_values(ctx.rng, n, 1, 3) for n in range(1, nmax + 1)}
    for n in range(1, nmax + 1):
        parents = [None] if n == 1 else all_specs(range(n - 1), outliers=True)
        for parent in parents:
            has_out = parent is not None and len(parent[1]) > 0
            for kind in KINDS:
                for prop_op in (0.0, 0.1):
                    if has_out and prop_op == 0.0:
                        continue  # a parent with outliers only arises with outlier proposals on
                    for perm in (True, False):
                        alpha = ctx.rng.choice([0.3, 1.0, 2.5])
                        jobs.append((vals_by_n[n], 0.2 if prop_op > 0 else 0.0, parent, kind, prop_op, perm, alpha))
    if ctx.quick and len(jobs) > 700:
        keep = [j for j in jobs if j[2] is None or len(j[0]) <= 2]
        rest = [j for j in jobs if j not in keep]
        ctx.rng.shuffle(rest)
        jobs = keep + rest[: 700 - len(keep)]
        ctx.exhaustive = False
    with ProcessPoolExecutor(max_workers=12) as ex:
        results = list(ex.map(_one, jobs, chunksize=8))
    for job, (dist, npaths, errors, dens, pg, ppdf) in zip(jobs, results):
        values, data_op, parent, kind, prop_op, perm, alpha = job
        shape = "none" if parent is None else ("outliers-only" if len(parent[0]) == 0 else "clones")
        tag = "%s:parent=%s:op=%s" % (kind, shape, "on" if prop_op > 0 else "off")
        ctx.case(key=(parent, kind, prop_op, perm), nontrivial=parent is not None,
                 sample={"parent": parent, "kind": kind, "prop_op": prop_op, "perm": perm, "alpha": alpha, "outcomes": len(dist), "paths": npaths})
        ctx.count("kind=%s" % kind); ctx.count("parent=%s" % shape); ctx.count("paths", npaths)
        replay = {"parent": parent, "kind": kind, "prop_op": prop_op, "perm": perm, "alpha": alpha,
                  "values": [[[str(x) for x in row] for row in pt] for pt in values]}
        if errors:
            ctx.fail("C08:%s:exception" % tag, "exception while proposing: %s" % errors[0][2], dict(replay, path=errors[0][0]))
            continue
        # sampled probability per tree (merge equal trees), with the density / weight the code reported for them
        sampled = {}
        for (spec, lq, lw), p in dist.items():
            e = sampled.setdefault(spec, {"p": 0.0, "lq": set(), "lw": set()})
            e["p"] += p
            e["lq"].add(lq)
            e["lw"].add(lw)
        # correspondence item: the Coq model of this proposal on the same parent state
        try:
            R = 0 if parent is None else len(parent[0])
            on = "true" if prop_op > 0 else "false"
            obs = "; ".join("(%s, %s, %s)" % (to_place(parent, sp, len(values) - 1), qlit(e["p"]), qlit(math.exp(max(e["lq"])))) for sp, e in sorted(sampled.items()))
            if kind == "bootstrap":
                items.append("chk_boot %s %s %d %s [%s]" % (qlit(Fraction(prop_op).limit_denominator(1000)), "true" if parent is None else "false", R, on, obs))
            else:
                g = "; ".join("(%s, %s)" % (to_place(parent, sp, len(values) - 1), qlit(math.exp(v[1]))) for sp, v in sorted(dens.items()))
                items.append("chk_%s [%s] %d %s [%s]" % ("full" if kind == "fully-adapted" else "semi", g, R, on, obs))
        except Exception as e:  # an outcome that is not a placement is reported below as 'stray'
            ctx.count("corr_skipped")
        # grammar item: the trees this proposal can return (as relation tables, with their top-level clones) against the
        # placements of Model/Grammar.v applied to the parent's table
        npts = len(values)
        gkey = (parent, prop_op > 0, frozenset(sampled))
        if gkey not in gseen:
            gseen.add(gkey)
            obs = "; ".join("(%s, %s)" % (coq_table(spec_table(sp, npts)), coq_nat_list(spec_root_reps(sp))) for sp in sorted(sampled))
            gitems.append("chk_grammar %d %s %s %s %s %d [%s]" % (
                npts, "true" if prop_op > 0 else "false", coq_nat_list([] if parent is None else spec_points(parent)),
                coq_nat_list(spec_root_reps(parent)), coq_table(spec_table(parent, npts)), npts - 1, obs))
        # (0) the reported density is a function of the tree
        for spec, e in sampled.items():
            if len(e["lq"]) > 1 and max(e["lq"]) - min(e["lq"]) > 1e-9:
                ctx.fail("C08:%s:density-not-a-function" % tag, "log_p differs between two draws of the same tree", dict(replay, outcome=spec, values=sorted(e["lq"])))
        # (1) normalisation: reported probabilities over the support sum to one
        tot = sum(math.exp(max(e["lq"])) for e in sampled.values())
        if abs(tot - 1) > TOL:
            ctx.fail("C08:%s:normalisation" % tag, "reported probabilities sum to %.12g over the support" % tot,
                     dict(replay, densities={str(s_): max(e["lq"]) for s_, e in sampled.items()}))
        # (2) completeness (every placement, enumerated independently, is drawn) and faithfulness
        for spec, v in dens.items():
            if spec not in sampled:
                ctx.fail("C08:%s:support" % tag, "placement %s (%s) is never proposed" % (spec, v[0]), dict(replay, placement=spec))
        for spec, e in sampled.items():
            if spec not in dens:
                ctx.fail("C08:%s:stray" % tag, "proposal produced a tree that is not a placement of the data point", dict(replay, outcome=spec))
            elif abs(e["p"] - math.exp(max(e["lq"]))) > TOL:
                ctx.fail("C08:%s:faithful" % tag, "drawn with probability %.12g but log_p reports %.12g (%s)" % (e["p"], math.exp(max(e["lq"])), dens[spec][0]), dict(replay, placement=spec))
        # (3) weight = target ratio (marginal-form joint density; + permutation density ratio) / proposal probability
        for spec, e in sampled.items():
            if spec not in dens:
                continue
            what, lg, lpdf = dens[spec]
            lq, lw = max(e["lq"]), max(e["lw"])
            expect = lg - pg + (lpdf - ppdf) - lq
            if abs(lw - expect) > 1e-8 or len(e["lw"]) > 1 and max(e["lw"]) - min(e["lw"]) > 1e-8:
                ctx.fail("C08:%s:weight" % tag, "log_w %.10f but target ratio - log_q = %.10f" % (lw, expect), dict(replay, outcome=spec))
    # (4) "along every path the incremental weights multiply to the final target": the swarms the REAL samplers return.
    # With resample_threshold = 0 the single-pass sampler (burn-in / UnconditionalSMCSampler) never resamples, so every final
    # particle's weight is the product of the incremental weights of its ancestors, i.e. the final target of its path over the
    # product of the proposal probabilities; with threshold 1 it resamples before every extension, so the weight is the last
    # incremental weight alone.  Both are read off the particles' own ancestry and compared with the swarm's weights; the
    # product along the path is also compared with log_p_one + log_pdf - sum log q recomputed from the trees.
    _swarm_weight_paths(ctx)
    _run_wiring_probe(ctx)
    ok, bad, detail = coq.coq_eval_bool_cases(ctx, "corr", "From PV Require Import Model.ProposalsCases.\nOpen Scope nat_scope.", items, shard=40)
    ctx.extra["coq_corr_cases"] = len(items)
    if not ok:
        ctx.broken_tie("C08 correspondence file did not evaluate", detail)
    else:
        ctx.obligation("corr_model_eq_impl_%d_proposal_states" % len(items), not bad)
        if bad:
            ctx.broken[-1]["detail"] = {"failing": len(bad), "first_item": items[bad[0]][:600]}
    # the grammar of Model/Grammar.v (whose words are proved to be in bijection with the compatible forests) against the trees built
    ok, bad, detail = coq.coq_eval_bool_cases(ctx, "gram", "From PV Require Import Model.GrammarCases.\nOpen Scope nat_scope.", gitems, shard=40)
    ctx.extra["coq_grammar_cases"] = len(gitems)
    if not ok:
        ctx.broken_tie("C08 grammar correspondence file did not evaluate", detail)
    else:
        ctx.obligation("corr_grammar_step_eq_impl_%d_parent_states" % len(gitems), not bad)
        if bad:
            ctx.broken[-1]["detail"] = {"failing": len(bad), "first_item": gitems[bad[0]][:800]}
    # canary: a grammar item with one observed tree removed must be rejected
    if gitems:
        it = max(gitems, key=len)
        cut = it.rfind("; ([[")
        pert = it[:cut] + "]" if cut > 0 else it
        okc, badc, _ = coq.coq_eval_bool_cases(ctx, "gram_canary", "From PV Require Import Model.GrammarCases.\nOpen Scope nat_scope.", [pert], shard=1, workers=1)
        ctx.obligation("corr_grammar_canary_missing_tree_rejected", okc and badc == [0] and cut > 0)
    ctx.assumptions += ["enumerating generator = numpy's laws; `choice(a, k, replace=False)` enumerated as ordered samples"]
