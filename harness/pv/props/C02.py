"""C02 - the tree likelihood vector equals the exact CCF-grid constrained sum.

Tie:    real phyclone Trees (create_root_node / add_data_point_to_node / from_dict(to_dict)) against the Coq model
        Model/Marginal.v (R, root_R_multi) evaluated by vm_compute on the same trees and data.
Search: an independent brute force over ALL index assignments (exact integers) is the property-level oracle for
        Tree.data_log_likelihood and every clone's log_r; thorough adds the FFT path (exact big-integer convolution as
        oracle) and an extreme dynamic-range stream for the floor window.
"""
import itertools
import math
from concurrent.futures import ProcessPoolExecutor
from fractions import Fraction

import numpy as np

from .. import coq
from ..trees import make_data

TOL = 1e-9


# ------------------------------------------------------------------ unlabelled forest shapes
def _trees(n, memo={}):
    """all unlabelled rooted trees with n nodes as canonical nested tuples (tuple of child trees, sorted)"""
    if n not in memo:
        memo[n] = [f for f in _forests(n - 1)]
    return memo[n]


def _tsize(t):
    return 1 + sum(_tsize(c) for c in t)


def _forests(n, bound=None, memo={}):
    """multisets of trees with n nodes in total, as non-increasing tuples w.r.t. (size, repr)"""
    if n == 0:
        return [()]
    key = (n, bound)
    if key in memo:
        return memo[key]
    out = []
    for s in range(n, 0, -1):
        for t in _trees(s):
            k = (s, t)
            if bound is not None and k > bound:
                continue
            for rest in _forests(n - s, k):
                out.append((t,) + rest)
    memo[key] = out
    return out


def shape_sig(forest):
    def mk(t):
        return max([len(t)] + [mk(c) for c in t])

    def depth(t):
        return 1 + max([0] + [depth(c) for c in t])

    n = sum(_tsize(t) for t in forest)
    return n, max([len(forest)] + [mk(t) for t in forest]), max([0] + [depth(t) for t in forest])


# ------------------------------------------------------------------ building real trees
def assign_points(rng, forest, max_pts):
    """shape -> nested (own point ids, kids) with kid order shuffled; returns (roots, n_points)"""
    counter = [0]

    def rec(t):
        k = rng.randint(1, max_pts)
        own = tuple(range(counter[0], counter[0] + k))
        counter[0] += k
        kids = [rec(c) for c in t]
        rng.shuffle(kids)
        return (own, tuple(kids))

    roots = [rec(t) for t in forest]
    rng.shuffle(roots)
    return tuple(roots), counter[0]


def build(roots, data, grid, incremental, rng):
    """children first; when `incremental`, every clone is created with its first point only and the others are
    added afterwards through add_data_point_to_node in random order (exercises _update_path_to_root)."""
    from phyclone.tree import Tree

    t = Tree(grid)
    later = []

    def rec(node):
        own, kids = node
        ch = [rec(k) for k in kids]
        if incremental:
            nid = t.create_root_node(children=ch, data=[data[own[0]]])
            later.extend((i, nid) for i in own[1:])
        else:
            nid = t.create_root_node(children=ch, data=[data[i] for i in own])
        return nid

    for r in roots:
        rec(r)
    rng.shuffle(later)
    for i, nid in later:
        t.add_data_point_to_node(data[i], nid)
    return t


def observe(tree):
    """pre-order view of the real tree through its accessors: list of (own point ids, child positions) and the per-node
    log_r (None when the private payload cannot be reached)."""
    nodes = []

    def rec(name):
        pos = len(nodes)
        rec_ = {"own": sorted(d.idx for d in tree.get_data(name)), "kids": [], "log_r": None}
        try:
            rec_["log_r"] = np.array(tree._graph[tree._node_indices[name]].log_r, dtype=float)
        except AttributeError:
            pass
        nodes.append(rec_)
        for c in tree.get_children(name):
            rec_["kids"].append(rec(c))
        return pos

    tops = [rec(r) for r in tree.roots]
    return nodes, tops, np.array(tree.data_log_likelihood, dtype=float)


# ------------------------------------------------------------------ the oracle: brute force over all assignments
def brute_buckets(kids_of, tops, pint, G):
    """kids_of[i] = child positions of node i (nodes 0..n-1 of a forest), tops = top-level nodes,
    pint[i][x] = integer weight of node i at grid index x.  Returns b[t] = sum over ALL index assignments in
    [0,G)^n that satisfy `index(i) >= sum of children's indices` at every node and whose top-level indices sum
    to t, of the product of the weights."""
    n = len(kids_of)
    b = {}
    for a in itertools.product(range(G), repeat=n):
        ok = True
        for i in range(n):
            ks = kids_of[i]
            if ks:
                s = 0
                for c in ks:
                    s += a[c]
                if s > a[i]:
                    ok = False
                    break
        if not ok:
            continue
        w = 1
        for i in range(n):
            w *= pint[i][a[i]]
        t = 0
        for c in tops:
            t += a[c]
        b[t] = b.get(t, 0) + w
    return b


def _sub(nodes, top_positions):
    """re-index the subforest hanging under the given positions"""
    order = []

    def rec(p):
        order.append(p)
        for c in nodes[p]["kids"]:
            rec(c)

    for p in top_positions:
        rec(p)
    idx = {p: i for i, p in enumerate(order)}
    kids_of = [[idx[c] for c in nodes[p]["kids"]] for p in order]
    return order, kids_of, [idx[p] for p in top_positions]


def oracle_task(args):
    """exact vectors of the virtual root and of every clone for one sample.
    args: nodes (own/kids only), tops, pvals[node][x] as (num, den) Fractions of the *data product only*, G."""
    nodes, tops, pnum, den_pow, G = args
    # pnum[i][x] / 16**den_pow[i] is the data product of node i; every node also carries the prior 1/G
    out = {}

    def vec_for(children_positions):
        order, kids_of, tp = _sub(nodes, children_positions)
        pint = [pnum[p] for p in order]
        b = brute_buckets(kids_of, tp, pint, G)
        scale = Fraction(1, 1)
        for p in order:
            scale *= Fraction(1, G * 16 ** den_pow[p])
        acc = 0
        res = []
        for k in range(G):
            acc += b.get(k, 0)
            res.append(acc * scale)
        return res

    root = vec_for(tops)
    out["root"] = [Fraction(1, G) * v for v in root]
    out["nodes"] = []
    for p in range(len(nodes)):
        s = vec_for(nodes[p]["kids"])
        own = Fraction(1, G * 16 ** den_pow[p])
        out["nodes"].append([own * pnum[p][x] * s[x] for x in range(G)])
    return out


def rel_err(obs, exact):
    exact = float(exact)
    if exact == 0.0:
        return float("inf")
    return abs(obs - exact) / abs(exact)


# ------------------------------------------------------------------ Coq printing
def qc(fr):
    return "(Q2Qc (%d # %d))" % (fr.numerator, fr.denominator)


def qq(x):
    fr = Fraction(x)
    return "(%d # %d)%%Q" % (fr.numerator, fr.denominator)


def coq_mtree(nodes, p, values):
    dps = "; ".join("[" + "; ".join("[" + "; ".join(qc(v) for v in row) + "]" for row in values[i]) + "]" for i in nodes[p]["own"])
    return "(Node [%s] [%s])" % (dps, "; ".join(coq_mtree(nodes, c, values) for c in nodes[p]["kids"]))


HEADER = "\n".join([
    "From PV Require Import Model.Marginal Model.CaseUtil.",
    "Open Scope nat_scope.",
    "Definition relclose (tol : Q) (a : Qc) (b : Q) : bool := Qle_bool (qabs (this a - b)) (tol * qabs b)%Q.",
    "Fixpoint allR (G : nat) (t : dtree) : list vec := match t with Node _ ks => R G t :: flat_map (allR G) ks end.",
    "Definition vclose (m : vec) (o : list Q) : bool :=",
    "  Nat.eqb (length m) (length o) && forallb (fun p => relclose (1#1000000000) (fst p) (snd p)) (combine m o).",
    "Definition rows_close (ms : list vec) (obs : list (list Q)) : bool :=",
    "  Nat.eqb (length ms) (length obs) && forallb (fun p => vclose (fst p) (snd p)) (combine ms obs).",
    "(* row s of the multi-sample root vector, and (when observed) every clone's vector in pre-order *)",
    "Definition chk (G n s : nat) (f : list mtree) (root : list Q) (per_node : list (list Q)) : bool :=",
    "  vclose (nth s (root_R_multi G n f) []) root",
    "  && match per_node with [] => true | _ => rows_close (flat_map (allR G) (map (proj s) f)) per_node end.",
])


# ------------------------------------------------------------------ main
def gen_values(rng, n_points, n_samples, G, den=16):
    return [[[Fraction(rng.randint(1, den), den) for _ in range(G)] for _ in range(n_samples)] for _ in range(n_points)]


def check_against_oracle(ctx, site, sig, obs_nodes, obs_root, orc, s, replay):
    """property-level comparison for one sample; returns worst relative error"""
    worst = 0.0
    G = len(orc["root"])
    key = "C02:%s:nodes=%d:kids=%d" % (site, sig[0], sig[1])
    for k in range(G):
        lr = float(obs_root[s][k])
        if not math.isfinite(lr):
            ctx.fail(key + ":nonfinite", "data_log_likelihood[%d][%d] is %r" % (s, k, lr), replay)
            return float("inf")
        e = rel_err(math.exp(lr), orc["root"][k])
        worst = max(worst, e)
        if e > TOL:
            ctx.fail(key, "data_log_likelihood[%d][%d]: exp = %.12g but the constrained sum is %.12g (rel %.3g)" % (s, k, math.exp(lr), float(orc["root"][k]), e), replay)
            return worst
    for p, nd in enumerate(obs_nodes):
        if nd["log_r"] is None:
            continue
        for x in range(G):
            e = rel_err(math.exp(float(nd["log_r"][s][x])), orc["nodes"][p][x])
            worst = max(worst, e)
            if e > TOL:
                ctx.fail(key + ":log_r", "clone at pre-order position %d, log_r[%d][%d]: exp = %.12g, constrained subtree sum %.12g (rel %.3g)" % (p, s, x, math.exp(float(nd["log_r"][s][x])), float(orc["nodes"][p][x]), e), replay)
                return worst
    return worst


def run(ctx):
    from phyclone.tree import Tree

    coq.check_property_file(ctx)
    quick = ctx.quick
    rng = ctx.rng
    nmax = 6 if quick else 7
    budget = 50000 if quick else 2500000  # G ** nodes bound for the brute force
    ctx.rule = (
        "every unlabelled forest shape with <= %d clones (exhaustive over shapes; sibling order, 1-3 data points per clone, grid size, "
        "1-%d samples and k/16 likelihood values drawn from the seeded generator), each built by create_root_node, by create_root_node + "
        "add_data_point_to_node, and through Tree.from_dict(to_dict()); compared entry by entry (root vector and every clone's log_r) with a "
        "brute force over all G^clones index assignments and with the Coq model evaluated by vm_compute; non-trivial = at least two clones; "
        "distinct = (shape, grid size, samples)" % (nmax, 2 if quick else 3)
    )
    ctx.exhaustive = True
    shapes = []
    for n in range(1, nmax + 1):
        shapes += [f for f in _forests(n)]
    cases = []
    for f in shapes:
        n = sum(_tsize(t) for t in f)
        reps = (3 if n <= 5 else 1) if quick else (5 if n <= 5 else (3 if n == 6 else 2))
        for rep in range(reps):
            gmax = 8 if quick else 12
            gs = [g for g in range(2, gmax + 1) if g**n <= budget]
            G = rng.choice(gs) if rep else max(gs[-1] if n >= 4 else rng.choice(gs), 2)
            S = rng.randint(1, 2 if quick else 3)
            cases.append((f, G, S, rep))
    if not quick:  # wide nodes: up to 6 children
        for kids in (5, 6):
            for G in (2, 3, 5):
                cases.append(((tuple(() for _ in range(kids)),), G, 1, 0))
                cases.append((tuple(() for _ in range(kids)), G, 2, 1))
    prepared = []
    tasks = []
    for ci, (f, G, S, rep) in enumerate(cases):
        roots, npts = assign_points(rng, f, 3 if rep else 1 + (ci % 2))
        values = gen_values(rng, npts, S, G)
        data = make_data(values)
        incremental = bool(ci % 2)
        tree = build(roots, data, (S, G), incremental, rng)
        nodes, tops, root_lr = observe(tree)
        tree2 = Tree.from_dict(tree.to_dict())
        if ci % 3:  # two thirds also go through shape-preserving edits (prune + graft back, relabel): ids / child order change
            from ..trees import scramble

            hist = [rng.choice([("regraft", rng.randrange(1000)), ("relabel",)]) for _ in range(rng.randint(1, 3))]
            tree2 = scramble(tree2, hist)
            ctx.count("second_view=from_dict+edits")
        nodes2, tops2, root_lr2 = observe(tree2)
        sig = shape_sig(f)
        ctx.count("clones=%d" % sig[0])
        ctx.count("max_children=%d" % sig[1])
        ctx.count("G=%d" % G)
        ctx.count("samples=%d" % S)
        ctx.count("build=%s" % ("incremental" if incremental else "create_root_node"))
        plain = [{"own": nd["own"], "kids": nd["kids"]} for nd in nodes]
        for s in range(S):
            pnum, dpow = [], []
            for nd in nodes:
                vec = [1] * G
                for i in nd["own"]:
                    for x in range(G):
                        vec[x] *= int(values[i][s][x] * 16)
                pnum.append(vec)
                dpow.append(len(nd["own"]))
            tasks.append((plain, tops, pnum, dpow, G))
        prepared.append((f, G, S, sig, values, nodes, tops, root_lr, nodes2, tops2, root_lr2, roots))
    ctx.log("%d cases, %d oracle tasks" % (len(cases), len(tasks)))
    with ProcessPoolExecutor(max_workers=6) as ex:
        oracles = list(ex.map(oracle_task, tasks, chunksize=1))
    ctx.log("oracle done")
    items, item_case = [], []
    ti = 0
    worst_all = 0.0
    for ci, (f, G, S, sig, values, nodes, tops, root_lr, nodes2, tops2, root_lr2, roots) in enumerate(prepared):
        replay = {"roots": roots, "grid": G, "samples": S, "values": [[[str(v) for v in row] for row in pt] for pt in values]}
        ctx.case(key=(f, G, S), nontrivial=sig[0] >= 2, sample={"shape": f, "G": G, "samples": S, "clones": sig[0], "max_children": sig[1]})
        same_layout = [(a["own"], a["kids"]) for a in nodes] == [(a["own"], a["kids"]) for a in nodes2]
        for s in range(S):
            orc = oracles[ti]
            ti += 1
            w = check_against_oracle(ctx, "Tree.data_log_likelihood", sig, nodes, root_lr, orc, s, replay)
            worst_all = max(worst_all, w if math.isfinite(w) else 0.0)
            if same_layout:
                check_against_oracle(ctx, "Tree.from_dict", sig, nodes2, root_lr2, orc, s, replay)
            else:
                # a different node order after the round trip is fine; compare the root vector only
                check_against_oracle(ctx, "Tree.from_dict", sig, [], root_lr2, orc, s, replay)
            # the Coq case
            forest_term = "[" + "; ".join(coq_mtree(nodes, p, values) for p in tops) + "]"
            root_obs = "[" + "; ".join(qq(math.exp(float(x))) for x in root_lr[s]) + "]"
            if all(nd["log_r"] is not None for nd in nodes):
                per = "[" + "; ".join("[" + "; ".join(qq(math.exp(float(x))) for x in nd["log_r"][s]) + "]" for nd in nodes) + "]"
            else:
                per = "[]"
                ctx.count("per_node_log_r_unreachable")
            items.append("chk %d %d %d %s %s %s" % (G, S, s, forest_term, root_obs, per))
            item_case.append(ci)
    ctx.extra["worst_rel_error_vs_bruteforce"] = worst_all
    ctx.log("worst relative error against the brute force: %.3g" % worst_all)
    ok, bad, detail = coq.coq_eval_bool_cases(ctx, "corr", HEADER, items, shard=max(10, len(items) // 6 + 1), workers=6)
    ctx.extra["coq_corr_cases"] = len(items)
    if not ok:
        ctx.broken_tie("C02 correspondence file did not evaluate", detail)
    else:
        ctx.obligation("corr_model_eq_impl_%d_cases" % len(items), not bad)
        if bad:
            c = prepared[item_case[bad[0]]]
            ctx.broken[-1]["detail"] = {"failing_case_count": len(bad), "first": {"shape": c[0], "G": c[1], "samples": c[2], "roots": c[11]}, "item": items[bad[0]][:600]}
    fft_stream(ctx, quick)
    many_children_stream(ctx, quick)
    extreme_stream(ctx, 60 if quick else 400)
    extreme_multisample(ctx, 3 if quick else 12)
    ctx.assumptions += [
        "exact rational arithmetic in the model: float rounding, the 1e-100 floor and FFT round-off are not modelled; they are validated on the FFT stream (exact big-integer oracle, forward noise bound) and the extreme-range stream (exact floor / underflow bounds); the quick tier runs reduced versions of both",
        "per-clone log_r is read through Tree._graph (private); when unreachable only the public root vector is compared",
        "likelihood values are k/16 (narrow dynamic range) on the exact streams so float error stays below 1e-12",
    ]


# ------------------------------------------------------------------ nodes with many children
def _exact_R(node, values, s, G):
    """the recursion in exact rationals (Proofs/Marginal*.v prove it equal to the constrained sum for every number of children)"""
    own, kids = node
    p = [Fraction(1, G)] * G
    for i in own:
        p = [a * b for a, b in zip(p, values[i][s])]
    if not kids:
        return p
    D = None
    for k in kids:
        Rk = _exact_R(k, values, s, G)
        D = Rk if D is None else [sum(D[i] * Rk[j - i] for i in range(j + 1)) for j in range(G)]
    acc, S = Fraction(0), []
    for j in range(G):
        acc += D[j]
        S.append(acc)
    return [a * b for a, b in zip(p, S)]


def many_children_stream(ctx, quick):
    """5 to 16 children under one node (the virtual root, or a clone): any pairwise / blocked reduction of the children's
    convolution must still use every child.  Too many clones for the brute force; oracle = the exact-rational recursion."""
    rng = ctx.rng
    counts = [5, 6, 7, 8, 10, 13, 16] if quick else list(range(5, 21))
    for nk in counts:
        for under_clone in (False, True):
            G = rng.choice([3, 4])
            ns = rng.choice([1, 2])
            npts = nk + (1 if under_clone else 0)
            values = gen_values(rng, npts, ns, G)
            leaves = tuple(((i,), ()) for i in range(nk))
            roots = (((nk,), leaves),) if under_clone else leaves
            from ..trees import make_data
            data = make_data(values)
            for mode in ("direct", "incremental", "dict"):
                from phyclone.tree import Tree
                t = build(roots, data, (ns, G), mode == "incremental", rng)
                if mode == "dict":
                    t = Tree.from_dict(t.to_dict())
                obs = np.array(t.data_log_likelihood, dtype=float)
                ctx.case(key=("many-children", nk, under_clone, mode), nontrivial=True)
                ctx.count("many_children=%d" % nk)
                for smp in range(ns):
                    ex = _exact_R(((), roots), values, smp, G)
                    for k in range(G):
                        lr = float(obs[smp][k])
                        if not math.isfinite(lr) or rel_err(math.exp(lr), ex[k]) > TOL:
                            ctx.fail("C02:Tree.data_log_likelihood:many-children:kids=%d" % nk,
                                     "data_log_likelihood[%d][%d]: exp = %.12g but the constrained sum is %.12g for a node with %d children (%s build)" % (smp, k, math.exp(lr) if math.isfinite(lr) else float("nan"), float(ex[k]), nk, mode),
                                     {"children": nk, "under_clone": under_clone, "grid": G, "samples": ns, "build": mode, "values": [[[str(x) for x in row] for row in v] for v in values]})
                            break


# ------------------------------------------------------------------ thorough: FFT path
def _kron_conv(a, b, G):
    """exact truncated convolution of non-negative integer lists by Kronecker substitution"""
    bits = max(max(a).bit_length(), 1) + max(max(b).bit_length(), 1) + G.bit_length() + 2
    A = sum(v << (i * bits) for i, v in enumerate(a))
    Bv = sum(v << (i * bits) for i, v in enumerate(b))
    P = A * Bv
    mask = (1 << bits) - 1
    return [(P >> (i * bits)) & mask for i in range(G)]


def _kron_full(a, b):
    """exact FULL convolution (length len(a)+len(b)-1) of non-negative integer lists"""
    n = len(a) + len(b) - 1
    bits = max(max(a).bit_length(), 1) + max(max(b).bit_length(), 1) + n.bit_length() + 2
    A = sum(v << (i * bits) for i, v in enumerate(a))
    Bv = sum(v << (i * bits) for i, v in enumerate(b))
    P = A * Bv
    mask = (1 << bits) - 1
    return [(P >> (i * bits)) & mask for i in range(n)]


FFT_NOISE = 1e-15  # assumed bound on the absolute error of one fftconvolve entry, in units of ||a||_2 ||b||_2
# Reading of "about 1e-6 of the row peak on the FFT path".  False (default): the row is the one fftconvolve returns,
# before truncation to the grid (noise-floor reading; nothing fails on the pinned code).  True: the truncated row's own
# peak (literal reading; fails on the pinned code whenever sibling likelihoods peak at CCFs summing above one, see
# fft_truncation_example).  Reported to the orchestrator as a candidate finding; not decided here.
FFT_LITERAL_WINDOW = False
EXP_LOG = 1e-13  # relative error of one exp/log round trip of a log-domain value (|log| up to a few hundred)


def fft_case(ctx, G, kind, nkids, under_clone, ints, st):
    """one tree on the FFT path: nkids leaf clones (optionally under one more clone), values ints / 2^30"""
    from phyclone.tree import Tree

    bits = 30
    ints = [list(r) for r in ints]
    values = [[[Fraction(v, 1 << bits) for v in row]] for row in ints]
    data = make_data(values)
    t = Tree((1, G))
    kid_ids = [t.create_root_node(children=[], data=[data[i]]) for i in range(nkids)]
    if under_clone:
        par = t.create_root_node(children=kid_ids, data=[data[nkids]])
        sibs = t.get_children(par)
    else:
        sibs = t.roots
    # the exact value does not depend on the order of the children, the FFT noise does: follow the
    # order the tree hands to compute_log_D
    order = [t.get_data(c)[0].idx for c in sibs]
    ints = [ints[i] for i in order] + ints[nkids:]
    obs = np.array(t.data_log_likelihood, dtype=float)[0]
    key = "C02:Tree.data_log_likelihood:fft:kids=%d" % nkids
    replay = {"grid": G, "kind": kind, "children": nkids, "under_clone": under_clone, "ints_over_2^30": ints}
    ctx.case(key=("fft", G, kind, nkids, under_clone), nontrivial=True, sample={"fft": True, "G": G, "kind": kind, "children": nkids, "under_clone": under_clone})
    ctx.count("fft_G=%d" % G)
    ctx.count("fft_kind=%s" % kind)
    if not np.all(np.isfinite(obs)):
        ctx.fail(key + ":nonfinite", "non-finite entry on the FFT path", replay)
        return
    # exact recursion on integers over a common denominator, with a float error bound alongside
    unit = G << bits  # every clone's p = int / unit
    a_int, a_den = ints[0], unit
    a_f = np.array([v / a_den for v in a_int])
    a_e = EXP_LOG * a_f
    literal_ok = np.ones(G, dtype=bool)
    for jk in range(1, nkids):
        b_int = ints[jk]
        b_f = np.array([v / unit for v in b_int])
        b_e = EXP_LOG * b_f
        full = _kron_full(a_int, b_int)
        out_int = full[:G]
        out_den = a_den * unit
        out_f = np.array([v / out_den for v in out_int])
        noise = FFT_NOISE * float(np.linalg.norm(a_f + a_e)) * float(np.linalg.norm(b_f + b_e))
        out_e = np.convolve(a_f, b_e)[:G] + np.convolve(a_e, b_f)[:G] + np.convolve(a_e, b_e)[:G] + noise + EXP_LOG * out_f
        fullpeak = max(full) / out_den
        literal_ok &= out_f * 1e6 >= fullpeak
        a_int, a_den, a_f, a_e = out_int, out_den, out_f, out_e
    S_int, run = [], 0
    for k in range(G):
        run += a_int[k]
        S_int.append(run)
    S_e = np.cumsum(a_e) * (1 + 1e-13)
    S_den = a_den
    if under_clone:
        pn = ints[nkids]
        R_int = [pn[x] * S_int[x] for x in range(G)]
        R_e = np.array([pn[x] / unit for x in range(G)]) * S_e * (1 + 1e-13) + EXP_LOG * np.array([R_int[x] / (S_den * unit) for x in range(G)])
        S_den = S_den * unit
        S_int, run = [], 0
        for k in range(G):
            run += R_int[k]
            S_int.append(run)
        S_e = np.cumsum(R_e) * (1 + 1e-13)
    exact = [Fraction(v, S_den * G) for v in S_int]
    ex_f = np.array([float(e) for e in exact])
    err = S_e / G + EXP_LOG * ex_f
    lin = np.exp(obs)
    # information only: the literal reading "above 1e-6 of the (truncated) row's own peak"
    lit = ex_f * 1e6 >= ex_f.max()
    ctx.extra["fft_info_worst_rel_error_above_1e-6_of_truncated_row_peak"] = max(
        ctx.extra.get("fft_info_worst_rel_error_above_1e-6_of_truncated_row_peak", 0.0), float(np.max(np.abs(lin[lit] - ex_f[lit]) / ex_f[lit])))
    if FFT_LITERAL_WINDOW and float(np.max(np.abs(lin[lit] - ex_f[lit]) / ex_f[lit])) > 1e-6:
        k = int(np.argmax(np.where(lit, np.abs(lin - ex_f) / ex_f, 0.0)))
        ctx.fail("C02:Tree.data_log_likelihood:fft:truncated_row:kids=%d" % nkids, "entry %d is above 1e-6 of its row's peak but exp = %.6g, exact %.6g" % (k, lin[k], ex_f[k]), replay)
        return
    for k in range(G):
        st['all'] += 1
        d = abs(lin[k] - ex_f[k])
        ctx.extra["fft_max_fraction_of_noise_bound"] = max(ctx.extra.get("fft_max_fraction_of_noise_bound", 0.0), float(d / (err[k] + 1e-9 * ex_f[k])))
        if d > err[k] + 1e-9 * ex_f[k]:
            ctx.fail(key, "entry %d: exp = %.12g, exact %.12g, difference %.3g exceeds the FFT noise bound %.3g" % (k, lin[k], ex_f[k], d, err[k]), replay)
            return
        if err[k] <= 1e-7 * ex_f[k]:
            st['in'] += 1
            e = d / ex_f[k]
            st['worst'] = max(st['worst'], e)
            if e > 1e-7:
                ctx.fail(key + ":window", "entry %d inside the window: exp = %.12g, exact %.12g (rel %.3g)" % (k, lin[k], ex_f[k], e), replay)
                return
        elif all(literal_ok[: k + 1]):
            st['lit'] += 1


def fft_truncation_example(ctx):
    """information only (see FFT_LITERAL_WINDOW): two sibling clones with binomial likelihoods at read depth 1000 peaking
    at CCF 0.7 and 0.8 on a 1000-point grid; the truncated convolution row lies entirely below the FFT noise floor."""
    from phyclone.data.base import DataPoint
    from phyclone.tree import Tree
    from scipy.special import logsumexp

    G, n = 1000, 1000
    lv = []
    for c in (0.7, 0.8):
        f = (np.arange(G) + 0.5) / G * 0.5
        k = round(n * c * 0.5)
        lv.append((math.lgamma(n + 1) - math.lgamma(k + 1) - math.lgamma(n - k + 1) + k * np.log(f) + (n - k) * np.log1p(-f))[None, :])
    t = Tree((1, G))
    for i, v in enumerate(lv):
        t.create_root_node(children=[], data=[DataPoint(i, v, outlier_prob=0, outlier_prob_not=0.0)])
    obs = float(np.array(t.data_log_likelihood)[0][-1])
    lp = [v[0] - math.log(G) for v in lv]
    ref = float(logsumexp(lp[0] + np.logaddexp.accumulate(lp[1])[::-1]) - math.log(G))
    ctx.extra["fft_info_truncation_example"] = {"reported_log_root_last": obs, "log_domain_reference": ref, "difference": obs - ref}
    if FFT_LITERAL_WINDOW and abs(obs - ref) > 1e-6:
        ctx.fail("C02:Tree.data_log_likelihood:fft:truncated_row:kids=2", "binomial depth 1000, siblings peaking at CCF 0.7 and 0.8, grid 1000: reported log %.4f, exact %.4f" % (obs, ref), {"grid": G, "depth": n, "ccf_peaks": [0.7, 0.8]})


def fft_stream(ctx, quick=False):
    """G >= 1000 switches _convolve_two_children to scipy's fftconvolve.  Oracle: the same recursion in exact integer
    arithmetic (Kronecker substitution).  The FFT path cannot be exact below its noise floor, so the check carries a
    forward error bound: every FFT convolution entry is allowed an absolute error FFT_NOISE * ||a||_2 * ||b||_2 (about
    1e-15 of the peak of the row fftconvolve returns, before it is truncated to the grid), propagated exactly through
    the later convolutions, running sums and products.  An entry is *inside the window* when that bound is below 1e-7
    of the exact value - this contains every entry above 1e-6 of the peak of the (untruncated) convolution row - and
    there the reported value must agree to 1e-7; every entry must be finite and within the bound."""
    rng = ctx.rng
    bits = 30
    st = {'all': 0, 'in': 0, 'lit': 0, 'worst': 0.0}
    for G in (1000,) if quick else (1000, 1024):
        for kind in ("random", "peaked", "peaked_high"):
            for nkids in ((2, 3) if kind == "random" else (2,)) if quick else (2, 3):
                for under_clone in (False,) if quick and kind != "peaked" else (False, True):
                    npts = nkids + (1 if under_clone else 0)
                    ints = []
                    for _ in range(npts):
                        if kind == "random":
                            ints.append([rng.randint(1, 16) << (bits - 4) for _ in range(G)])
                        else:
                            lo, hi = (0.05, 0.45) if kind == "peaked" else (0.55, 0.95)
                            c = rng.uniform(lo, hi) * G
                            w = rng.uniform(0.01, 0.08) * G
                            ints.append([max(1, int(round((1 << bits) * math.exp(-(((i - c) / w) ** 2))))) for i in range(G)])
                    fft_case(ctx, G, kind, nkids, under_clone, ints, st)
    fft_truncation_example(ctx)
    ctx.extra["fft_entries"] = st['all']
    ctx.extra["fft_entries_in_window"] = st['in']
    ctx.extra["fft_worst_rel_error_in_window"] = st['worst']
    ctx.extra["fft_entries_above_1e-6_of_every_row_peak_but_outside_noise_window"] = st['lit']
    ctx.log("FFT stream: %d entries, %d inside the window, worst relative error there %.3g; %d entries above 1e-6 of every untruncated row peak fall outside the noise window" % (st['all'], st['in'], st['worst'], st['lit']))


# ------------------------------------------------------------------ thorough: extreme dynamic range (direct path)
FLOOR = Fraction(1, 10**100)  # log_D[log_D <= 0] = 1e-100, in units of the product of the two arguments' peaks
UNDERFLOW = Fraction(1, 10**306)  # products / exponentials below ~2.3e-308 of the peaks are lost by float arithmetic


def _flog(fr):
    return math.log(fr.numerator) - math.log(fr.denominator)


def _bounds(tree, name, values, s, G):
    """exact vector of a clone (name=None: the virtual root) and absolute bounds (up, low) such that float arithmetic
    with the 1e-100 floor reports a value in [exact - low, exact + up] up to relative rounding; children are taken in
    the order the tree hands them to compute_log_D (the exact value is order independent, the floor is not)."""
    if name is None:
        p = [Fraction(1, G)] * G
        kids = tree.roots
    else:
        p = []
        for x in range(G):
            v = Fraction(1, G)
            for d in tree.get_data(name):
                v *= values[d.idx][s][x]
            p.append(v)
        kids = tree.get_children(name)
    zero = [Fraction(0)] * G
    if not kids:
        return p, zero, zero
    ch = [_bounds(tree, c, values, s, G) for c in kids]

    def conv(a, b):
        return [sum(a[j] * b[k - j] for j in range(k + 1)) for k in range(G)]

    def stage(A, B):
        (a, ua, la), (b, ub, lb) = A, B
        ex = conv(a, b)
        hi = conv([x + u for x, u in zip(a, ua)], [x + u for x, u in zip(b, ub)])
        lo = conv([max(x - l, 0) for x, l in zip(a, la)], [max(x - l, 0) for x, l in zip(b, lb)])
        pk = max(x + u for x, u in zip(a, ua)) * max(x + u for x, u in zip(b, ub))
        up = [h - e + FLOOR * pk for h, e in zip(hi, ex)]
        low = [e - l + 3 * G * UNDERFLOW * pk for e, l in zip(ex, lo)]
        return ex, up, low

    if len(ch) == 1:
        D = ch[0]
    else:
        D = stage(ch[0], ch[1])
        for j in range(2, len(ch)):
            D = stage(ch[j], D)
    out = []
    for comp in D:
        run, acc = Fraction(0), []
        for k in range(G):
            run += comp[k]
            acc.append(p[k] * run)
        out.append(acc)
    return tuple(out)


def nodes_of(roots):
    out = []

    def rec(n):
        out.append(n)
        for k in n[1]:
            rec(k)

    for r in roots:
        rec(r)
    return out


def max_kids(roots):
    return max([len(roots)] + [len(n[1]) for n in nodes_of(roots)])


def extreme_case(ctx, roots, G, exps, st):
    """one small forest with exact power-of-ten likelihood values 10^exps[point][grid index] (one sample)"""
    rng = ctx.rng
    values = [[[Fraction(1, 10 ** (-e)) for e in row]] for row in exps]
    data = make_data(values)
    t = build(roots, data, (1, G), False, rng)
    obs = np.array(t.data_log_likelihood, dtype=float)[0]
    sig = (len(nodes_of(roots)), max_kids(roots), 0)
    key = "C02:Tree.data_log_likelihood:extreme_range:kids=%d" % sig[1]
    replay = {"roots": roots, "grid": G, "log10_values": exps}
    ctx.case(key=("extreme", st["in"] + st["out"]), nontrivial=True)
    ctx.count("extreme_max_children=%d" % sig[1])
    if not np.all(np.isfinite(obs)):
        ctx.fail(key + ":nonfinite", "non-finite entry", replay)
        return
    ex, up, low = _bounds(t, None, values, 0, G)
    for k in range(G):
        lex = _flog(ex[k])
        if obs[k] > _flog(ex[k] + up[k]) + 1e-9:
            ctx.fail(key + ":above_floor_bound", "entry %d: reported log %.12g exceeds log(exact + floor slack) = %.12g (exact log %.12g)" % (k, obs[k], _flog(ex[k] + up[k]), lex), replay)
            return
        if ex[k] - low[k] > 0 and obs[k] < _flog(ex[k] - low[k]) - 1e-9:
            ctx.fail(key + ":below_exact", "entry %d: reported log %.12g is below the exact log %.12g" % (k, obs[k], lex), replay)
            return
        if (up[k] + low[k]) * 10**10 <= ex[k]:
            st['in'] += 1
            e = abs(obs[k] - lex)
            st['worst'] = max(st['worst'], e)
            if e > 1e-9:
                ctx.fail(key, "entry %d inside the floor window: log value %.12g, exact %.12g" % (k, obs[k], lex), replay)
                return
        else:
            st['out'] += 1


def extreme_stream(ctx, reps=400):
    """small forests whose likelihood values span hundreds of orders of magnitude (exact powers of ten).
    What the property states for the direct path, made checkable: the reported value lies between
    exact - (float underflow granularity) and exact + (1e-100 of the peak product, per convolution entry, propagated
    exactly through the later convolutions / running sums / products); an entry is *inside the window* when both
    slacks are below 1e-10 of the exact value, and there the reported value must agree to 1e-9; every entry is finite."""
    rng = ctx.rng
    st = {'in': 0, 'out': 0, 'worst': 0.0}
    shapes = []
    for n in range(2, 5):
        shapes += [f for f in _forests(n) if shape_sig(f)[1] >= 2]
    for rep in range(reps):
        f = rng.choice(shapes)
        G = rng.randint(3, 10)
        roots, npts = assign_points(rng, f, 1)
        exps = [[-rng.choice((0, 0, 0, 1, 5, 20, 40, 60, 90, 120, 150, 200, 280)) for _ in range(G)] for _ in range(npts)]
        extreme_case(ctx, roots, G, exps, st)
    ctx.extra["extreme_entries_in_window"] = st['in']
    ctx.extra["extreme_entries_below_window"] = st['out']
    ctx.extra["extreme_worst_log_error_in_window"] = st['worst']
    ctx.log("extreme stream: %d entries inside the window (worst log error %.3g), %d below it" % (st['in'], st['worst'], st['out']))


def extreme_multisample(ctx, reps=3):
    """The direct path (and its floor window) must be used for every grid below 1000 points whatever the number of
    samples: forests with few grid points but enough samples that samples x grid >= 1000, extreme-range values,
    every sample row checked against the exact bounds of the direct path."""
    rng = ctx.rng
    st = {'in': 0, 'out': 0, 'worst': 0.0}
    shapes = []
    for n in range(2, 4):
        shapes += [f for f in _forests(n) if shape_sig(f)[1] >= 2]
    for rep in range(reps):
        f = rng.choice(shapes)
        G = rng.randint(5, 9)
        NS = -(-1000 // G) + rng.randint(1, 20)
        roots, npts = assign_points(rng, f, 1)
        exps = [[[-rng.choice((0, 0, 0, 1, 5, 20, 40, 60, 90)) for _ in range(G)] for _ in range(NS)] for _ in range(npts)]
        values = [[[Fraction(1, 10 ** (-e)) for e in row] for row in pt] for pt in exps]
        data = make_data(values)
        t = build(roots, data, (NS, G), False, rng)
        obs = np.array(t.data_log_likelihood, dtype=float)
        key = "C02:Tree.data_log_likelihood:extreme_range:many_samples"
        replay = {"roots": roots, "grid": G, "samples": NS, "log10_values_first_rows": [pt[:2] for pt in exps]}
        ctx.case(key=("extreme_ms", rep), nontrivial=True)
        ctx.count("extreme_many_samples")
        bad = False
        for srow in range(NS):
            ex, up, low = _bounds(t, None, values, srow, G)
            for k in range(G):
                lex = _flog(ex[k])
                o = obs[srow][k]
                if not np.isfinite(o):
                    ctx.fail(key + ":nonfinite", "non-finite entry", replay); bad = True; break
                if o > _flog(ex[k] + up[k]) + 1e-9 or (ex[k] - low[k] > 0 and o < _flog(ex[k] - low[k]) - 1e-9):
                    ctx.fail(key, "sample %d entry %d: reported log %.12g outside the direct path's bounds around the exact log %.12g (samples x grid = %d >= 1000, grid %d < 1000)" % (srow, k, o, lex, NS * G, G), replay); bad = True; break
                if (up[k] + low[k]) * 10**10 <= ex[k]:
                    st['in'] += 1
                    if abs(o - lex) > 1e-9:
                        ctx.fail(key, "sample %d entry %d inside the floor window: log value %.12g, exact %.12g" % (srow, k, o, lex), replay); bad = True; break
                else:
                    st['out'] += 1
            if bad:
                break
    ctx.extra["extreme_many_samples_entries_in_window"] = st['in']
    ctx.log("extreme many-samples stream: %d entries inside the window, %d below" % (st['in'], st['out']))


# ------------------------------------------------------------------ replay of one recorded failing input
def replay(ctx, doc):
    from phyclone.tree import Tree

    r = doc.get("replay", {})
    if "ints_over_2^30" in r:
        st = {'all': 0, 'in': 0, 'lit': 0, 'worst': 0.0}
        fft_case(ctx, r["grid"], r["kind"], r["children"], r["under_clone"], r["ints_over_2^30"], st)
        return
    if "log10_values" in r:
        st = {'in': 0, 'out': 0, 'worst': 0.0}
        extreme_case(ctx, _tuplify(r["roots"]), r["grid"], r["log10_values"], st)
        return
    if "values" not in r:
        ctx.broken_tie("replay file has no recognised input", doc)
        return
    roots, G, S = _tuplify(r["roots"]), r["grid"], r["samples"]
    values = [[[Fraction(v) for v in row] for row in pt] for pt in r["values"]]
    items = []
    for incremental in (False, True):
        tree = build(roots, make_data(values), (S, G), incremental, ctx.rng)
        for site, tr in (("Tree.data_log_likelihood", tree), ("Tree.from_dict", Tree.from_dict(tree.to_dict()))):
            nodes, tops, root_lr = observe(tr)
            plain = [{"own": nd["own"], "kids": nd["kids"]} for nd in nodes]
            sig = (len(nodes), max_kids(roots), 0)
            for s in range(S):
                pnum = [[math.prod(int(values[i][s][x] * 16) for i in nd["own"]) for x in range(G)] for nd in nodes]
                orc = oracle_task((plain, tops, pnum, [len(nd["own"]) for nd in nodes], G))
                w = check_against_oracle(ctx, site, sig, nodes, root_lr, orc, s, r)
                ctx.log("%s incremental=%s sample %d: worst relative error %.3g" % (site, incremental, s, w))
                ctx.case(key=(site, incremental, s), nontrivial=True)
                forest_term = "[" + "; ".join(coq_mtree(nodes, p, values) for p in tops) + "]"
                root_obs = "[" + "; ".join(qq(math.exp(float(x))) for x in root_lr[s]) + "]"
                items.append("chk %d %d %d %s %s []" % (G, S, s, forest_term, root_obs))
    ok, bad, detail = coq.coq_eval_bool_cases(ctx, "replay", HEADER, items, shard=len(items))
    ctx.obligation("replay_model_eq_impl_%d_cases" % len(items), ok and not bad, detail)


def _tuplify(x):
    return tuple(_tuplify(y) for y in x) if isinstance(x, (list, tuple)) else x
