"""C14 - memoised recursion and proposal results equal unmemoised computation.

Every cached entry point of /repo is shadowed by a wrapper that calls the memoised original AND the undecorated function
(`__wrapped__`) on the same arguments at the same moment and compares:
  phyclone.tree.utils.compute_log_S (also bound in phyclone.tree.tree_node), phyclone.tree.utils._convolve_two_children,
  phyclone.smc.kernels.semi_adapted._get_cached_semi_proposal_dist / get_cached_new_tree,
  phyclone.smc.kernels.fully_adapted._get_cached_full_proposal_dist
during real multi-sweep run_phyclone_chain runs (concentration update on, so alpha changes between sweeps; the driver
clears the proposal caches every iteration; the array caches persist across runs of a worker process).
Data are generated INSIDE the underflow window of C02 (every normalised convolution entry >= 1e-100): small-rational
likelihood grids and binomial counts of depth <= 8.  A separate deep-coverage stream (outside the window, where the
1e-100 floor makes the 3+-child convolution order dependent and the property does not apply) is reported as information.
Correspondence with the Coq table: the real decorators (lru_cache, list_of_np_cache, two_np_arr_cache) with small
capacities on random call/clear histories, and the hit/miss sequence of the real caches during a run, against
hit_flags / run of Model/Memo.v."""
import itertools
import math
import os
from concurrent.futures import ProcessPoolExecutor

from .. import coq, runs

WORKERS = 6
LOG_FLOOR = math.log(1e-100)
TOL = 1e-9


# ---------------------------------------------------------------- shadows (installed inside a worker process)
TOL_FFT = 1e-5


class Shadow:
    def __init__(self):
        import numpy as np

        import phyclone.smc.kernels.fully_adapted as fa
        import phyclone.smc.kernels.semi_adapted as sa
        import phyclone.tree.tree_node as tn
        import phyclone.tree.utils as tu

        self.np, self.tu, self.tn, self.sa, self.fa = np, tu, tn, sa, fa
        self.stats = {}
        self.mismatches = []
        self.problems = []
        self.keylog = {"conv": [], "logS": []}
        self.keylog_limit = 0
        self.alphas = set()
        self.orig = {
            "logS": tu.compute_log_S,
            "conv": tu._convolve_two_children,
            "semi": sa._get_cached_semi_proposal_dist,
            "new_tree": sa.get_cached_new_tree,
            "full": fa._get_cached_full_proposal_dist,
        }
        self.raw = {}
        for k, fn in self.orig.items():
            raw = getattr(fn, "__wrapped__", None)
            if raw is None:
                self.problems.append("no __wrapped__ on " + k)
            self.raw[k] = raw
        self.window_flag = True

    def stat(self, name):
        return self.stats.setdefault(name, {"calls": 0, "hits": 0, "hits_compared": 0, "max_diff": 0.0, "mismatch_in_window": 0, "mismatch_out_of_window": 0, "out_of_window_calls": 0})

    # ---- arrays
    def _raw_conv_window(self, a, b):
        """undecorated pairwise convolution; remembers whether a normalised entry fell to / below the floor"""
        np = self.np
        res = self.raw["conv"](a, b)
        norm = res - np.max(a, axis=-1, keepdims=True) - np.max(b, axis=-1, keepdims=True)
        if not bool(np.all(norm > LOG_FLOOR + 1e-6)):
            self.window_flag = False
        return res

    def _ref_logS(self, children):
        """the repo's own unmemoised call path: undecorated compute_log_S with the undecorated convolution"""
        np, tu = self.np, self.tu
        saved = tu._convolve_two_children
        tu._convolve_two_children = self._raw_conv_window
        try:
            return self.raw["logS"](np.array(children, order="C"))
        finally:
            tu._convolve_two_children = saved

    def _close(self, a, b):
        np = self.np
        a, b = np.asarray(a, dtype=float), np.asarray(b, dtype=float)
        if a.shape != b.shape:
            return False, float("inf")
        both_inf = np.isneginf(a) & np.isneginf(b)
        d = np.where(both_inf, 0.0, np.abs(a - b))
        scale = np.maximum(1.0, np.maximum(np.abs(np.where(both_inf, 0.0, a)), np.abs(np.where(both_inf, 0.0, b))))
        rel = float(np.max(d / scale)) if d.size else 0.0
        # from 1000 grid points on the convolution goes through the FFT, whose round-off (C02: about 1e-6 of the row peak)
        # makes argument order matter at the 1e-8 level: compare those at 1e-5
        tol = TOL_FFT if (a.ndim and a.shape[-1] >= 1000) else TOL
        return (not math.isnan(rel)) and rel <= tol, rel

    def _hit(self, name, before):
        after = self.orig[name].cache_info()
        return after.hits > before.hits

    def shadow_conv(self, a, b, *args, **kw):
        st = self.stat("conv")
        st["calls"] += 1
        before = self.orig["conv"].cache_info()
        res = self.orig["conv"](a, b, *args, **kw)
        hit = self._hit("conv", before)
        self.window_flag = True
        ref = self._raw_conv_window(a, b)
        self._raw_conv_window(b, a)  # the cached value may stem from the swapped call
        inside = self.window_flag
        self._account("conv", st, hit, res, ref, inside, lambda: {"shapes": [list(a.shape), list(b.shape)], "a": a.tolist(), "b": b.tolist()})
        if len(self.keylog["conv"]) < self.keylog_limit:
            from xxhash import xxh3_64_hexdigest

            self.keylog["conv"].append((tuple(sorted({xxh3_64_hexdigest(a), xxh3_64_hexdigest(b)})), hit))
        return res

    def shadow_logS(self, children, *args, **kw):
        st = self.stat("logS")
        st["calls"] += 1
        before = self.orig["logS"].cache_info()
        res = self.orig["logS"](children, *args, **kw)
        hit = self._hit("logS", before)
        self.window_flag = True
        ref = self._ref_logS(children)
        inside = self.window_flag
        ok, rel = self._close(res, ref)
        if not ok and inside and len(children) <= 5:
            # the cached value was computed for SOME order of this multiset: the window must hold for every order
            for perm in itertools.permutations(range(len(children))):
                self._ref_logS([children[i] for i in perm])
            inside = self.window_flag
        self._account("logS", st, hit, res, ref, inside, lambda: {"n_children": len(children), "children": [c.tolist() for c in children]})
        if len(self.keylog["logS"]) < self.keylog_limit:
            from xxhash import xxh3_64_hexdigest

            self.keylog["logS"].append((tuple(sorted(xxh3_64_hexdigest(c) for c in children)), hit))
        return res

    def _account(self, name, st, hit, res, ref, inside, describe):
        ok, rel = self._close(res, ref)
        if hit:
            st["hits"] += 1
            st["hits_compared"] += 1
        if not inside:
            st["out_of_window_calls"] += 1
        if inside:
            st["max_diff"] = max(st["max_diff"], rel if math.isfinite(rel) else 1e300)
        if not ok:
            if inside:
                st["mismatch_in_window"] += 1
                if len(self.mismatches) < 3:
                    self.mismatches.append({"cache": name, "hit": hit, "rel_diff": rel, "call_index": st["calls"], "args": describe()})
            else:
                st["mismatch_out_of_window"] += 1
                st["max_out_of_window_diff"] = max(st.get("max_out_of_window_diff", 0.0), rel if math.isfinite(rel) else 1e300)

    # ---- proposal distributions
    @staticmethod
    def _holder_spec(h):
        from pv.trees import tree_spec

        return tree_spec(h.tree)

    def _dist_view(self, dist):
        """outcome-by-outcome view of a proposal distribution: sorted [(canonical tree, log-probability)] + constants"""
        items = sorted(((self._holder_spec(h), float(lp)) for h, lp in dist._log_p.items()), key=lambda x: (repr(x[0]), x[1]))
        view = {"log_p": items}
        if hasattr(dist, "_q_dist"):
            view["q"] = [(self._holder_spec(h), float(q)) for h, q in zip(dist._curr_trees, dist._q_dist)]
            view["empty"] = bool(dist.parent_is_empty_tree)
            if not dist.parent_is_empty_tree:
                view["log_old_roots"] = float(dist._cached_log_old_num_roots)
        return view

    def _cmp_views(self, a, b):
        worst = 0.0
        if [x[0] for x in a["log_p"]] != [x[0] for x in b["log_p"]]:
            return False, float("inf"), "candidate trees differ"
        for (_, x), (_, y) in zip(a["log_p"], b["log_p"]):
            if x == y:
                continue
            worst = max(worst, abs(x - y))
        if "q" in a or "q" in b:
            if [x[0] for x in a.get("q", [])] != [x[0] for x in b.get("q", [])]:
                return False, float("inf"), "sampling order of candidates differs"
            for (_, x), (_, y) in zip(a["q"], b["q"]):
                worst = max(worst, abs(x - y))
            if a.get("empty") != b.get("empty"):
                return False, float("inf"), "parent_is_empty_tree differs"
            if a.get("log_old_roots") != b.get("log_old_roots"):
                worst = max(worst, abs(a.get("log_old_roots", 0.0) - b.get("log_old_roots", 0.0)))
        return (not math.isnan(worst)) and worst <= TOL, worst, "log-probabilities differ"

    def _shadow_dist(self, name, data_point, kernel, parent_particle, op, alpha):
        st = self.stat(name)
        st["calls"] += 1
        self.alphas.add(float(alpha))
        pp = parent_particle
        st0 = list(pp._built_tree) if pp is not None else None
        before = self.orig[name].cache_info()
        res = self.orig[name](data_point, kernel, pp, op, alpha)
        hit = self._hit(name, before)
        if pp is not None:
            st1 = list(pp._built_tree)
            pp._built_tree.clear()
            pp._built_tree.extend(st0)  # the undecorated function pops the tree handed over by the kernel
        ref = self.raw[name](data_point, kernel, pp, op, alpha)
        if pp is not None:
            pp._built_tree.clear()
            pp._built_tree.extend(st1)
        if float(kernel.tree_dist.prior.alpha) != float(alpha):
            self.problems.append("%s: alpha argument %r differs from the kernel's current alpha %r" % (name, alpha, kernel.tree_dist.prior.alpha))
        ok, worst, why = self._cmp_views(self._dist_view(res), self._dist_view(ref))
        # every candidate handed out carries log_p / log_p_one: they must be what the joint distribution gives for that tree
        # NOW (at the kernel's current concentration), however the candidate was obtained (a memo that lives outside the
        # decorated functions - on the kernel, on a particle - is not seen by the comparison with the undecorated function)
        if ok:
            td = kernel.tree_dist
            for h in list(res._log_p.keys()):
                try:
                    now = td.compute_both_log_p_and_log_p_one(h.tree)
                    dh = max(abs(float(h.log_p) - float(now[0])), abs(float(h.log_p_one) - float(now[1])))
                except Exception as e:  # noqa: BLE001
                    self.problems.append("%s: candidate densities could not be recomputed: %r" % (name, e))
                    break
                st["holders_checked"] = st.get("holders_checked", 0) + 1
                if not dh <= TOL * max(1.0, abs(float(now[0]))):
                    ok, worst, why = False, dh, "a candidate's stored log_p / log_p_one differ from the joint distribution's value for its tree at the current concentration"
                    break
        if hit:
            st["hits"] += 1
            st["hits_compared"] += 1
        st["max_diff"] = max(st["max_diff"], worst if math.isfinite(worst) else 1e300)
        if not ok:
            st["mismatch_in_window"] += 1
            if len(self.mismatches) < 3:
                self.mismatches.append({"cache": name, "hit": hit, "why": why, "diff": worst, "call_index": st["calls"], "data_point": int(data_point.idx), "alpha": float(alpha), "parent": None if pp is None else repr(self._holder_spec(pp._tree))})
        return res

    def shadow_semi(self, *a):
        return self._shadow_dist("semi", *a)

    def shadow_full(self, *a):
        return self._shadow_dist("full", *a)

    def shadow_new_tree(self, parent_particle, data_point, children, tree_dist, perm_dist):
        st = self.stat("new_tree")
        st["calls"] += 1
        before = self.orig["new_tree"].cache_info()
        res = self.orig["new_tree"](parent_particle, data_point, children, tree_dist, perm_dist)
        hit = self._hit("new_tree", before)
        ref = self.raw["new_tree"](parent_particle, data_point, children, tree_dist, perm_dist)
        same_tree = self._holder_spec(res) == self._holder_spec(ref)
        nums = [abs(float(getattr(res, f)) - float(getattr(ref, f))) for f in ("log_p", "log_p_one", "log_pdf")]
        worst = max(nums)
        ok = same_tree and worst <= TOL and res.node_last_added_to == ref.node_last_added_to and res.num_children_on_node_that_matters == ref.num_children_on_node_that_matters and sorted(res.tree_roots.tolist()) == sorted(ref.tree_roots.tolist())
        if hit:
            st["hits"] += 1
            st["hits_compared"] += 1
        st["max_diff"] = max(st["max_diff"], worst)
        if not ok:
            st["mismatch_in_window"] += 1
            if len(self.mismatches) < 3:
                self.mismatches.append({"cache": "new_tree", "hit": hit, "same_tree": same_tree, "diff": worst, "call_index": st["calls"], "data_point": int(data_point.idx), "children": sorted(int(c) for c in children)})
        return res

    def install(self):
        def carry(shadow, orig):
            shadow.cache_info = orig.cache_info
            shadow.cache_clear = orig.cache_clear
            shadow.__wrapped__ = getattr(orig, "__wrapped__", None)
            return shadow

        tu, tn, sa, fa = self.tu, self.tn, self.sa, self.fa

        def f_logS(children, *a, **k):
            return self.shadow_logS(children, *a, **k)

        def f_conv(a, b, *r, **k):
            return self.shadow_conv(a, b, *r, **k)

        def f_semi(*a):
            return self.shadow_semi(*a)

        def f_full(*a):
            return self.shadow_full(*a)

        def f_new(*a):
            return self.shadow_new_tree(*a)

        tu.compute_log_S = carry(f_logS, self.orig["logS"])
        tn.compute_log_S = tu.compute_log_S  # tree_node imported it by name
        tu._convolve_two_children = carry(f_conv, self.orig["conv"])
        sa._get_cached_semi_proposal_dist = carry(f_semi, self.orig["semi"])
        sa.get_cached_new_tree = carry(f_new, self.orig["new_tree"])
        fa._get_cached_full_proposal_dist = carry(f_full, self.orig["full"])


_SHADOW = None


def _get_shadow():
    global _SHADOW
    if _SHADOW is None:
        _SHADOW = Shadow()
        _SHADOW.install()
    return _SHADOW


def _make_data(kind, n_points, n_samples, seed, op):
    import random
    from fractions import Fraction

    import numpy as np

    from pv.trees import make_data

    r = random.Random(seed)
    if kind == "rational":
        G = r.choice([6, 9, 12])
        vals = [[[Fraction(r.randint(1, 16), 16) for _ in range(G)] for _ in range(n_samples)] for _ in range(n_points)]
        return make_data(vals, outlier_prob=op)
    from simulate import simulate_binomial_data

    rng = np.random.default_rng(seed)
    depth = {"binomial-shallow": (3, 8), "binomial-deep": (60, 200)}[kind]
    data = []
    for i in range(n_points):
        ccf = [r.choice([0.1, 0.3, 0.6, 1.0]) for _ in range(n_samples)]
        data.append(simulate_binomial_data(i, r.randint(*depth), np.array(ccf), rng, op))
    return data


def _run_task(task):
    import numpy as np

    sh = _get_shadow()
    before = {k: dict(v) for k, v in sh.stats.items()}
    nm = len(sh.mismatches)
    sh.keylog_limit = task.get("keylog", 0)
    if sh.keylog_limit:
        # the model's table starts empty: clear the two persistent array caches (a clear is part of the property's histories)
        sh.orig["logS"].cache_clear()
        sh.orig["conv"].cache_clear()
    sh.keylog = {"conv": [], "logS": []}
    sh.alphas = set()
    data = _make_data(task["data"], task["n_points"], task["n_samples"], task["seed"], task["outlier_prob"])
    crash = None
    try:
        if task.get("mode") == "direct":
            # direct call histories of the children recursion on a small pool of arrays: prefixes, permutations, repeats,
            # on a small grid and on grids at / above the FFT switch (1000 points)
            import random as _random

            r = _random.Random(task["seed"])
            G = task["grid"]
            ns = task["n_samples"]
            pool = [np.log(np.array([[r.randint(8, 16) / 16.0 for _ in range(G)] for _ in range(ns)])) for _ in range(4)]
            seqs = [[0], [0, 1], [1, 0], [0, 1, 2], [2, 0, 1], [0, 1], [0, 1, 2, 3], [3, 2, 1, 0], [1, 2], [1, 2, 3], [0, 0], [0, 0, 1], [2]]
            r.shuffle(seqs)
            seqs = [[0, 1], [0, 1, 2]] + seqs
            with np.errstate(all="ignore"):
                for sq in seqs:
                    sh.tu.compute_log_S([pool[i].copy() for i in sq])
            res = {"trace": [{"alpha": 1.0}]}
        elif task.get("mode") == "library":
            # library-style history: particle-Gibbs sweeps with the concentration changed between sweeps and NO cache clear
            # (run.py clears the proposal caches every sweep, a library user need not)
            from pv.kernels import make_kernel, make_tree_dist
            from phyclone.mcmc.particle_gibbs import ParticleGibbsTreeSampler
            from phyclone.tree import Tree

            rng = np.random.default_rng(task["seed"])
            td = make_tree_dist(1.0)
            k = make_kernel(task["proposal"], td, rng, 0.1 if task["outlier_prob"] > 0 else 0.0, True)
            pg = ParticleGibbsTreeSampler(k, rng, num_particles=task["num_particles"], resample_threshold=0.5)
            tree = Tree.get_single_node_tree(data)
            alphas = [1.0, 2.5, 1.0, 0.4, 2.5, 1.0]
            with np.errstate(all="ignore"):
                for i in range(task["num_iters"]):
                    td.prior.alpha = alphas[i % len(alphas)]
                    tree = pg.sample_tree(tree)
                    tree.relabel_nodes()
            res = {"trace": [{"alpha": a} for a in alphas]}
        else:
          with np.errstate(all="ignore"):
            res = runs.run_chain(data, ["S%d" % i for i in range(task["n_samples"])], seed=task["seed"], proposal=task["proposal"], num_particles=task["num_particles"], resample_threshold=0.5, outlier_prob=task["outlier_prob"], subtree_update_prob=task["subtree"], burnin=2, num_iters=task["num_iters"], concentration_update=True)
        n_alpha = len({float(e["alpha"]) for e in res["trace"]})
    except Exception as e:
        import traceback

        crash = type(e).__name__ + ": " + str(e)[:200] + " | " + traceback.format_exc()[-600:]
        n_alpha = 0
    delta = {}
    for k, v in sh.stats.items():
        b = before.get(k, {})
        delta[k] = {f: (v[f] - b.get(f, 0) if f not in ("max_diff", "max_out_of_window_diff") else v[f]) for f in v}
    return {"task": task, "stats": delta, "mismatches": sh.mismatches[nm:], "problems": list(sh.problems), "crash": crash, "alphas_in_trace": n_alpha, "alphas_seen_by_proposal_cache": len(sh.alphas), "keylog": sh.keylog if sh.keylog_limit else None, "cache_sizes": {k: sh.orig[k].cache_info().maxsize for k in sh.orig}}


# ---------------------------------------------------------------- decorator-level correspondence with the Coq table
def decorator_histories(ctx, n_hist, length):
    """Random call/clear histories against the REAL decorators of phyclone.utils.utils (and functools.lru_cache as used
    for the proposal caches) with small capacities.  Returns Coq items comparing hit flags and returned values."""
    import functools

    import numpy as np

    from phyclone.utils import list_of_np_cache, two_np_arr_cache

    pool = [np.array([[float(i + 1), 0.5 * i]]) for i in range(5)]  # array id i; distinct bytes
    items, meta = [], []
    for hno in range(n_hist):
        cap = ctx.rng.choice([1, 2, 3, 5])
        kind = ["list", "pair", "plain"][hno % 3]
        if kind == "list":
            @list_of_np_cache(maxsize=cap)
            def fn(arr):
                return float(np.sum(arr) + 100 * len(arr))  # permutation invariant
        elif kind == "pair":
            @two_np_arr_cache(maxsize=cap)
            def fn(a, b):
                return float(np.sum(a) * np.sum(b))  # commutative
        else:
            @functools.lru_cache(maxsize=cap)
            def fn(a, alpha):
                return a * 10 + alpha
        events, flags, values = [], [], []
        for _ in range(length):
            u = ctx.rng.random()
            if u < 0.08:
                fn.cache_clear()
                events.append("Clear")
                continue
            before = fn.cache_info().hits
            if kind == "list":
                ids = [ctx.rng.randrange(4) for _ in range(ctx.rng.randint(1, 3))]
                v = fn([pool[i] for i in ids])
                events.append("Call tt [%s]" % "; ".join(str(i) for i in ids))
                values.append(int(round(sum(float(np.sum(pool[i])) for i in ids) * 2 + 200 * len(ids))))
                values[-1] = int(round(v * 2))
            elif kind == "pair":
                i, j = ctx.rng.randrange(4), ctx.rng.randrange(4)
                v = fn(pool[i], pool[j])
                events.append("Call tt (%d, %d)" % (i, j))
                values.append(int(round(v * 4)))
            else:
                a, alpha = ctx.rng.randrange(3), ctx.rng.randrange(2)
                v = fn(a, alpha)
                events.append("Call %d %d" % (alpha, a))
                values.append(int(v))
            flags.append(fn.cache_info().hits > before)
        fl = "[%s]" % "; ".join("true" if b else "false" for b in flags)
        vs = "[%s]" % "; ".join(str(v) for v in values)
        ev = "[%s]" % "; ".join(events)
        items.append("chk_%s %d %s %s %s" % (kind, cap, ev, fl, vs))
        meta.append((kind, cap, length))
        ctx.case(key=("decorator", kind, cap, hno), nontrivial=any(flags), sample={"decorator": kind, "capacity": cap, "events": len(events), "hits": sum(flags)} if hno < 3 else None)
        ctx.count("decorator:%s" % kind)
    return items, meta


COQ_HEADER = "\n".join([
    "From PV Require Import Model.Memo Model.CaseUtil.", "Open Scope nat_scope.",
    "Definition lbool_eqb := list_eqb Bool.eqb.",
    "Definition sum2 (i : nat) : nat := 2 * (i + 1) + i.   (* twice the sum of pool array i = [[i+1, i/2]] *)",
    "Definition f_list (_ : unit) (l : list nat) : nat := list_sum (map sum2 l) + 200 * length l.",
    "Definition f_pair (_ : unit) (p : nat * nat) : nat := sum2 (fst p) * sum2 (snd p).",
    "Definition f_plain (alpha a : nat) : nat := a * 10 + alpha.",
    "Definition chk_list (cap : nat) (h : list (event unit (list nat))) (fl : list bool) (vs : list nat) : bool :=",
    "  lbool_eqb (hit_flags unit (list nat) (list nat) nat f_list (fun _ => logS_key nat (fun x => x)) lnat_eqb cap h []) fl",
    "  && lnat_eqb (run unit (list nat) (list nat) nat f_list (fun _ => logS_key nat (fun x => x)) lnat_eqb cap h []) vs.",
    "Definition chk_pair (cap : nat) (h : list (event unit (nat * nat))) (fl : list bool) (vs : list nat) : bool :=",
    "  lbool_eqb (hit_flags unit (nat * nat) (list nat) nat f_pair (fun _ => conv_key nat (fun x => x)) lnat_eqb cap h []) fl",
    "  && lnat_eqb (run unit (nat * nat) (list nat) nat f_pair (fun _ => conv_key nat (fun x => x)) lnat_eqb cap h []) vs.",
    "Definition pair_eqb (x y : nat * nat) : bool := Nat.eqb (fst x) (fst y) && Nat.eqb (snd x) (snd y).",
    "Definition chk_plain (cap : nat) (h : list (event nat nat)) (fl : list bool) (vs : list nat) : bool :=",
    "  lbool_eqb (hit_flags nat nat (nat * nat) nat f_plain (fun al a => (a, al)) pair_eqb cap h []) fl",
    "  && lnat_eqb (run nat nat (nat * nat) nat f_plain (fun al a => (a, al)) pair_eqb cap h []) vs.",
    "Definition chk_keys (cap : nat) (keys : list nat) (fl : list bool) : bool :=",
    "  lbool_eqb (hit_flags unit nat nat nat (fun _ a => a) (fun _ a => a) Nat.eqb cap (map (Call tt) keys) []) fl."])


# ---------------------------------------------------------------- the check
def key_collision_search(ctx, n_arrays):
    """The premise of C14_logS_key_sound / C14_conv_key_sound is that the digest separates the arrays seen in a process.
    A 64-bit digest does so on 10^5 arrays (collision probability ~1e-9); a weaker key (truncated digest, digest of a
    slice, of the shape only ...) collides on a sample this large.  Distinct arrays with equal cache keys are then shown
    to make the memoised function return the wrong value."""
    import numpy as np

    import phyclone.tree.utils as tu
    from phyclone.utils.utils import NumpyArrayListHasher, NumpyTwoArraysHasher

    rng = np.random.default_rng(ctx.rng.randrange(10**9))
    base = np.log(rng.integers(8, 17, size=(1, 6)) / 16.0)
    seen1, seen2 = {}, {}
    found = None
    for i in range(n_arrays):
        arr = np.log(rng.integers(1, 1 << 30, size=(1, 6)) / float(1 << 30))
        k1 = NumpyArrayListHasher([arr]).h
        k2 = NumpyTwoArraysHasher(arr, base).h
        for seen, k, which in ((seen1, k1, "list_of_np_cache key"), (seen2, k2, "two_np_arr_cache key")):
            other = seen.get(k)
            if other is not None and not np.array_equal(other, arr):
                found = (which, other, arr)
                break
            seen[k] = arr
        if found:
            break
    ctx.case(key="key-collision-search", nontrivial=True, n=1, sample={"arrays_hashed": i + 1, "collision": bool(found)})
    ctx.count("arrays_hashed_for_key_injectivity", i + 1)
    if found:
        which, a, b = found
        tu.compute_log_S.cache_clear()
        va = np.array(tu.compute_log_S([a]))
        vb = np.array(tu.compute_log_S([b]))
        wrong = not np.allclose(vb, tu.compute_log_S.__wrapped__(np.array([b]))) if hasattr(tu.compute_log_S, "__wrapped__") else None
        ctx.fail("C14:cache-key:collision", "two different arrays get the same %s (after hashing %d arrays); memoised compute_log_S([b]) after compute_log_S([a]) %s" % (which, i + 1, "returns a's value" if np.allclose(va, vb) else "differs"),
                 {"which": which, "a": a.tolist(), "b": b.tolist(), "memoised_b_equals_memoised_a": bool(np.allclose(va, vb)), "memoised_b_wrong": wrong})


def structured_argument_probe(ctx, n_rounds):
    """Behavioural soundness of the two array-keyed caches on argument tuples that are RELATED (what an order-normalising,
    summarising or otherwise 'canonical' key may conflate although the arguments differ as unordered collections): after a
    call on (a, b) the memoised function is called on a related pair / list and must still return what the undecorated
    function returns for those arguments.  Families: pointwise min/max of the pair; entries exchanged between the two arrays
    at some grid points; mass shifted from one array to the other (same pointwise sum); one array doubled; (a, a) vs (b, b);
    lists with the same set but different multiplicities; rows exchanged between samples."""
    import numpy as np

    import phyclone.tree.utils as tu

    conv, logS = tu._convolve_two_children, tu.compute_log_S
    raw_conv, raw_logS = getattr(conv, "__wrapped__", None), getattr(logS, "__wrapped__", None)
    if raw_conv is None or raw_logS is None:
        ctx.broken_tie("structured argument probe: no __wrapped__ on the memoised functions")
        return
    rng = np.random.default_rng(ctx.rng.randrange(10**9))
    n = 0
    for rnd in range(n_rounds):
        ns, G = int(rng.integers(1, 3)), int(rng.choice([5, 8, 11]))
        a = np.log(rng.integers(1, 17, size=(ns, G)) / 16.0)
        b = np.log(rng.integers(1, 17, size=(ns, G)) / 16.0)
        mask = rng.random((ns, G)) < 0.5
        fam = {
            "pointwise-min-max": (np.minimum(a, b), np.maximum(a, b)),
            "entries-exchanged": (np.where(mask, a, b), np.where(mask, b, a)),
            "mass-shifted": (a + 0.25, b - 0.25),
            "swapped-and-shifted": (b + 0.5, a - 0.5),
            "first-doubled": (a, a),
            "second-doubled": (b, b),
        }
        if ns == 2:
            fam["rows-exchanged"] = (np.stack([a[0], b[1]]), np.stack([b[0], a[1]]))
        for name, (a2, b2) in fam.items():
            if np.array_equal(a2, a) and np.array_equal(b2, b) or np.array_equal(a2, b) and np.array_equal(b2, a):
                continue
            for fn, raw, args1, args2, site in ((conv, raw_conv, (a, b), (a2, b2), "conv"),
                                                (logS, raw_logS, ([a, b],), ([a2, b2],), "logS")):
                fn.cache_clear(); conv.cache_clear()
                fn(*[np.array(x) if site == "conv" else [np.array(y) for y in x] for x in args1])
                got = np.array(fn(*[np.array(x) if site == "conv" else [np.array(y) for y in x] for x in args2]))
                conv.cache_clear()
                ref = np.array(raw(*[np.array(x) if site == "conv" else np.array([np.array(y) for y in x], order="C") for x in args2]))
                n += 1
                if got.shape != ref.shape or not np.allclose(got, ref, rtol=1e-9, atol=1e-9):
                    ctx.fail("C14:%s:related-arguments:%s" % (site, name), "after a call on (a, b) the memoised %s returns for the related arguments (%s) a value differing from the undecorated function by %.3g" % (site, name, float(np.max(np.abs(got - ref))) if got.shape == ref.shape else float("nan")),
                             {"family": name, "a": a.tolist(), "b": b.tolist(), "a2": a2.tolist(), "b2": b2.tolist(), "site": site})
        # lists: same set of arrays, different multiplicities / an extra copy
        c = np.log(rng.integers(1, 17, size=(ns, G)) / 16.0)
        for l1, l2, name in (([a, a, b], [a, b, b], "multiplicities"), ([a, b], [a, b, b], "extra-copy"), ([a, b, c], [a, c, c], "replaced-by-copy")):
            logS.cache_clear(); conv.cache_clear()
            logS([np.array(x) for x in l1])
            got = np.array(logS([np.array(x) for x in l2]))
            conv.cache_clear()
            ref = np.array(raw_logS(np.array([np.array(x) for x in l2], order="C")))
            n += 1
            if got.shape != ref.shape or not np.allclose(got, ref, rtol=1e-9, atol=1e-9):
                ctx.fail("C14:logS:related-arguments:%s" % name, "after a call on one children list the memoised compute_log_S returns for a related list (%s) a value differing from the undecorated function" % name,
                         {"family": name, "a": a.tolist(), "b": b.tolist(), "c": c.tolist()})
    logS.cache_clear(); conv.cache_clear()
    ctx.case(key="structured-argument-probe", nontrivial=True, n=n)
    ctx.count("related_argument_calls", n)


def run(ctx):
    coq.check_property_file(ctx)
    key_collision_search(ctx, 150000 if ctx.quick else 600000)
    structured_argument_probe(ctx, 40 if ctx.quick else 400)
    ctx.rule = (
        "run_phyclone_chain (burn-in 2, 5-8 sweeps, 6-10 particles, concentration update on, subtree updates 0/0.3) on 5-8 simulated data points with every cached entry point "
        "shadowed by memoised-vs-undecorated comparison at each call: proposals {bootstrap, semi-adapted, fully-adapted} x outliers {off, 0.1} x data {k/16 rational grids, "
        "binomial depth 3-8 on the 101-point grid} x seeds; arrays compared at 1e-9 relative, proposal distributions outcome by outcome; window membership MEASURED per call "
        "(normalised convolution entries > 1e-100 for every argument order); binomial depth 60-200 stream is information only; non-trivial = run with cache hits; distinct = run configuration"
    )
    ctx.exhaustive = False
    tasks = []
    n_seeds = 3 if ctx.quick else 40
    for data in ("rational", "binomial-shallow"):
        for proposal in ("semi-adapted", "fully-adapted", "bootstrap"):
            for op in (0.0, 0.1):
                for s in range(n_seeds):
                    tasks.append({"data": data, "proposal": proposal, "outlier_prob": op, "n_points": ctx.rng.randint(5, 8) if proposal != "fully-adapted" else ctx.rng.randint(5, 6), "n_samples": ctx.rng.randint(1, 2), "num_particles": ctx.rng.choice([6, 10] if ctx.quick else [6, 10, 20]), "num_iters": 8 if ctx.quick else 15, "subtree": ctx.rng.choice([0.0, 0.3]), "seed": ctx.rng.randrange(10**6)})
    for proposal in (("semi-adapted",) if ctx.quick else ("semi-adapted", "fully-adapted")):
        tasks.append({"data": "binomial-deep", "proposal": proposal, "outlier_prob": 0.0, "n_points": 6, "n_samples": 2, "num_particles": 8, "num_iters": 5, "subtree": 0.0, "seed": ctx.rng.randrange(10**6)})
    for proposal in ("semi-adapted", "fully-adapted", "bootstrap"):
        for op in (0.0, 0.1):
            for s in range(1 if ctx.quick else 6):
                tasks.append({"mode": "library", "data": "rational", "proposal": proposal, "outlier_prob": op, "n_points": ctx.rng.randint(4, 6), "n_samples": 1, "num_particles": 8, "num_iters": 6 if ctx.quick else 12, "subtree": 0.0, "seed": ctx.rng.randrange(10**6)})
    for G in ((12, 1000) if ctx.quick else (12, 101, 1000, 1024)):
        for s in range(1 if ctx.quick else 4):
            tasks.append({"mode": "direct", "grid": G, "data": "rational", "proposal": "direct-calls", "outlier_prob": 0.0, "n_points": 4, "n_samples": ctx.rng.randint(1, 2), "num_particles": 0, "num_iters": 0, "subtree": 0.0, "seed": ctx.rng.randrange(10**6)})
    tasks[0]["keylog"] = 1500
    ctx.log("%d shadowed chain runs" % len(tasks))
    total = {}
    info_out = {"runs": 0, "mismatches": 0, "max_diff": 0.0, "calls": 0}
    keylogs = None
    with ProcessPoolExecutor(max_workers=WORKERS) as pool:
        results = list(pool.map(_run_task, tasks))
    for res in results:
        t = res["task"]
        deep = t["data"] == "binomial-deep"
        hits = sum(v["hits"] for v in res["stats"].values())
        ctx.case(key=tuple(sorted((k, repr(v)) for k, v in t.items())), nontrivial=hits > 0, sample={**t, "hits": hits, "alphas_in_trace": res["alphas_in_trace"], "alpha_values_seen_by_proposal_cache": res["alphas_seen_by_proposal_cache"]})
        ctx.count("data:%s" % t["data"])
        ctx.count("proposal:%s" % t["proposal"])
        if res["crash"]:
            # a crash of the sampler is another property's business (C19); here it only costs coverage
            ctx.count("info:run-crashed")
            ctx.extra.setdefault("crashed_runs", []).append(res["crash"][:300])
        for p in res["problems"]:
            ctx.broken_tie("shadowing problem: " + p)
        if res["keylog"]:
            keylogs = (res["keylog"], res["cache_sizes"])
        for name, st in res["stats"].items():
            if deep:
                info_out["calls"] += st["calls"]
                info_out["hits"] = info_out.get("hits", 0) + st["hits"]
                info_out["out_of_window_calls"] = info_out.get("out_of_window_calls", 0) + st["out_of_window_calls"]
                info_out["mismatches"] += st["mismatch_out_of_window"] + st["mismatch_in_window"]
                info_out["max_diff"] = max(info_out["max_diff"], st.get("max_out_of_window_diff", 0.0))
                continue
            agg = total.setdefault(name, {"calls": 0, "hits": 0, "in_window_mismatches": 0, "out_of_window_calls": 0, "out_of_window_mismatches": 0, "max_diff_in_window": 0.0})
            agg["calls"] += st["calls"]
            agg["hits"] += st["hits"]
            agg["out_of_window_calls"] += st["out_of_window_calls"]
            agg["out_of_window_mismatches"] += st["mismatch_out_of_window"]
            agg["in_window_mismatches"] += st["mismatch_in_window"]
            agg["max_diff_in_window"] = max(agg["max_diff_in_window"], st["max_diff"])
        if deep:
            info_out["runs"] += 1
        for m in res["mismatches"]:
            if deep:
                continue  # outside the window the property does not apply: information only
            shape = "alpha-changes" if res["alphas_in_trace"] > 1 else "fixed-alpha"
            ctx.fail(
                "C14:%s:%s:%s" % (m["cache"], "hit" if m["hit"] else "miss", "in-window"),
                "memoised %s differs from the undecorated function on the same arguments (%s, call #%d of the run, %s)" % (m["cache"], "cache hit" if m["hit"] else "cache miss", m["call_index"], shape),
                {"run": t, "mismatch": m, "how": "pv.props.C14._run_task(run) in a fresh process reproduces the call history"},
            )
    ctx.extra["caches"] = total
    ctx.extra["out_of_window_stream_information_only"] = info_out
    ctx.log("cache totals: " + "; ".join("%s %d calls / %d hits / %d mismatches" % (k, v["calls"], v["hits"], v["in_window_mismatches"]) for k, v in sorted(total.items())))
    ctx.log("out-of-window stream (information only): %r" % info_out)
    for name in ("logS", "conv", "semi", "full", "new_tree"):
        ctx.obligation("hits_observed_and_compared_%s" % name, total.get(name, {}).get("hits", 0) > 0, total.get(name))
    # ---- correspondence with the Coq table
    items, meta = decorator_histories(ctx, 18 if ctx.quick else 90, 40 if ctx.quick else 60)
    if keylogs:
        logs, sizes = keylogs
        for cname in ("conv", "logS"):
            seq = logs[cname]
            ids = {}
            keys = [ids.setdefault(k, len(ids)) for k, _ in seq]
            items.append("chk_keys %d [%s] [%s]" % (sizes[cname], "; ".join(str(k) for k in keys), "; ".join("true" if h else "false" for _, h in seq)))
            meta.append(("run-keys", cname, len(seq)))
            ctx.case(key=("run-keys", cname), nontrivial=True, sample={"cache": cname, "calls": len(seq), "distinct_keys": len(ids), "hits": sum(1 for _, h in seq if h)})
    ok, bad, detail = coq.coq_eval_bool_cases(ctx, "corr", COQ_HEADER, items, shard=8)
    ctx.extra["coq_corr_cases"] = len(items)
    if not ok:
        ctx.broken_tie("C14 correspondence file did not evaluate", detail)
    else:
        ctx.obligation("corr_model_eq_impl_%d_histories" % len(items), not bad, [repr(meta[i]) for i in bad[:5]])
    ctx.assumptions += [
        "xxh3-64 digests are collision-free on the arrays of a process (Section hypothesis digest_injective)",
        "permutation invariance of the children recursion holds exactly in exact arithmetic (C02) and to 1e-9 in floats inside the underflow window; outside the window the property does not apply",
        "the reference is the repo's own undecorated function (__wrapped__), called on the same arguments right after the memoised call",
    ]


def replay(ctx, doc):
    """Re-run the recorded chain run with the shadows installed (fresh process: same call history)."""
    import json

    r = doc.get("replay", {})
    print(json.dumps({k: v for k, v in r.items() if k != "mismatch"}, indent=1))
    with ProcessPoolExecutor(max_workers=1) as pool:
        res = list(pool.map(_run_task, [r["run"]]))[0]
    print("stats:", json.dumps(res["stats"], indent=1))
    for m in res["mismatches"]:
        ctx.fail("C14:%s:%s:in-window" % (m["cache"], "hit" if m["hit"] else "miss"), "memoised %s differs from the undecorated function (call #%d)" % (m["cache"], m["call_index"]), {"run": r["run"], "mismatch": m})
