"""C20 - an interrupted or truncated trace file is never read as a valid result.

Real traces are produced by the real chain driver and written by the real create_main_run_output; then
  * every byte prefix (quick: every prefix of the small file, stride + tail of the larger one) is handed to
    write_map_results (both map types), write_consensus_results (both weight types) and write_topology_report: the outcome must be an exception or output
    files byte-identical to those produced from the complete file;
  * the gzip member is taken apart (header / deflate body / 8-byte trailer), zlib is run on every body prefix to check
    the model's assumption (a prefix inflates to a prefix of the payload) and to PREDICT which prefixes are readable
    (exactly those whose inflated output is the whole payload) - compared with what the readers did;
  * the pickle payload is disassembled with pickletools.genops, every opcode is mapped to the model's stack-effect
    class from pickletools' own opcode table, and the Coq model is run on the real opcode stream (decodes, only STOP
    at the end, every sampled cut is "unexpected end", same number of complete opcodes as genops on the cut payload).
"""
import gzip
import hashlib
import io
import os
import pickle
import pickletools
import shutil
import zlib
from concurrent.futures import ProcessPoolExecutor

from .. import coq, runs

WORKERS = 6
READERS = ("map", "consensus", "topology", "map-frequency", "consensus-counts")


# ---------------------------------------------------------------- producing real trace files
def make_trace(path, in_file, chains, seed, num_iters, grid_size, density, cluster_file=None, proposal="semi-adapted"):
    """A trace file written by create_main_run_output from `chains` real chains run in-process."""
    import numpy as np

    from phyclone.data.pyclone import load_data
    from phyclone.process_trace import create_main_run_output

    rng = np.random.default_rng(seed)
    with runs.quiet():
        data, samples = load_data(in_file, rng, 0.0001, 0.4, False, cluster_file=cluster_file, density=density, grid_size=grid_size, outlier_prob=0.0, precision=400.0)
    results = {}
    rngs = [rng] if chains == 1 else rng.spawn(chains)
    for c in range(chains):
        res = runs.run_chain(data, samples, rng=rngs[c], proposal=proposal, num_particles=4, num_iters=num_iters, burnin=1, chain_num=c)
        results[c] = res
    with runs.quiet():
        create_main_run_output(cluster_file, path, results)
    return path


# ---------------------------------------------------------------- running the three readers
def _reader_outcomes(in_file, outdir):
    """(outcome of map, consensus, topology report): 'E:<ExceptionType>' or the sha1 of the produced files."""
    from phyclone.process_trace import write_consensus_results, write_map_results, write_topology_report

    outs = []
    calls = [
        ("map", lambda t, r: write_map_results(in_file, t, r)),
        ("consensus", lambda t, r: write_consensus_results(in_file, t, r)),
        ("topology", lambda t, r: write_topology_report(in_file, t)),
        ("map-frequency", lambda t, r: write_map_results(in_file, t, r, map_type="frequency")),
        ("consensus-counts", lambda t, r: write_consensus_results(in_file, t, r, weight_type="counts")),
    ]
    for name, fn in calls:
        t = os.path.join(outdir, name + "_table.tsv")
        r = os.path.join(outdir, name + "_tree.nwk")
        for p in (t, r):
            if os.path.exists(p):
                os.remove(p)
        try:
            with runs.quiet():
                fn(t, r)
        except BaseException as e:  # noqa: any failure is "an error" for this property
            outs.append("E:" + type(e).__name__)
            continue
        h = hashlib.sha1()
        for p in (t, r):
            if os.path.exists(p):
                h.update(open(p, "rb").read())
                h.update(b"|")
        outs.append("ok:" + h.hexdigest())
    return tuple(outs)


def _prefix_task(task):
    path, lengths, tag = task
    blob = open(path, "rb").read()
    d = runs.tmpdir("C20_%s_%d" % (tag, os.getpid()))
    cut = os.path.join(d, "cut.pkl.gz")
    out = []
    for n in lengths:
        with open(cut, "wb") as fh:
            fh.write(blob[:n])
        out.append((n, _reader_outcomes(cut, d)))
    return out


# ---------------------------------------------------------------- taking the gzip member apart
def split_member(blob):
    """(header length, body, trailer) of a single-member gzip file (RFC 1952)."""
    assert blob[:2] == b"\x1f\x8b" and blob[2] == 8
    flg = blob[3]
    pos = 10
    if flg & 4:
        xlen = blob[pos] + 256 * blob[pos + 1]
        pos += 2 + xlen
    if flg & 8:
        pos = blob.index(b"\x00", pos) + 1
    if flg & 16:
        pos = blob.index(b"\x00", pos) + 1
    if flg & 2:
        pos += 2
    return pos, blob[pos:-8], blob[-8:]


def inflate_prefix_lengths(body, payload, lengths):
    """For each body-prefix length: number of payload bytes zlib can produce (None = data error) and whether that
    output is a prefix of the payload (the model's hypothesis)."""
    out = {}
    for n in lengths:
        d = zlib.decompressobj(-15)
        try:
            got = d.decompress(body[:n])
        except zlib.error:
            out[n] = (None, True)
            continue
        out[n] = (len(got), payload.startswith(got))
    return out


# ---------------------------------------------------------------- pickle opcodes -> model kinds
def classify(op):
    """The model's stack-effect class of a pickle opcode, derived from pickletools' table."""
    before = [x.name for x in op.stack_before]
    after = [x.name for x in op.stack_after]
    if op.name == "STOP":
        return "KStop"
    if op.name == "MARK":
        return "KMark"
    if "stackslice" in before:
        i = before.index("mark")
        if i == 0 and len(after) == 1:
            return "KPopMarkPush"
        if i == 1 and len(after) == 1 and after[0] == before[0]:
            return "KPopMarkKeep"
        return None
    if not before and not after:
        return "KNop"
    if op.name in ("MEMOIZE", "BINPUT", "LONG_BINPUT", "PUT"):
        return "KPeek"
    if before == after and len(before) == 1:
        return "KPeek"
    if len(after) == 1 and "mark" not in before and "mark" not in after:
        return "(KPopPush %d)" % len(before)
    return None


def tokens(payload):
    """[(model kind, argument length in bytes, opcode name)] of a pickle stream."""
    ops = list(pickletools.genops(payload))
    toks = []
    for i, (op, arg, pos) in enumerate(ops):
        end = ops[i + 1][2] if i + 1 < len(ops) else len(payload)
        toks.append((classify(op), end - pos - 1, op.name))
    return toks


def complete_ops_of_prefix(payload, n):
    k = 0
    try:
        for _ in pickletools.genops(payload[:n]):
            k += 1
    except Exception:
        pass
    return k


# ---------------------------------------------------------------- the check
def check_trace(ctx, pool, path, tag, every_prefix, coq_cuts):
    blob = open(path, "rb").read()
    L = len(blob)
    d = runs.tmpdir("C20_full_%s" % tag)
    full = _reader_outcomes(path, d)
    written = runs.read_trace(path)
    payload = gzip.decompress(blob)
    hlen, body, trailer = split_member(blob)
    ctx.log("%s: %d bytes (header %d, body %d, trailer 8), payload %d bytes, %d chains, %d entries; full-file outcomes %s" % (tag, L, hlen, len(body), len(payload), len(written), sum(len(c["trace"]) for c in written.values()), [o[:12] for o in full]))
    for name, o in zip(READERS, full):
        if o.startswith("E:"):
            ctx.broken_tie("reader %s fails on the complete trace %s (%s): cannot serve as reference" % (name, tag, o))
    if every_prefix:
        lengths = list(range(L))
    else:
        lengths = sorted(set(range(0, L, 16)) | set(range(max(0, L - 64), L)) | set(range(0, min(L, hlen + 8))))
    chunks = [lengths[i::WORKERS * 4] for i in range(WORKERS * 4)]
    observed = {}
    for part in pool.map(_prefix_task, [(path, c, tag) for c in chunks if c]):
        for n, outs in part:
            observed[n] = outs
    # ---- the property itself
    readable = []
    for n in lengths:
        outs = observed[n]
        region = "header" if n < hlen else ("body" if n < hlen + len(body) else "trailer")
        for name, o, ref in zip(READERS, outs, full):
            ctx.count("%s:%s:%s" % (tag, region, o if o.startswith("E:") else "complete-result"))
            if not o.startswith("E:") and o != ref:
                ctx.fail("C20:%s:partial-result:%s" % (name, region), "%s on the first %d of %d bytes produced output different from the complete file's, without an error" % (name, n, L), {"trace": tag, "prefix_length": n, "file_length": L, "reader": name, "file_hex": blob.hex() if L < 20000 else None})
        if all(not o.startswith("E:") for o in outs):
            readable.append(n)
        ctx.case(key=(tag, n), nontrivial=True, sample={"trace": tag, "prefix": n, "of": L, "outcomes": [o[:14] for o in outs]} if n in (0, hlen, L // 2, L - 9, L - 1) else None)
    ctx.extra["%s_readable_prefixes" % tag] = readable[:40]
    # ---- correspondence 1: the gzip model predicts which prefixes are readable
    infl = inflate_prefix_lengths(body, payload, [max(0, n - hlen) for n in lengths if n >= hlen])
    hyp_ok = all(v[1] for v in infl.values())
    ctx.obligation("corr_%s_inflate_of_prefix_is_prefix_of_payload" % tag, hyp_ok, [n for n, v in infl.items() if not v[1]][:5])
    mism = []
    for n in lengths:
        if n < hlen:
            predicted = False
        else:
            got = infl[n - hlen][0]
            predicted = got is not None and got == len(payload)
        actual = all(not o.startswith("E:") for o in observed[n])
        if predicted != actual:
            mism.append((n, predicted, actual, observed[n]))
    ctx.obligation("corr_%s_model_predicts_readable_prefixes" % tag, not mism, mism[:5])
    ctx.extra["%s_first_readable_prefix" % tag] = min(readable) if readable else None
    ctx.extra["%s_body_end" % tag] = hlen + len(body)
    # ---- property at the payload level: no strict prefix of the pickle stream loads
    step = 1 if (every_prefix and len(payload) <= 60000) else max(1, len(payload) // 3000)
    loaded = []
    for n in list(range(0, len(payload), step)) + list(range(max(0, len(payload) - 300), len(payload))):
        try:
            pickle.loads(payload[:n])
            loaded.append(n)
        except Exception:
            pass
        ctx.evaluations += 1
    if loaded:
        ctx.fail("C20:pickle.loads:strict-prefix-loads", "a strict prefix (%d of %d bytes) of the trace's pickle stream unpickles without error" % (loaded[0], len(payload)), {"trace": tag, "payload_prefix": loaded[0], "payload_length": len(payload)})
    # ---- correspondence 2: the Coq model on the real opcode stream
    toks = tokens(payload)
    unknown = sorted({t[2] for t in toks if t[0] is None})
    ctx.obligation("corr_%s_every_opcode_has_a_model_class" % tag, not unknown, unknown)
    for t in toks:
        ctx.count("opcode:" + t[2])
    if unknown:
        return
    cuts = sorted(set(ctx.rng.sample(range(len(payload)), min(coq_cuts, len(payload))) + [0, 1, 2, len(payload) - 1, len(payload) - 2]))
    body_toks = toks[:-1]
    header = "\n".join([
        "From PV Require Import Model.Framing Model.CaseUtil.", "Open Scope nat_scope.",
        "Definition ops : list tok := [%s]." % "; ".join("(%s, %d)" % (k, a) for k, a, _ in body_toks),
        "Definition stream := encode (ops ++ [stop_tok]).",
        "Definition cut_ok (n ops_done : nat) : bool := is_eof (unpickle (firstn n stream)) && Nat.eqb (complete_ops (firstn n stream) 0 0) ops_done."])
    items = [
        "negb (has_stop ops)",
        "is_ok (unpickle stream)",
        "Nat.eqb (length stream) %d" % len(payload),
        "Nat.eqb (complete_ops stream 0 0) %d" % len(toks),
    ] + ["cut_ok %d %d" % (n, complete_ops_of_prefix(payload, n)) for n in cuts]
    ok, bad, detail = coq.coq_eval_bool_cases(ctx, "corr_" + tag, header, items, shard=max(8, len(items) // 6 + 1))
    if toks[-1][0] != "KStop":
        ctx.broken_tie("last opcode of the trace's pickle is %s, not STOP" % toks[-1][2])
    if not ok:
        ctx.broken_tie("C20 correspondence file (%s) did not evaluate" % tag, detail)
    else:
        ctx.obligation("corr_%s_model_on_real_opcode_stream_%d_cases" % (tag, len(items)), not bad, [items[i][:80] for i in bad[:5]])
    ctx.extra["%s_opcodes" % tag] = len(toks)


# ---------------------------------------------------------------- a run whose writes are cut short (disk full)
_CHILD = r"""
import builtins, errno, os, sys
in_file, out_file, limit, seed, chains = sys.argv[1], sys.argv[2], int(sys.argv[3]), int(sys.argv[4]), int(sys.argv[5])
out_dir = os.path.dirname(os.path.abspath(out_file))
_open = builtins.open
class Limited:
    # a file object on the output directory that runs out of space after `limit` bytes
    def __init__(self, f):
        self._f, self._n = f, 0
    def write(self, b):
        room = limit - self._n
        if len(b) > room:
            if room > 0:
                self._f.write(bytes(b[:room])); self._n += room
            self._f.flush()
            raise OSError(errno.ENOSPC, "No space left on device")
        self._n += len(b)
        return self._f.write(b)
    def __getattr__(self, name):
        return getattr(self._f, name)
    def __enter__(self):
        return self
    def __exit__(self, *a):
        return self._f.__exit__(*a)
def limited_open(file, mode="r", *a, **k):
    f = _open(file, mode, *a, **k)
    try:
        inside = isinstance(file, (str, bytes, os.PathLike)) and os.path.dirname(os.path.abspath(os.fspath(file))) == out_dir
    except Exception:
        inside = False
    if inside and any(c in mode for c in "wax+") and "b" in mode:
        return Limited(f)
    return f
builtins.open = limited_open
import gzip, io
gzip.builtins = builtins
from phyclone.run import run
run(in_file, out_file, burnin=1, num_iters=4, num_particles=4, seed=seed, num_chains=chains, print_freq=1000, grid_size=11, density="binomial")
"""


def interrupted_runs(ctx, d):
    """A real multi-chain `run()` whose output directory runs out of space after k bytes per file (k from a few bytes to one
    byte short of the complete trace): afterwards the trace path holds nothing, a file the summary commands reject, or a
    trace with ALL chains and entries of the run - never a readable trace of part of the run."""
    import subprocess
    import sys

    in_file = runs.write_input(os.path.join(d, "irun.tsv"), runs.make_rows(ctx.rng, 3, 2, depth=(10, 30)))
    seed = ctx.rng.randrange(1, 10**6)
    chains = 3
    env = runs.base_env("0")

    def child(out_dir, limit):
        os.makedirs(out_dir, exist_ok=True)
        out = os.path.join(out_dir, "trace.pkl.gz")
        p = subprocess.run([sys.executable, "-c", _CHILD, in_file, out, str(limit), str(seed), str(chains)], env=env, capture_output=True, text=True, timeout=900)
        return out, p.returncode, (p.stdout + p.stderr)[-400:]

    full_out, rc, tail = child(os.path.join(d, "irun_full"), 10**9)
    if rc != 0 or not os.path.exists(full_out):
        ctx.broken_tie("interrupted-run scenario: the uninterrupted reference run failed (rc %s): %s" % (rc, tail))
        return
    full = runs.read_trace(full_out)
    L = os.path.getsize(full_out)
    want = {int(c): len(full[c]["trace"]) for c in full}
    if sorted(want) != list(range(chains)):
        ctx.broken_tie("interrupted-run scenario: the reference trace holds chains %r" % sorted(want))
        return
    limits = sorted({7, L // 3, L // 2, (3 * L) // 4, L - 40, L - 9, L - 1})
    from concurrent.futures import ThreadPoolExecutor

    with ThreadPoolExecutor(max_workers=4) as ex:
        outs = list(ex.map(lambda k: (k,) + child(os.path.join(d, "irun_%d" % k), k), limits))
    for k, out, rc, tail in outs:
        ctx.case(key=("interrupted-run", k), nontrivial=True, sample={"space_per_file": k, "complete_trace_bytes": L, "exit": rc, "trace_exists": os.path.exists(out)})
        ctx.count("interrupted_run:%s" % ("no-file" if not os.path.exists(out) else "file-left"))
        if not os.path.exists(out):
            continue
        dd = runs.tmpdir("C20_irun_read_%d_%d" % (os.getpid(), k))
        res = _reader_outcomes(out, dd)
        if all(o.startswith("E:") for o in res):
            continue
        try:
            got = runs.read_trace(out)
            have = {int(c): len(got[c]["trace"]) for c in got}
        except Exception as e:  # noqa: BLE001
            have = "unreadable (%s)" % type(e).__name__
        if have != want:
            ctx.fail("C20:run:interrupted-write:partial-trace-readable",
                     "a %d-chain run whose output directory ran out of space after %d bytes per file (the complete trace has %d) left a trace file that the summary commands read without error (%s) but that holds %s instead of all chains with %s entries" % (chains, k, L, [o[:12] for o in res], have, want),
                     {"space_per_file": k, "complete_trace_bytes": L, "chains": chains, "seed": seed, "outcomes": list(res), "trace_holds": have if isinstance(have, str) else {str(c): n for c, n in have.items()}, "input": open(in_file).read()})


def killed_and_rewritten_runs(ctx, d):
    """(a) a run killed (SIGKILL) while it is sampling: whatever is at the trace path afterwards must be rejected by the summary
    commands (nothing of the run's trace has been written yet); (b) a run that re-writes an existing complete trace of an EARLIER
    run and runs out of space: the summary commands must fail or see the new run's complete trace, not the earlier run's."""
    import signal
    import subprocess
    import sys
    import time
    from concurrent.futures import ThreadPoolExecutor

    in_file = runs.write_input(os.path.join(d, "krun.tsv"), runs.make_rows(ctx.rng, 3, 2, depth=(10, 30)))
    env = runs.base_env("0")
    seed = ctx.rng.randrange(1, 10**6)

    def kill_one(chains):
        out_dir = os.path.join(d, "krun_kill_%d" % chains)
        os.makedirs(out_dir, exist_ok=True)
        out = os.path.join(out_dir, "trace.pkl.gz")
        code = ("import sys\nfrom phyclone.run import run\nrun(sys.argv[1], sys.argv[2], burnin=1, num_iters=10**7, num_particles=4, seed=%d, num_chains=%d, print_freq=1, grid_size=11, density='binomial')\n" % (seed, chains))
        # own session: the kill takes the run's worker processes with it (a SIGKILLed parent would leave them running)
        p = subprocess.Popen([sys.executable, "-u", "-c", code, in_file, out], env=env, stdout=subprocess.PIPE, stderr=subprocess.STDOUT, text=True, start_new_session=True)
        t0, seen = time.time(), 0
        try:
            while time.time() - t0 < 240:
                line = p.stdout.readline()
                if not line:
                    break
                if "iter:" in line and "chain" in line:
                    seen += 1
                    if seen >= 12 * chains:
                        break
        finally:
            try:
                os.killpg(p.pid, signal.SIGKILL)
            except (ProcessLookupError, PermissionError):
                p.send_signal(signal.SIGKILL)
            p.wait()
        res = None
        if seen and os.path.exists(out):
            res = _reader_outcomes(out, runs.tmpdir("C20_krun_read_%d_%d" % (os.getpid(), chains)))
        return {"chains": chains, "seen": seen, "exists": os.path.exists(out), "res": res}

    def full(out_dir, sd, limit=10**9):
        os.makedirs(out_dir, exist_ok=True)
        out = os.path.join(out_dir, "trace.pkl.gz")
        p = subprocess.run([sys.executable, "-c", _CHILD, in_file, out, str(limit), str(sd), "2"], env=env, capture_output=True, text=True, timeout=900)
        return out, p.returncode

    def rewrite_all():
        shared0 = os.path.join(d, "krun_rewrite_0")
        out_a, rc_a = full(shared0, seed)
        ref_b, rc_b = full(os.path.join(d, "krun_rewrite_ref"), seed + 1)
        if rc_a != 0 or rc_b != 0 or not os.path.exists(out_a) or not os.path.exists(ref_b):
            return None
        canon_a = runs.canon_results(runs.read_trace(out_a))
        canon_b = runs.canon_results(runs.read_trace(ref_b))
        L = os.path.getsize(ref_b)
        outs = []
        for j, k in enumerate((5, L // 2, L - 20)):
            shared = os.path.join(d, "krun_rewrite_%d" % (j + 1))
            os.makedirs(shared, exist_ok=True)
            shutil.copy(out_a, os.path.join(shared, "trace.pkl.gz"))
            out, rc = full(shared, seed + 1, limit=k)
            rec = {"k": k, "L": L, "rc": rc, "res": None, "which": None}
            if os.path.exists(out):
                rec["res"] = _reader_outcomes(out, runs.tmpdir("C20_rewrite_read_%d_%d" % (os.getpid(), k)))
                if not all(o.startswith("E:") for o in rec["res"]):
                    try:
                        got = runs.canon_results(runs.read_trace(out))
                    except Exception:  # noqa: BLE001
                        got = None
                    rec["which"] = "new-complete" if got == canon_b else ("the EARLIER run's" if got == canon_a else "not the new run's complete trace")
            outs.append(rec)
        return outs

    with ThreadPoolExecutor(max_workers=3) as ex:
        fk = [ex.submit(kill_one, c) for c in (1, 2)]
        fr = ex.submit(rewrite_all)
        kills = [f.result() for f in fk]
        rew = fr.result()
    for r in kills:
        ctx.case(key=("killed-run", r["chains"]), nontrivial=r["seen"] > 0, sample={"chains": r["chains"], "progress_lines_seen": r["seen"], "trace_path_exists": r["exists"]})
        ctx.count("killed_run:%s" % ("file-left" if r["exists"] else "no-file"))
        if r["seen"] == 0:
            ctx.log("killed-run scenario (%d chains): no sampling progress line seen before the time limit; nothing to conclude" % r["chains"])
        elif r["res"] is not None and not all(o.startswith("E:") for o in r["res"]):
            ctx.fail("C20:run:killed-while-sampling:trace-readable", "a %d-chain run killed while it was sampling (after %d progress lines) left a file at the trace path that the summary commands read without error (%s)" % (r["chains"], r["seen"], [o[:12] for o in r["res"]]),
                     {"chains": r["chains"], "seed": seed, "outcomes": list(r["res"]), "input": open(in_file).read()})
    if rew is None:
        ctx.broken_tie("rewrite scenario: a reference run failed")
        return
    for rec in rew:
        ctx.case(key=("rewrite-run", rec["k"]), nontrivial=True, sample={"space_per_file": rec["k"], "complete_trace_bytes": rec["L"], "exit": rec["rc"]})
        ctx.count("rewritten_run")
        if rec["which"] not in (None, "new-complete"):
            ctx.fail("C20:run:interrupted-rewrite:stale-trace-readable", "re-running to a path that held a complete trace of an earlier run and running out of space after %d bytes leaves the summary commands reading a trace without error (%s) that is %s" % (rec["k"], [o[:12] for o in rec["res"]], rec["which"]),
                     {"space_per_file": rec["k"], "seed_first_run": seed, "seed_second_run": seed + 1, "outcomes": list(rec["res"]), "input": open(in_file).read()})


def run(ctx):
    coq.check_property_file(ctx)
    ctx.rule = (
        "traces written by create_main_run_output from real chains: small (3 mutations, 2 samples, grid 11, 2 chains), small pre-clustered (4 mutations in 3 clusters, 2 samples, PyClone-VI style cluster file), example-sized (mixing_small.tsv, 3 chains, grid 101; "
        "thorough adds a clustered 2-chain trace); every byte prefix of the small file (thorough: of all files; quick: 16-byte stride + last 64 + header for the larger) through "
        "write_map_results / write_consensus_results / write_topology_report; zlib on every such body prefix; pickle.loads on payload prefixes; the Coq stack machine on the real "
        "opcode stream at seeded cut positions; non-trivial = every prefix; distinct = (trace, prefix length)"
    )
    d = runs.tmpdir("C20_%d" % os.getpid())
    small_in = runs.write_input(os.path.join(d, "small.tsv"), runs.make_rows(ctx.rng, 3, 2, depth=(10, 30)))
    example = os.path.join(runs.REPO, "examples", "data", "mixing_small.tsv")
    clusters = os.path.join(runs.REPO, "examples", "data", "mixing_small_clusters.tsv")
    traces = [
        ("small", make_trace(os.path.join(d, "small.pkl.gz"), small_in, 2, ctx.seed, 6, 11, "binomial"), True, 150),
        ("example", make_trace(os.path.join(d, "example.pkl.gz"), example, 3, ctx.seed + 1, 4, 101, "beta-binomial"), not ctx.quick, 60),
    ]
    # a small pre-clustered trace in both tiers: with a cluster file the writer also stores the cluster table, which the readers
    # use for the results table - a cut anywhere in it must not be read as an unclustered (or otherwise different) trace
    from .. import tables as _tables

    small4_in = runs.write_input(os.path.join(d, "small4.tsv"), runs.make_rows(ctx.rng, 4, 2, depth=(10, 30)))
    small_cl = os.path.join(d, "small4_clusters.tsv")
    _tables.write_clusters(small_cl, {"m0": 0, "m1": 0, "m2": 1, "m3": 2}, per_sample=["S0", "S1"])
    traces.append(("smallclu", make_trace(os.path.join(d, "small_clustered.pkl.gz"), small4_in, 2, ctx.seed + 3, 5, 11, "binomial", cluster_file=small_cl), True, 60))
    traces.append(("sixchains", make_trace(os.path.join(d, "sixchains.pkl.gz"), small_in, 6, ctx.seed + 4, 2, 11, "binomial"), True, 40))
    if not ctx.quick:
        traces.append(("clustered", make_trace(os.path.join(d, "clustered.pkl.gz"), example, 2, ctx.seed + 2, 4, 101, "beta-binomial", cluster_file=clusters, proposal="fully-adapted"), True, 60))
    ctx.exhaustive = True
    with ProcessPoolExecutor(max_workers=WORKERS) as pool:
        for tag, path, every, cuts in traces:
            check_trace(ctx, pool, path, tag, every, cuts)
    interrupted_runs(ctx, d)
    killed_and_rewritten_runs(ctx, d)
    shutil.rmtree(d, ignore_errors=True)
    ctx.assumptions += [
        "CPython's unpickler, gzip.GzipFile and zlib behave as Model/Framing.v states (validated on every explored prefix, not proved)",
        "inflate of a body prefix is a prefix of the payload (Section hypothesis inflate_prefix; checked with zlib on every explored prefix)",
        "a crash is modelled as a prefix of the bytes create_main_run_output hands to the file (single gzip stream written at the end of the run)",
    ]
