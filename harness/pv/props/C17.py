"""C17 - input loading is order-independent and filters exactly as documented.

  * obligations: coq/Properties/C17.v (permutation invariance, kept-set characterisation, numbering, defaults, reject);
  * correspondence: generated tables -> real files -> real `load_data` / `load_pyclone_data`; the observed outcome
    (samples, mutation order, per-(mutation, sample) record, or the error class) is compared inside Coq with
    `Model.Loader.load` on the same table; also on tables OUTSIDE the quantifier (degenerate duplicate+missing mix ->
    Crash, a sample that loses every row -> it vanishes);
  * property-level search on the implementation alone: every table is loaded in K row orders and the results must be
    identical (exactly equal arrays); kept ids / order / sample order / defaults / rejection are compared with an
    independent oracle computed from the generated rows.
"""
import contextlib
import hashlib
import io
import os
import shutil
from fractions import Fraction

import numpy as np

from .. import coq
from .. import tables as T

DEFECTS = ["clean", "clean", "clean", "missing_one", "dup", "dup_all", "dup_exact", "dup_exact_all", "cn0_one", "cn0_all", "dup_cn0", "cn0_minor", "bad_in_dropped"]
MUT_STYLES = {
    # name -> (ids, numeric?)   "m10" < "m2" as strings; 10 > 2 as numbers
    "m": (["m1", "m2", "m10", "m11", "m20", "m3", "m100", "M1", "m"], False),
    "numeric": (["1", "2", "10", "11", "20", "3", "100", "9", "21"], True),
    "free": (["chr1:100", "chr10:5", "chr2:77", "X:9", "NA12:chr1:5", "a b", "rs_1", "Z", "chr1:99"], False),
    "free_commas": (["NA1,NA2:chr1:5", "NA1:chr1:5", "NA1,NA10:chr2:7", "B,A", "A,B", "A"], False),  # TSV only
}
SAMPLE_STYLES = {
    "alpha": ["A", "B", "C", "D"],
    "numeric": ["1", "2", "10", "21"],  # forced to str by the loader: "1" < "10" < "2" < "21"
    "mixed": ["S1", "S10", "S2", "T"],
    "many": ["S%d" % i for i in range(12)],  # more than ten samples: "S10" < "S2" in sorted order, and the loader's summary branch
}


def enc(x, numeric):
    """identifier -> the model's `ident` (Model/Loader.v header)."""
    return [int(x)] if numeric else [ord(c) for c in str(x)]


def coq_ident(x, numeric):
    return "[" + "; ".join(str(v) for v in enc(x, numeric)) + "]"


def sort_key(numeric):
    return (lambda x: int(x)) if numeric else (lambda x: str(x))


def gen_table(rng, allow_reject=False, degenerate=None, want_empty=False):
    ms = rng.choice(list(MUT_STYLES))
    sep = rng.choice(["\t", "\t", ","])
    if ms == "free_commas":
        sep = "\t"
    ids, numeric = MUT_STYLES[ms]
    ss = rng.choice(list(SAMPLE_STYLES))
    nsamp = rng.choice([1, 2, 2, 3, 3, 4])
    if ss == "many":
        nsamp = rng.choice([11, 12])
    if degenerate:
        nsamp = max(nsamp, 2)
    sids = rng.sample(SAMPLE_STYLES[ss], nsamp)
    nmut = rng.randint(2, min(8, len(ids)))
    muts = rng.sample(ids, nmut)
    has_tc, has_er = rng.random() < 0.5, rng.random() < 0.5
    rows, defects = [], {}

    def mk(m, s, major=None, minor=None):
        if major is None:
            major = rng.randint(1, 4)
            minor = rng.randint(0, major)
        return T.row(m, s, rng.randint(0, 40), rng.randint(0, 40), major, minor, rng.choice([1, 2, 2]),
                     rng.choice(["0.3", "0.75", "1.0"]), rng.choice(["0.001", "0.01", "0.0005"]))

    for k, m in enumerate(muts):
        d = "clean" if k == 0 and not want_empty else rng.choice(DEFECTS)
        if want_empty and d in ("clean", "dup_cn0"):
            d = "missing_one" if nsamp > 1 else "dup"
        if nsamp == 1 and d in ("missing_one", "bad_in_dropped"):
            d = "dup"
        if allow_reject and k == 1:
            d = "reject"
        if degenerate and k == 1:
            d = degenerate
        defects[m] = d
        cells = {s: [mk(m, s)] for s in sids}
        s0 = rng.choice(sids)
        others = [s for s in sids if s != s0]
        if d == "missing_one":
            cells[s0] = []
        elif d == "dup":
            cells[s0].append(mk(m, s0))
        elif d == "dup_all":
            for s in sids:
                cells[s].append(mk(m, s))
        elif d == "dup_exact":  # the same line twice (verbatim): still a duplicated mutation
            cells[s0].append(dict(cells[s0][0]))
        elif d == "dup_exact_all":  # the whole block of the mutation repeated verbatim (a file concatenated twice)
            for s in sids:
                cells[s].append(dict(cells[s][0]))
        elif d == "cn0_one":
            cells[s0] = [mk(m, s0, 0, 0)]
        elif d == "cn0_all":
            for s in sids:
                cells[s] = [mk(m, s, 0, 0)]
        elif d == "dup_cn0":  # an extra row with major copy number 0: removed first, one usable row remains
            cells[s0].append(mk(m, s0, 0, 0))
        elif d == "cn0_minor":  # major 0 < minor: silently filtered, never validated
            cells[s0] = [mk(m, s0, 0, 1)]
        elif d == "bad_in_dropped":  # major < minor in a mutation that is dropped anyway: no error
            cells[s0] = []
            cells[others[0]] = [mk(m, others[0], 1, 2)]
        elif d == "reject":
            cells[s0] = [mk(m, s0, 1, 3)]
        elif d == "mix_dup_missing":  # OUTSIDE the quantifier
            cells[s0].append(mk(m, s0))
            cells[others[0]] = []
        elif d == "mix_dup_cn0":  # OUTSIDE the quantifier
            cells[s0].append(mk(m, s0))
            cells[others[0]] = [mk(m, others[0], 0, 0)]
        for s in sids:
            rows += cells[s]
    rng.shuffle(rows)
    return {"rows": rows, "sids": sids, "muts": muts, "numeric": numeric, "sep": sep, "has_tc": has_tc, "has_er": has_er,
            "defects": defects, "mut_style": ms, "sample_style": ss, "extra_cols": rng.random() < 0.3}


# ---- independent oracle ------------------------------------------------------------------------------------
def oracle(tab):
    rows = tab["rows"]
    all_s = sorted({r["sample_id"] for r in rows})
    all_m = {r["mutation_id"] for r in rows}
    usable = [r for r in rows if r["major"] > 0]

    def cnt(m, s):
        return sum(1 for r in usable if r["mutation_id"] == m and r["sample_id"] == s)

    e1 = all(any(r["sample_id"] == s for r in usable) for s in all_s)
    rem_s = sorted({r["sample_id"] for r in usable})
    e2 = all(all(cnt(m, s) == 1 for s in rem_s) for m in all_m if sum(cnt(m, s) for s in rem_s) == len(rem_s))
    kept = sorted([m for m in all_m if all(cnt(m, s) == 1 for s in all_s)], key=sort_key(tab["numeric"]))
    bad = any(r["major"] < r["minor"] for r in usable if r["mutation_id"] in kept)
    return {"samples": all_s, "kept": kept, "e1": e1, "e2": e2, "reject": bad}


def cell_row(tab, m, s):
    c = [r for r in tab["rows"] if r["mutation_id"] == m and r["sample_id"] == s and r["major"] > 0]
    assert len(c) == 1
    return c[0]


# ---- observation -------------------------------------------------------------------------------------------
def write(tab, path, rows=None, tc=None, er=None):
    T.write_table(path, tab["rows"] if rows is None else rows, sep=tab["sep"],
                  tumour_content=tab["has_tc"] if tc is None else tc, error_rate=tab["has_er"] if er is None else er,
                  extra_cols=tab["extra_cols"])


def observe(path, cluster_file=None, grid=5):
    kind, data, samples = T.load_outcome(path, cluster_file=cluster_file, grid_size=grid, outlier_prob=0.01)
    if kind != "ok":
        return {"kind": kind, "msg": data}
    return {"kind": "ok", "names": [d.name for d in data], "idx": [d.idx for d in data], "samples": list(samples),
            "values": [np.array(d.value) for d in data], "out": [(float(d.outlier_prob), float(d.outlier_prob_not)) for d in data]}


def same_obs(a, b):
    if a["kind"] != b["kind"]:
        return False
    if a["kind"] != "ok":
        return True
    return (a["names"] == b["names"] and [type(x) for x in a["names"]] == [type(x) for x in b["names"]] and a["idx"] == b["idx"]
            and a["samples"] == b["samples"] and a["out"] == b["out"] and len(a["values"]) == len(b["values"])
            and all(x.shape == y.shape and np.array_equal(x, y) for x, y in zip(a["values"], b["values"])))


def records(path):
    """per-(mutation, sample) records as the loader stores them (load_pyclone_data is what load_data calls first)."""
    from phyclone.data.pyclone import load_pyclone_data

    with contextlib.redirect_stdout(io.StringIO()):
        data, samples = load_pyclone_data(path)
    out = []
    for mut, dp in data.items():
        recs = []
        for p in dp.sample_data_points:
            normal, total, ngen = int(p.cn[0][0]), int(p.cn[0][2]), len(p.cn)
            major = ngen if normal == total else ngen - 1
            recs.append((int(p.a), int(p.b), major, total - major, normal, Fraction(float(p.t)), Fraction(float(p.mu[0][0]))))
        out.append((mut, list(dp.samples), recs))
    return list(samples), out


# ---- Coq terms ---------------------------------------------------------------------------------------------
def coq_row(r, numeric):
    return "(mkRow %s %s %d %d %d %d %d %s %s)" % (
        coq_ident(r["mutation_id"], numeric), coq_ident(r["sample_id"], False), r["ref"], r["alt"], r["major"], r["minor"], r["normal"],
        T.coq_q(r["tumour_content"]), T.coq_q(r["error_rate"]))


def coq_table(tab):
    return "(mkTable [%s] %s %s)" % ("; ".join(coq_row(r, tab["numeric"]) for r in tab["rows"]), "true" if tab["has_tc"] else "false", "true" if tab["has_er"] else "false")


HEADER = "\n".join([
    "From PV Require Import Model.Loader Model.CaseUtil.",
    "Open Scope nat_scope.",
    "Definition qrel (tol : Q) (a : Qc) (b : Q) : bool := Qle_bool (qabs (this a - b)) (tol * qabs b)%Q.",
    "Definition tol := (1 # 1000000000)%Q.",
    "Definition lid_eqb := list_eqb lnat_eqb.",
    "Fixpoint all2 {A B} (f : A -> B -> bool) (a : list A) (b : list B) : bool :=",
    "  match a, b with [], [] => true | x :: a', y :: b' => f x y && all2 f a' b' | _, _ => false end.",
    "(* observed record: ref alt major minor normal t err *)",
    "Definition orec : Type := (nat * nat * nat * nat * nat * Q * Q)%type.",
    "Definition rec_ok (m : lrec) (o : orec) : bool :=",
    "  let '(a, b, mj, mn, nr, t, e) := o in",
    "  Nat.eqb (l_ref m) a && Nat.eqb (l_alt m) b && Nat.eqb (l_major m) mj && Nat.eqb (l_minor m) mn &&",
    "  Nat.eqb (l_normal m) nr && qrel tol (l_t m) t && qrel tol (l_err m) e.",
    "Definition dp_ok (m : ident * list lrec) (o : ident * list orec) : bool :=",
    "  lnat_eqb (fst m) (fst o) && all2 rec_ok (snd m) (snd o).",
    "Definition chk_ok (tb : table) (ss : list ident) (d : list (ident * list orec)) : bool :=",
    "  match load tb with Ok (ss', d') => lid_eqb ss' ss && all2 dp_ok d' d && lid_eqb (kept tb) (map fst d) | _ => false end.",
    "Definition chk_reject (tb : table) : bool := match load tb with Reject => true | _ => false end.",
    "Definition chk_crash (tb : table) : bool := match load tb with Crash => true | _ => false end.",
    "Definition chk_clusters (cl : list (ident * ident)) (ms : list ident) (names : list ident) (sizes : list nat) : bool :=",
    "  match cluster_points cl ms with",
    "  | Some pts => lid_eqb (map fst pts) names && lnat_eqb (map (fun p => length (snd p)) pts) sizes",
    "  | None => false end.",
])


def run(ctx):
    coq.check_property_file(ctx)
    rng = ctx.rng
    quick = ctx.quick
    K = 5 if quick else 10
    n_tables = 150 if quick else 1200
    ctx.rule = (
        "generated tables (1-4 samples, 2-8 mutations, per mutation one of: clean / missing in a sample / duplicated in one or "
        "all samples / major copy number 0 in one or all samples / extra row with major 0 / major 0 < minor / major < minor "
        "in a dropped mutation; id styles m1<m10<m2, purely numeric, free form with ':' ' ' ','; sample ids alphabetic, numeric, "
        "mixed; optional columns present or absent; tab or comma separated; extra columns; with and without a cluster file) "
        "written to real files and loaded with the real load_data in %d row orders each; results compared between orders "
        "(exactly equal arrays) and with an independent oracle (kept set, order, idx, sample order, defaults, rejection) and "
        "with the Coq model (load / kept / cluster_points by vm_compute); non-trivial = at least one mutation dropped and one kept; "
        "distinct = table contents" % K
    )
    ctx.exhaustive = False
    tmp = T.tmpdir(ctx, "tables")
    items, meta = [], []
    n_reject = n_deg = 0

    plans = []
    for k in range(n_tables):
        plans.append({"allow_reject": k % 6 == 5})
    for k in range(8 if quick else 120):
        plans.append({"degenerate": rng.choice(["mix_dup_missing", "mix_dup_cn0"])})

    for k, plan in enumerate(plans):
        tab = gen_table(rng, **plan)
        if plan.get("degenerate") and len(tab["sids"]) < 2:
            continue
        orc = oracle(tab)
        numeric = tab["numeric"]
        base = os.path.join(tmp, "t%04d" % k)
        ext = ".tsv" if tab["sep"] == "\t" else ".csv"
        inside = orc["e1"] and orc["e2"] and bool(orc["kept"])
        ctx.count("mut_ids=%s" % tab["mut_style"])
        ctx.count("sample_ids=%s" % tab["sample_style"])
        ctx.count("sep=%s" % ("tab" if tab["sep"] == "\t" else "comma"))
        ctx.count("optional_cols=%s%s" % ("tc" if tab["has_tc"] else "-", "er" if tab["has_er"] else "-"))
        ctx.count("samples=%d" % len(tab["sids"]))
        for d in tab["defects"].values():
            ctx.count("defect=%s" % d)
        ctx.count("inside_quantifier=%s" % inside)
        replay = {"rows": tab["rows"], "sep": tab["sep"], "has_tc": tab["has_tc"], "has_er": tab["has_er"], "extra_cols": tab["extra_cols"], "defects": tab["defects"]}
        # cluster file for about half of the tables (cluster ids numeric or strings)
        cluster = None
        if k % 2 == 0 and not plan.get("degenerate"):
            cstyle = rng.choice(["int", "str"])
            cids = [0, 1, 2, 10] if cstyle == "int" else ["c1", "c10", "c2", "k"]
            cluster = {"assign": {m: rng.choice(cids) for m in tab["muts"]}, "numeric": cstyle == "int"}
            T.write_clusters(base + "_clusters.tsv", cluster["assign"], per_sample=tab["sids"] if k % 4 == 0 else None, order=rng.sample(tab["muts"], len(tab["muts"])))
            ctx.count("cluster_file=%s" % cstyle)
        else:
            ctx.count("cluster_file=none")
        # ---- K row orders
        orders = [list(tab["rows"]), list(reversed(tab["rows"])), sorted(tab["rows"], key=lambda r: (r["sample_id"], r["mutation_id"]))]
        while len(orders) < K:
            o = list(tab["rows"])
            rng.shuffle(o)
            orders.append(o)
        obs, cobs = [], []
        for j, o in enumerate(orders[:K]):
            p = "%s_o%d%s" % (base, j, ext)
            write(tab, p, rows=o)
            obs.append(observe(p))
            if cluster:
                cobs.append(observe(p, cluster_file=base + "_clusters.tsv"))
        p0 = "%s_o0%s" % (base, ext)
        if tab["numeric"] and obs[0]["kind"] == "ok" and obs[0]["names"] and isinstance(obs[0]["names"][0], str):
            # an all-digit id column kept as strings: lexicographic order is then the sorted identifier order
            tab["numeric"] = numeric = False
            orc = oracle(tab)
            ctx.count("numeric_ids_loaded_as_strings")
        nontrivial = 0 < len(orc["kept"]) < len(set(tab["muts"]))
        ctx.case(key=hashlib.sha1(repr((sorted(map(repr, tab["rows"])), tab["sep"], tab["has_tc"], tab["has_er"])).encode()).hexdigest(), nontrivial=nontrivial, n=K,
                 sample={"mutations": tab["defects"], "samples": tab["sids"], "sep": tab["sep"], "kept": orc["kept"], "outcome": obs[0]["kind"]})
        shape = "%s_ids:%s" % (tab["mut_style"], "clustered" if cluster else "unclustered")
        # ---- P1 row-order independence (inside and outside the quantifier alike, error class included)
        for which, oo in (("load_data", obs), ("load_data+clusters", cobs)):
            for j in range(1, len(oo)):
                if not same_obs(oo[0], oo[j]):
                    ctx.fail("C17:%s:row_order:%s" % (which, shape), "result differs between two row orders of the same table (order 0 vs %d): %s vs %s" % (j, oo[0]["kind"], oo[j]["kind"]),
                             dict(replay, order_a=orders[0], order_b=orders[j], cluster=cluster))
                    break
        o0 = obs[0]
        if inside:
            want_kind = "MajorCopyNumberError" if orc["reject"] else "ok"
            if orc["reject"]:
                n_reject += 1
            # ---- P6 rejection
            if o0["kind"] != want_kind:
                ctx.fail("C17:get_major_cn_prior:reject:%s" % ("missed" if orc["reject"] else "spurious_%s" % o0["kind"]),
                         "expected %s, load_data gave %s (%s)" % (want_kind, o0["kind"], o0.get("msg", "")), replay)
            if o0["kind"] == "ok":
                names = [str(x) for x in o0["names"]]
                # ---- P2 kept set and order, P3 numbering and sample order
                if sorted(names) != sorted(orc["kept"]):
                    ctx.fail("C17:load_pyclone_data:kept_set:%s" % tab["mut_style"], "kept %r but exactly %r have one usable row in every sample" % (names, orc["kept"]), replay)
                elif names != orc["kept"]:
                    ctx.fail("C17:load_pyclone_data:order:%s" % tab["mut_style"], "data points in order %r, sorted identifier order is %r" % (names, orc["kept"]), replay)
                if o0["idx"] != list(range(len(o0["idx"]))):
                    ctx.fail("C17:load_data:idx", "idx not 0..n-1: %r" % (o0["idx"],), replay)
                if o0["samples"] != orc["samples"]:
                    ctx.fail("C17:load_pyclone_data:samples", "samples %r, expected sorted %r" % (o0["samples"], orc["samples"]), replay)
                if any(v.shape != (len(orc["samples"]), 5) for v in o0["values"]):
                    ctx.fail("C17:load_data:shape", "a data point does not have one likelihood row per sample", replay)
                # ---- P4 row s of the grid belongs to sample s: reload one cell alone
                if names == orc["kept"] and o0["samples"] == orc["samples"] and names:
                    mi, si = rng.randrange(len(names)), rng.randrange(len(orc["samples"]))
                    one = dict(cell_row(tab, names[mi], orc["samples"][si]))
                    p1 = base + "_cell" + ext
                    write(tab, p1, rows=[one])
                    oc = observe(p1)
                    if oc["kind"] != "ok" or not np.array_equal(oc["values"][0][0], o0["values"][mi][si]):
                        ctx.fail("C17:_create_loaded_pyclone_data_dict:sample_row", "likelihood row %d of %r is not the grid of its row for sample %r" % (si, names[mi], orc["samples"][si]), dict(replay, cell=one))
                # ---- P5 defaults
                if not (tab["has_tc"] and tab["has_er"]):
                    rows_d = [dict(r, tumour_content=r["tumour_content"] if tab["has_tc"] else "1.0", error_rate=r["error_rate"] if tab["has_er"] else "0.001") for r in tab["rows"]]
                    p2 = base + "_defaults" + ext
                    write(tab, p2, rows=rows_d, tc=True, er=True)
                    if not same_obs(o0, observe(p2)):
                        ctx.fail("C17:_process_required_cols_on_df:defaults", "absent optional columns do not behave like tumour_content=1.0 / error_rate=0.001", replay)
                # ---- P7 clusters
                if cluster and cobs[0]["kind"] == "ok" and names == orc["kept"]:
                    a = cluster["assign"]
                    cids = sorted({a[m] for m in names}, key=sort_key(cluster["numeric"]))
                    c0 = cobs[0]
                    if c0["names"] != [str(c) for c in cids] or c0["idx"] != list(range(len(cids))):
                        ctx.fail("C17:_create_clustered_data_arr:order:%s" % ("int" if cluster["numeric"] else "str"), "cluster data points %r / idx %r, expected sorted clusters %r" % (c0["names"], c0["idx"], cids), dict(replay, cluster=cluster))
                    else:
                        for ci, c in enumerate(cids):
                            want = np.sum(np.array([o0["values"][names.index(m)] for m in names if a[m] == c]), axis=0)
                            if c0["values"][ci].shape != want.shape or not np.allclose(c0["values"][ci], want, rtol=1e-12, atol=1e-12):
                                ctx.fail("C17:_create_clustered_data_arr:members", "cluster %r is not the sum of the kept mutations assigned to it" % (c,), dict(replay, cluster=cluster))
                        items.append("chk_clusters [%s] [%s] [%s] [%s]" % (
                            "; ".join("(%s, %s)" % (coq_ident(m, numeric), coq_ident(a[m], cluster["numeric"])) for m in tab["muts"]),
                            "; ".join(coq_ident(m, numeric) for m in names),
                            "; ".join(coq_ident(c, cluster["numeric"]) for c in cids),
                            "; ".join(str(sum(1 for m in names if a[m] == c)) for c in cids)))
                        meta.append({"kind": "clusters", **replay, "cluster": cluster})
                elif cluster and cobs[0]["kind"] != "ok":
                    ctx.fail("C17:load_data:clustered:exception:%s" % cobs[0]["kind"], "clustered load raised %s: %s" % (cobs[0]["kind"], cobs[0]["msg"]), dict(replay, cluster=cluster))
        else:
            n_deg += 1
        # ---- correspondence with the Coq model (all tables, inside or outside the quantifier)
        if o0["kind"] == "ok":
            ss, recs = records(p0)
            if ss != o0["samples"] or [str(m) for m, _, _ in recs] != [str(x) for x in o0["names"]]:
                ctx.broken_tie("C17 harness: load_pyclone_data and load_data disagree on names/samples", replay)
            items.append("chk_ok %s [%s] [%s]" % (
                coq_table(tab), "; ".join(coq_ident(s, False) for s in ss),
                "; ".join("(%s, [%s])" % (coq_ident(m, numeric), "; ".join("(%d, %d, %d, %d, %d, %s, %s)" % (r[0], r[1], r[2], r[3], r[4], T.coq_Q(r[5]), T.coq_Q(r[6])) for r in rl)) for m, _, rl in recs)))
        elif o0["kind"] == "MajorCopyNumberError":
            items.append("chk_reject %s" % coq_table(tab))
        elif o0["kind"] in ("KeyError", "ValueError") and (orc["kept"] or not orc["e2"]):
            items.append("chk_crash %s" % coq_table(tab))
        else:
            # e.g. every mutation dropped and an optional column absent: pandas refuses to add the default column
            ctx.count("uncompared_outcome=%s" % o0["kind"])
            continue
        meta.append({"kind": o0["kind"], **replay})

    # ---------------------------------------------------------------- identifier typing probes (pandas type inference)
    def simple(ids, sids=("A", "B")):
        return [T.row(m, s, 10 + i, 5 + j, 2, 1, 2) for i, m in enumerate(ids) for j, s in enumerate(sids)]

    for name, ids in (("na_like_id", ["m1", "NA", "m2"]), ("numeric_id_conflation", ["1", "01", "2"]),
                      ("ids_differing_by_surrounding_blanks", ["m1", "m1 ", " m1", "chr2:77", " chr2:77"]),
                      ("ids_differing_by_case_and_inner_blanks", ["m 1", "m  1", "M1", "m1"]),
                      ("ids_differing_by_surrounding_blanks_csv", ["x9", "x9 ", "y"])):
        p = os.path.join(tmp, "probe_%s.%s" % (name, "csv" if name.endswith("_csv") else "tsv"))
        T.write_table(p, simple(ids), sep="," if name.endswith("_csv") else "\t")
        o = observe(p)
        got = sorted(str(x) for x in o.get("names", []))
        ctx.case(key=("probe", name), nontrivial=True)
        ctx.count("probe=%s" % name)
        if o["kind"] != "ok" or len(got) != len(ids):
            ctx.fail(
                "C17:_create_raw_data_df:mutation_id_type_inference:%s" % name,
                "mutation ids %r each have exactly one usable row in every sample, but the loader kept %r (%s)" % (ids, got, o["kind"]),
                {"rows": simple(ids), "sep": "\t", "kept": got, "call": "phyclone.data.pyclone.load_data(table, rng, 0.0001, 0.4, False, grid_size=5)"},
            )

    # the same for sample identifiers: samples named "A" and "A " are two samples (each mutation has one row in each)
    p = os.path.join(tmp, "probe_sample_ids_blanks.tsv")
    rows_b = simple(["m1", "m2", "m3"], sids=("A", "A ", " B"))
    T.write_table(p, rows_b)
    o = observe(p)
    ctx.case(key=("probe", "sample_ids_blanks"), nontrivial=True)
    ctx.count("probe=sample_ids_blanks")
    if o["kind"] != "ok" or len(o.get("names", [])) != 3 or len(o.get("samples", [])) != 3:
        ctx.fail("C17:_create_raw_data_df:sample_id_verbatim", "sample ids 'A', 'A ' and ' B' are three samples with one usable row per mutation each, but the loader kept mutations %r over samples %r (%s)" % (sorted(str(x) for x in o.get("names", [])), o.get("samples"), o["kind"]),
                 {"rows": rows_b, "sep": "\t", "call": "phyclone.data.pyclone.load_data(table, rng, 0.0001, 0.4, False, grid_size=5)"})

    ctx.extra["tables_with_rejection"] = n_reject
    ctx.extra["tables_outside_quantifier"] = n_deg
    ok, bad, detail = coq.coq_eval_bool_cases(ctx, "corr", HEADER, items, shard=30, workers=4)
    ctx.extra["coq_corr_cases"] = len(items)
    if not ok:
        ctx.broken_tie("C17 correspondence file did not evaluate", detail)
    else:
        ctx.obligation("corr_model_eq_impl_%d_cases" % len(items), not bad)
        if bad:
            ctx.broken[-1]["detail"] = {"failing_case_count": len(bad), "first": meta[bad[0]], "item": items[bad[0]][:800]}
    ctx.assumptions += [
        "identifiers are modelled as pandas presents them: an all-digit mutation_id / cluster_id column is integers (numeric order, [k]), anything else strings (code-point order); sample_id always strings",
        "'exactly one row for it with a positive major copy number' is read as: exactly one of the sample's rows for the mutation has major_cn > 0 (an extra row with major_cn = 0 is removed first and the mutation is kept)",
        "the rejection of major < minor concerns rows of kept mutations (get_major_cn_prior is only reached for them); major = 0 < minor is filtered, not rejected",
        "tables whose mutations are ALL dropped are not compared: with an optional column absent pandas raises ValueError when the default column is added to the empty frame (with both columns present the loader returns no data points)",
        "NaN cells, non-integer counts and malformed headers are outside the model",
    ]
    shutil.rmtree(tmp, ignore_errors=True)
