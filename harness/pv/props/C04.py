"""C04 - data-point, prune-regraft and subtree moves leave the log_p_one posterior invariant."""
import time
from concurrent.futures import ProcessPoolExecutor

from .. import coq
from ..kernels import KINDS, invariance_defect, transition_matrix
from ..trees import rational_values, spec_points

TOL = 1e-9


def _warm():
    import phyclone.run  # noqa


def configs(ctx):
    out = []
    alphas = [0.3, 1.0, 2.5]
    for npts in (2, 3) if ctx.quick else (2, 3, 4):
        for a in ([1.0, ctx.rng.choice([0.3, 2.5])] if ctx.quick else alphas):
            out.append(dict(move="dp", npts=npts, outliers=False, data_op=0.0, alpha=a))
            if npts <= 3:
                out.append(dict(move="dp", npts=npts, outliers=True, data_op=0.2, alpha=a))
                out.append(dict(move="dp", npts=npts, outliers=True, data_op=0.2, alpha=a, wiring="run"))
            out.append(dict(move="prg", npts=npts, data_op=0.0, alpha=a))
            if npts <= 3:
                out.append(dict(move="prg", npts=npts, data_op=0.2, alpha=a, outlier_states=True))
    # subtree particle Gibbs
    for kind in KINDS:
        for (dop, pop) in ((0.0, 0.0), (0.2, 0.1)):
            n, t = ctx.rng.choice([(2, 0.5), (2, 1.0), (2, 0.0)])
            out.append(dict(move="subtree", npts=2, kind=kind, prop_op=pop, data_op=dop, N=n, thr=t, alpha=ctx.rng.choice(alphas), wiring=ctx.rng.choice(["library", "run"])))
    # three points: this is where the state-dependent subtree choice shows
    out.append(dict(move="subtree", npts=3, kind="fully-adapted", prop_op=0.0, data_op=0.0, N=2, thr=0.0, alpha=1.0, wiring="library"))
    if not ctx.quick:
        for kind in KINDS:
            for (dop, pop) in ((0.0, 0.0), (0.2, 0.1)):
                out.append(dict(move="subtree", npts=3, kind=kind, prop_op=pop, data_op=dop, N=2, thr=0.5, alpha=1.0, wiring="run"))
    return out


def run(ctx):
    coq.check_property_file(ctx)
    ctx.rule = (
        "exact transition matrix (every random outcome enumerated) of DataPointSampler.sample_tree (outlier option off/on, library and run wiring), "
        "PruneRegraphSampler.sample_tree and ParticleGibbsSubtreeSampler.sample_tree from EVERY start tree over 2-3 (thorough: 4 for the "
        "Gibbs moves) data points, alpha from a grid; checked max|pi P - pi| <= 1e-9 with pi from log_p_one, row sums, no exception; "
        "distinct = configuration; non-trivial = at least 2 states"
    )
    ctx.exhaustive = True
    pool = ProcessPoolExecutor(max_workers=15, initializer=_warm)
    data = {}
    try:
        for cfg in configs(ctx):
            npts = cfg["npts"]
            if npts not in data:
                data[npts] = rational_values(ctx.rng, npts, 1, 2 if npts >= 3 else 3)
            vals = data[npts]
            t = time.time()
            res = transition_matrix(vals, cfg["data_op"], cfg, pool=pool, cache=(npts >= 3 and cfg["move"] == "subtree"))
            d, j, rs = invariance_defect(res)
            nstates = len(res["specs"])
            move = cfg["move"]
            if move == "subtree":
                tag = "subtree:%s:%s:outliers=%s:npts=%d" % (cfg["wiring"], cfg["kind"], "on" if cfg["data_op"] > 0 else "off", npts)
            elif move == "dp":
                tag = "dp:outliers=%s:npts=%d" % ("on" if cfg["outliers"] else "off", npts)
            else:
                tag = "prg:outlier-states=%s:npts=%d" % ("on" if cfg["data_op"] > 0 else "off", npts)
            ctx.case(key=tuple(sorted(cfg.items())), nontrivial=nstates >= 2,
                     sample={"config": cfg, "states": nstates, "paths": res["paths"], "max_abs_piP_minus_pi": d, "rowsum_err": rs})
            ctx.count("move=%s" % move); ctx.count("npts=%d" % npts); ctx.count("paths", res["paths"])
            replay = {"config": cfg, "values": [[[str(x) for x in row] for row in pt] for pt in vals]}
            ctx.log("%s a=%s: states %d paths %d inv %.2g rowsum %.2g errors %d (%.1fs)" % (tag, cfg["alpha"], nstates, res["paths"], d, rs, len(res["errors"]), time.time() - t))
            if res["errors"]:
                e = res["errors"][0]
                allout = len(e["start"][0]) == 0
                ctx.fail("C04:%s:exception:%s" % (tag, "all-outlier-start" if allout else "start-with-clones"), "exception inside the move: %s" % e["error"], dict(replay, start=e["start"], path=e["path"], error=e["error"]))
                if allout and all(len(x["start"][0]) == 0 for x in res["errors"]):
                    pass
                continue
            if res["malformed"] or res["escaped"]:
                m = (res["malformed"] or res["escaped"])[0]
                ctx.fail("C04:%s:malformed" % tag, "move returned a tree outside the state space", dict(replay, detail=m))
                continue
            if d > TOL or rs > TOL:
                big = ":defect>0.02" if (move == "subtree" and npts >= 3 and d > 0.02) else ""
                ctx.fail("C04:%s%s" % (tag, big), "posterior not invariant: max|pi P - pi| = %.3g at state %s" % (d, res["specs"][j]),
                         dict(replay, state=res["specs"][j], pi=res["pi"].tolist(), piP=(res["pi"] @ res["P"]).tolist()))
    finally:
        pool.shutdown()
    ctx.assumptions += ["the enumerating generator visits every outcome of each numpy call with numpy's probability"]
