"""C04 - data-point, prune-regraft and subtree moves leave the log_p_one posterior invariant."""
import time
from concurrent.futures import ProcessPoolExecutor

from .. import coq
from ..kernels import KINDS, invariance_defect, transition_matrix
from ..trees import rational_values, spec_points

TOL = 1e-9


def _warm():
    import phyclone.run  # noqa


def configs(ctx):
    out = []
    alphas = [0.3, 1.0, 2.5]
    for npts in (2, 3, 4) if ctx.quick else (2, 3, 4, 5):
        for a in ([1.0, ctx.rng.choice([0.3, 2.5])] if ctx.quick else alphas):
            out.append(dict(move="dp", npts=npts, outliers=False, data_op=0.0, alpha=a))
            if npts <= (3 if ctx.quick else 4):
                out.append(dict(move="dp", npts=npts, outliers=True, data_op=0.2, alpha=a))
                out.append(dict(move="dp", npts=npts, outliers=True, data_op=0.2, alpha=a, wiring="run"))
            out.append(dict(move="prg", npts=npts, data_op=0.0, alpha=a))
            if npts <= 3:
                out.append(dict(move="prg", npts=npts, data_op=0.2, alpha=a, outlier_states=True))
    # subtree particle Gibbs
    for kind in KINDS:
        for (dop, pop) in ((0.0, 0.0), (0.2, 0.1)):
            n, t = ctx.rng.choice([(2, 0.5), (2, 1.0), (2, 0.0)])
            out.append(dict(move="subtree", npts=2, kind=kind, prop_op=pop, data_op=dop, N=n, thr=t, alpha=ctx.rng.choice(alphas), wiring=ctx.rng.choice(["library", "run"])))
    # three points: this is where the state-dependent subtree choice shows (known finding)
    for kind in KINDS:
        for (dop, pop) in ((0.0, 0.0), (0.2, 0.1)):
            out.append(dict(move="subtree", npts=3, kind=kind, prop_op=pop, data_op=dop, N=2, thr=ctx.rng.choice([0.0, 0.5, 1.0]), alpha=ctx.rng.choice(alphas), wiring=ctx.rng.choice(["library", "run"])))
    if not ctx.quick:
        for kind in KINDS:
            out.append(dict(move="subtree", npts=4, kind=kind, prop_op=0.0, data_op=0.0, N=2, thr=0.5, alpha=1.0, wiring="run"))
    return out


def sweep_structure(ctx):
    """The sweep in run.py must be a FIXED composition of the moves (C04_sweep_composition_invariant applies to a fixed
    composition): stub samplers with scripted outputs (same object / equal copy / different tree) are passed to the real
    _run_burnin and _run_main_sampler; the sequence of sampler invocations must not depend on what the samplers return."""
    import contextlib
    import io
    import itertools

    import numpy as np

    import phyclone.run as R
    from phyclone.utils import Timer
    from ..kernels import make_tree_dist
    from ..trees import all_specs, build_tree, make_data, rational_values

    data = make_data(rational_values(ctx.rng, 3, 1, 3), outlier_prob=0.0)
    trees = [build_tree(sp, data) for sp in all_specs(range(3))[:6]]

    class Stub:
        def __init__(self, name, log, mode):
            self.name, self.log, self.mode, self.k = name, log, mode, 0

        def sample_tree(self, tree):
            self.log.append(self.name)
            self.k += 1
            if self.mode == "same":
                return tree
            if self.mode == "copy":
                return tree.copy()
            if self.mode == "alt":
                return tree if self.k % 2 else trees[self.k % len(trees)].copy()
            return trees[self.k % len(trees)].copy()

        def sample(self, old, k, n):
            self.log.append(self.name)
            return old

    n = 0
    for modes in itertools.product(["same", "copy", "diff", "alt"], repeat=2):
        for (D, P, sub_p, conc, iters, thin, burnin) in [(1, 1, 0.0, False, 3, 1, 2), (2, 1, 1.0, True, 3, 2, 0), (0, 2, 0.0, True, 2, 1, 1), (1, 0, 1.0, False, 2, 1, 1)]:
            log = []
            pg_mode, mv_mode = modes
            sh = R.SamplersHolder(Stub("dp", log, mv_mode), Stub("prg", log, mv_mode), Stub("conc", log, "same"), Stub("burnin", log, pg_mode), Stub("tree", log, pg_mode), Stub("subtree", log, pg_mode))
            td = make_tree_dist(1.0)
            rng = np.random.default_rng(1)
            with contextlib.redirect_stdout(io.StringIO()):
                t0 = R._run_burnin(burnin, float("inf"), D, P, 100, sh, Timer(), trees[0].copy(), td, 0)
                res = R._run_main_sampler(conc, data, float("inf"), iters, D, P, 100, sh, ["s"], thin, Timer(), t0, td, 0, rng, sub_p)
            expect = []
            for _ in range(burnin):
                expect += ["burnin"] + ["dp"] * D + ["prg"] * P
            for _ in range(iters):
                expect += ["subtree" if sub_p >= 1.0 else "tree"] + ["dp"] * D + ["prg"] * P + (["conc"] if conc else [])
            n += 1
            ctx.case(key=("sweep", modes, D, P, sub_p, conc, iters, thin, burnin), nontrivial=True)
            if log != expect:
                ctx.fail("C04:run._run_main_sampler:sweep-composition", "the sequence of moves in a sweep depends on what the moves return (or is not the documented composition)",
                         {"stub_modes": modes, "num_samples_data_point": D, "num_samples_prune_regraph": P, "subtree_update_prob": sub_p,
                          "concentration_update": conc, "iters": iters, "burnin": burnin, "observed_calls": log, "expected_calls": expect})
            its = [e["iter"] for e in res["trace"]]
            exp_its = [0] + [i for i in range(iters) if i % thin == 0]
            if its != exp_its:
                ctx.fail("C04:run._run_main_sampler:trace-iters", "recorded iterations %r, expected %r" % (its, exp_its), {"thin": thin, "iters": iters})
    ctx.count("sweep_structure_scripts", n)


def run(ctx):
    coq.check_property_file(ctx)
    sweep_structure(ctx)
    ctx.rule = (
        "exact transition matrix (every random outcome enumerated) of DataPointSampler.sample_tree (outlier option off/on, library and run wiring), "
        "PruneRegraphSampler.sample_tree and ParticleGibbsSubtreeSampler.sample_tree from EVERY start tree over 2-3 (thorough: 4 for the "
        "Gibbs moves) data points, alpha from a grid; checked max|pi P - pi| <= 1e-9 with pi from log_p_one, row sums, no exception; "
        "distinct = configuration; non-trivial = at least 2 states"
    )
    ctx.exhaustive = True
    pool = ProcessPoolExecutor(max_workers=15, initializer=_warm)
    data = {}
    try:
        for cfg in configs(ctx):
            npts = cfg["npts"]
            if npts not in data:
                data[npts] = rational_values(ctx.rng, npts, 1, 2 if npts >= 3 else 3)
            vals = data[npts]
            t = time.time()
            res = transition_matrix(vals, cfg["data_op"], cfg, pool=pool, cache=(npts >= 3 and cfg["move"] == "subtree"))
            d, j, rs = invariance_defect(res)
            nstates = len(res["specs"])
            move = cfg["move"]
            if move == "subtree":
                tag = "subtree:%s:%s:outliers=%s:npts=%d" % (cfg["wiring"], cfg["kind"], "on" if cfg["data_op"] > 0 else "off", npts)
            elif move == "dp":
                tag = "dp:outliers=%s:npts=%d" % ("on" if cfg["outliers"] else "off", npts)
            else:
                tag = "prg:outlier-states=%s:npts=%d" % ("on" if cfg["data_op"] > 0 else "off", npts)
            ctx.case(key=tuple(sorted(cfg.items())), nontrivial=nstates >= 2,
                     sample={"config": cfg, "states": nstates, "paths": res["paths"], "max_abs_piP_minus_pi": d, "rowsum_err": rs})
            ctx.count("move=%s" % move); ctx.count("npts=%d" % npts); ctx.count("paths", res["paths"])
            replay = {"config": cfg, "values": [[[str(x) for x in row] for row in pt] for pt in vals]}
            ctx.log("%s a=%s: states %d paths %d inv %.2g rowsum %.2g errors %d (%.1fs)" % (tag, cfg["alpha"], nstates, res["paths"], d, rs, len(res["errors"]), time.time() - t))
            if res["errors"]:
                e = res["errors"][0]
                allout = len(e["start"][0]) == 0
                ctx.fail("C04:%s:exception:%s" % (tag, "all-outlier-start" if allout else "start-with-clones"), "exception inside the move: %s" % e["error"], dict(replay, start=e["start"], path=e["path"], error=e["error"]))
                if allout and all(len(x["start"][0]) == 0 for x in res["errors"]):
                    pass
                continue
            if res["malformed"] or res["escaped"]:
                m = (res["malformed"] or res["escaped"])[0]
                ctx.fail("C04:%s:malformed" % tag, "move returned a tree outside the state space", dict(replay, detail=m))
                continue
            if d > TOL or rs > TOL:
                big = ":defect>0.02" if (move == "subtree" and npts >= 3 and d > 0.02) else ""
                ctx.fail("C04:%s%s" % (tag, big), "posterior not invariant: max|pi P - pi| = %.3g at state %s" % (d, res["specs"][j]),
                         dict(replay, state=res["specs"][j], pi=res["pi"].tolist(), piP=(res["pi"] @ res["P"]).tolist()))
    finally:
        pool.shutdown()
    ctx.assumptions += ["the enumerating generator visits every outcome of each numpy call with numpy's probability"]
