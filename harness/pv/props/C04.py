"""C04 - data-point, prune-regraft and subtree moves leave the log_p_one posterior invariant."""
import time
from concurrent.futures import ProcessPoolExecutor

from .. import coq
from ..kernels import KINDS, invariance_defect, transition_matrix
from ..trees import rational_values, spec_points

TOL = 1e-9


def _warm():
    import phyclone.run  # noqa


def configs(ctx):
    out = []
    alphas = [0.3, 1.0, 2.5]
    for npts in (2, 3, 4) if ctx.quick else (2, 3, 4, 5):
        for a in ([1.0, ctx.rng.choice([0.3, 2.5])] if ctx.quick else alphas):
            if npts == 5 and a != alphas[ctx.seed % 3]:
                continue  # 2992 states, 8.4e6 paths, 10-25 min per data-point matrix: one concentration value per run
            out.append(dict(move="dp", npts=npts, outliers=False, data_op=0.0, alpha=a))
            if npts <= (3 if ctx.quick else 4):
                out.append(dict(move="dp", npts=npts, outliers=True, data_op=0.2, alpha=a))
                out.append(dict(move="dp", npts=npts, outliers=True, data_op=0.2, alpha=a, wiring="run"))
            out.append(dict(move="prg", npts=npts, data_op=0.0, alpha=a))
            if npts <= 3:
                out.append(dict(move="prg", npts=npts, data_op=0.2, alpha=a, outlier_states=True))
    # the same sampler object used over sweeps while the concentration changes in place (as the run loop does): a few sweeps at
    # another concentration first (anything the sampler remembers about candidate trees must not survive the change)
    from ..trees import all_specs as _all_specs

    for outl in (False, True):
        # warm-up on the start tree only: some candidates of the enumerated sweep are then remembered, others are new
        out.append(dict(move="dp", npts=3, outliers=outl, data_op=0.2 if outl else 0.0, alpha=2.5, warm_alpha=0.3, warm_seed=ctx.rng.randrange(10**6), warm_specs=None))
    out.append(dict(move="prg", npts=3, data_op=0.0, alpha=0.3, warm_alpha=2.5, warm_seed=ctx.rng.randrange(10**6), warm_specs=None))
    # subtree particle Gibbs
    for kind in KINDS:
        for (dop, pop) in ((0.0, 0.0), (0.2, 0.1)):
            n, t = ctx.rng.choice([(2, 0.5), (2, 1.0), (2, 0.0)])
            out.append(dict(move="subtree", npts=2, kind=kind, prop_op=pop, data_op=dop, N=n, thr=t, alpha=ctx.rng.choice(alphas), wiring=ctx.rng.choice(["library", "run"])))
    # three points: this is where the state-dependent subtree choice shows (known finding)
    for kind in KINDS:
        for (dop, pop) in ((0.0, 0.0), (0.2, 0.1)):
            out.append(dict(move="subtree", npts=3, kind=kind, prop_op=pop, data_op=dop, N=2, thr=ctx.rng.choice([0.0, 0.5, 1.0]), alpha=ctx.rng.choice(alphas), wiring=ctx.rng.choice(["library", "run"])))
    if not ctx.quick:
        for kind in KINDS:
            out.append(dict(move="subtree", npts=4, kind=kind, prop_op=0.0, data_op=0.0, N=2, thr=0.5, alpha=1.0, wiring="run"))
    return out


def sweep_structure(ctx):
    """The sweep in run.py must be a FIXED composition of the moves (C04_sweep_composition_invariant applies to a fixed
    composition): stub samplers with scripted outputs (same object / equal copy / different tree) are passed to the real
    _run_burnin and _run_main_sampler; the sequence of sampler invocations must not depend on what the samplers return."""
    import contextlib
    import io
    import itertools

    import numpy as np

    import phyclone.run as R
    from phyclone.utils import Timer
    from ..kernels import make_tree_dist
    from ..trees import all_specs, build_tree, make_data, rational_values

    data = make_data(rational_values(ctx.rng, 3, 1, 3), outlier_prob=0.0)
    trees = [build_tree(sp, data) for sp in all_specs(range(3))[:6]]

    class Stub:
        def __init__(self, name, log, mode):
            self.name, self.log, self.mode, self.k = name, log, mode, 0

        def sample_tree(self, tree):
            self.log.append(self.name)
            self.k += 1
            if self.mode == "same":
                return tree
            if self.mode == "copy":
                return tree.copy()
            if self.mode == "alt":
                return tree if self.k % 2 else trees[self.k % len(trees)].copy()
            return trees[self.k % len(trees)].copy()

        def sample(self, old, k, n):
            self.log.append(self.name)
            return old

    n = 0
    for modes in itertools.product(["same", "copy", "diff", "alt"], repeat=2):
        for (D, P, sub_p, conc, iters, thin, burnin) in [(1, 1, 0.0, False, 3, 1, 2), (2, 1, 1.0, True, 3, 2, 0), (0, 2, 0.0, True, 2, 1, 1), (1, 0, 1.0, False, 2, 1, 1)]:
            log = []
            pg_mode, mv_mode = modes
            sh = R.SamplersHolder(Stub("dp", log, mv_mode), Stub("prg", log, mv_mode), Stub("conc", log, "same"), Stub("burnin", log, pg_mode), Stub("tree", log, pg_mode), Stub("subtree", log, pg_mode))
            td = make_tree_dist(1.0)
            rng = np.random.default_rng(1)
            with contextlib.redirect_stdout(io.StringIO()):
                t0 = R._run_burnin(burnin, float("inf"), D, P, 100, sh, Timer(), trees[0].copy(), td, 0)
                res = R._run_main_sampler(conc, data, float("inf"), iters, D, P, 100, sh, ["s"], thin, Timer(), t0, td, 0, rng, sub_p)
            expect = []
            for _ in range(burnin):
                expect += ["burnin"] + ["dp"] * D + ["prg"] * P
            for _ in range(iters):
                expect += ["subtree" if sub_p >= 1.0 else "tree"] + ["dp"] * D + ["prg"] * P + (["conc"] if conc else [])
            n += 1
            ctx.case(key=("sweep", modes, D, P, sub_p, conc, iters, thin, burnin), nontrivial=True)
            if log != expect:
                ctx.fail("C04:run._run_main_sampler:sweep-composition", "the sequence of moves in a sweep depends on what the moves return (or is not the documented composition)",
                         {"stub_modes": modes, "num_samples_data_point": D, "num_samples_prune_regraph": P, "subtree_update_prob": sub_p,
                          "concentration_update": conc, "iters": iters, "burnin": burnin, "observed_calls": log, "expected_calls": expect})
            its = [e["iter"] for e in res["trace"]]
            exp_its = [0] + [i for i in range(iters) if i % thin == 0]
            if its != exp_its:
                ctx.fail("C04:run._run_main_sampler:trace-iters", "recorded iterations %r, expected %r" % (its, exp_its), {"thin": thin, "iters": iters})
    ctx.count("sweep_structure_scripts", n)


def dp_correspondence(ctx):
    """The assignment model of the data-point sweep (Model/DpMove.v, the one C04_dp_move_invariant is about) against the
    exact outcome distribution of the real DataPointSampler.sample_tree, from every tree over 3 data points."""
    import itertools
    import math
    from fractions import Fraction

    from phyclone.mcmc.gibbs_mh import DataPointSampler

    from ..enumrng import enumerate_outcomes
    from ..kernels import make_tree_dist
    from ..trees import all_specs, build_tree, make_data, rational_values, spec_nodes

    def qlit(v):
        fr = Fraction(v)
        return "(%d#%d)%%Q" % (fr.numerator, fr.denominator)

    vals = rational_values(ctx.rng, 3, 1, 3)
    items = []
    specs = all_specs(range(3), outliers=True)
    ctx.rng.shuffle(specs)
    for spec in specs[: (14 if ctx.quick else 42)]:
        for on in (True, False):
            if not on and spec[1]:
                continue
            data = make_data(vals, outlier_prob=0.2 if on else 0.0)
            td = make_tree_dist(ctx.rng.choice([0.3, 1.0, 2.5]))
            tree0 = build_tree(spec, data)
            names = list(tree0.nodes)
            if not names:
                continue
            cid = {nm: i for i, nm in enumerate(names)}
            parent = {nm: tree0.get_parent(nm) for nm in names}
            pts = sorted(d.idx for d in tree0.data)

            def assignment(t):
                lab = t.labels
                return tuple((p, None if lab[p] == t.outlier_node_name else cid[lab[p]]) for p in pts)

            def coq_state(a):
                return "[" + "; ".join("(%d, %s)" % (p, "None" if h is None else "Some %d" % h) for p, h in a) + "]"

            def fn(r):
                s = DataPointSampler(td, r, outliers=on)
                return assignment(s.sample_tree(build_tree(spec, data)))

            dist, npaths, _ = enumerate_outcomes(fn)
            # target table over every assignment that leaves no clone empty (same shape)
            gt = []
            for hs in itertools.product(list(range(len(names))) + ([None] if on else []), repeat=len(pts)):
                if any(all(h != c for h in hs) for c in range(len(names))):
                    continue
                from phyclone.tree import Tree

                t = Tree(data[0].grid_size)
                made = {}

                def mk(nm):
                    if nm in made:
                        return made[nm]
                    kids = [mk(k) for k in names if parent[k] == nm]
                    made[nm] = t.create_root_node(children=kids, data=[data[p] for p, h in zip(pts, hs) if h == cid[nm]])
                    return made[nm]

                for nm in names:
                    if parent[nm] == "root":
                        mk(nm)
                for p, h in zip(pts, hs):
                    if h is None:
                        t.add_data_point_to_outliers(data[p])
                gt.append((tuple(zip(pts, hs)), math.exp(float(td.log_p_one(t)))))
            g = "[" + "; ".join("(%s, %s)" % (coq_state(a), qlit(v)) for a, v in gt) + "]"
            obs = "[" + "; ".join("(%s, %s)" % (coq_state(a), qlit(p)) for a, p in sorted(dist.items(), key=lambda kv: repr(kv[0]))) + "]"
            items.append("chk_dp [%s] %s %s [%s] %s %s" % ("; ".join(str(i) for i in range(len(names))), "true" if on else "false", g,
                                                        "; ".join(str(p) for p in pts), coq_state(assignment(tree0)), obs))
            ctx.case(key=("dpcorr", spec, on), nontrivial=len(dist) > 1)
    ok, bad, detail = coq.coq_eval_bool_cases(ctx, "dpcorr", "From PV Require Import Model.DpCases.\nOpen Scope nat_scope.", items, shard=6)
    ctx.extra["coq_dp_corr_cases"] = len(items)
    if not ok:
        ctx.broken_tie("C04 data-point correspondence file did not evaluate", detail)
    else:
        ctx.obligation("corr_dp_sweep_model_eq_impl_%d_trees" % len(items), not bad)
        if bad:
            ctx.broken[-1]["detail"] = {"failing": len(bad), "first_item": items[bad[0]][:800]}


def prg_correspondence(ctx):
    """The parent-function model of prune-regraft (Model/PrgMove.v) against the exact outcome distribution of the real
    PruneRegraphSampler.sample_tree; nodes are identified by their smallest data index (the move never moves data)."""
    import itertools
    import math
    from fractions import Fraction

    from phyclone.mcmc.gibbs_mh import PruneRegraphSampler
    from phyclone.tree import Tree

    from ..enumrng import enumerate_outcomes
    from ..kernels import make_tree_dist
    from ..trees import all_specs, build_tree, make_data, rational_values, spec_nodes

    def qlit(v):
        fr = Fraction(v)
        return "(%d#%d)%%Q" % (fr.numerator, fr.denominator)

    npts = 4
    vals = rational_values(ctx.rng, npts, 1, 3)
    specs = [sp for sp in all_specs(range(npts), outliers=True) if 2 <= len(spec_nodes(sp)) <= 3]
    ctx.rng.shuffle(specs)
    items = []
    for spec in specs[: (16 if ctx.quick else 80)]:
        data = make_data(vals, outlier_prob=0.2 if spec[1] else 0.0)
        td = make_tree_dist(ctx.rng.choice([0.3, 1.0, 2.5]))
        nodes = spec_nodes(spec)
        ids = sorted(min(n[0]) for n in nodes)
        own = {min(n[0]): n[0] for n in nodes}

        def parents(t):
            out = {}
            for nm in t.nodes:
                me = min(d.idx for d in t.get_data(nm))
                par = t.get_parent(nm)
                out[me] = None if par == t.root_node_name else min(d.idx for d in t.get_data(par))
            return tuple((i, out[i]) for i in ids)

        def coq_state(a):
            return "[" + "; ".join("(%d, %s)" % (p, "None" if h is None else "Some %d" % h) for p, h in a) + "]"

        def fn(r):
            return parents(PruneRegraphSampler(td, r).sample_tree(build_tree(spec, data)))

        dist, npaths, _ = enumerate_outcomes(fn)
        gt = []
        for ps in itertools.product([None] + ids, repeat=len(ids)):
            par = dict(zip(ids, ps))
            ok = all(par[i] != i for i in ids)
            for i in ids:  # acyclic
                seen, j = set(), i
                while ok and j is not None:
                    if j in seen:
                        ok = False
                    seen.add(j)
                    j = par[j]
            if not ok:
                continue
            t = Tree(data[0].grid_size)
            made = {}

            def mk(i):
                if i not in made:
                    made[i] = t.create_root_node(children=[mk(k) for k in ids if par[k] == i], data=[data[p] for p in own[i]])
                return made[i]

            for i in ids:
                if par[i] is None:
                    mk(i)
            for p in spec[1]:
                t.add_data_point_to_outliers(data[p])
            gt.append((tuple(zip(ids, ps)), math.exp(float(td.log_p_one(t)))))
        g = "[" + "; ".join("(%s, %s)" % (coq_state(a), qlit(v)) for a, v in gt) + "]"
        obs = "[" + "; ".join("(%s, %s)" % (coq_state(a), qlit(p)) for a, p in sorted(dist.items(), key=lambda kv: repr(kv[0]))) + "]"
        items.append("chk_prg %s %s %s" % (g, coq_state(parents(build_tree(spec, data))), obs))
        ctx.case(key=("prgcorr", spec), nontrivial=len(dist) > 1)
    ok, bad, detail = coq.coq_eval_bool_cases(ctx, "prgcorr", "From PV Require Import Model.PrgCases.\nOpen Scope nat_scope.", items, shard=8)
    ctx.extra["coq_prg_corr_cases"] = len(items)
    if not ok:
        ctx.broken_tie("C04 prune-regraft correspondence file did not evaluate", detail)
    else:
        ctx.obligation("corr_prg_model_eq_impl_%d_trees" % len(items), not bad)
        if bad:
            ctx.broken[-1]["detail"] = {"failing": len(bad), "first_item": items[bad[0]][:800]}


def run(ctx):
    coq.check_property_file(ctx)
    sweep_structure(ctx)
    dp_correspondence(ctx)
    prg_correspondence(ctx)
    ctx.rule = (
        "exact transition matrix (every random outcome enumerated) of DataPointSampler.sample_tree (outlier option off/on, library and run wiring), "
        "PruneRegraphSampler.sample_tree and ParticleGibbsSubtreeSampler.sample_tree from EVERY start tree over 2-3 (thorough: 4 for the "
        "Gibbs moves) data points, alpha from a grid; checked max|pi P - pi| <= 1e-9 with pi from log_p_one, row sums, no exception; "
        "distinct = configuration; non-trivial = at least 2 states"
    )
    ctx.exhaustive = True
    pool = ProcessPoolExecutor(max_workers=15, initializer=_warm)
    data = {}
    try:
        for cfg in configs(ctx):
            npts = cfg["npts"]
            if npts not in data:
                data[npts] = rational_values(ctx.rng, npts, 1, 2 if npts >= 3 else 3)
            vals = data[npts]
            t = time.time()
            res = transition_matrix(vals, cfg["data_op"], cfg, pool=pool, cache=(npts >= 3 and cfg["move"] == "subtree"))
            d, j, rs = invariance_defect(res)
            nstates = len(res["specs"])
            move = cfg["move"]
            if move == "subtree":
                tag = "subtree:%s:%s:outliers=%s:npts=%d" % (cfg["wiring"], cfg["kind"], "on" if cfg["data_op"] > 0 else "off", npts)
            elif move == "dp":
                tag = "dp:outliers=%s:npts=%d" % ("on" if cfg["outliers"] else "off", npts)
            else:
                tag = "prg:outlier-states=%s:npts=%d" % ("on" if cfg["data_op"] > 0 else "off", npts)
            ctx.case(key=tuple(sorted(cfg.items())), nontrivial=nstates >= 2,
                     sample={"config": cfg, "states": nstates, "paths": res["paths"], "max_abs_piP_minus_pi": d, "rowsum_err": rs})
            ctx.count("move=%s" % move); ctx.count("npts=%d" % npts); ctx.count("paths", res["paths"])
            replay = {"config": cfg, "values": [[[str(x) for x in row] for row in pt] for pt in vals]}
            ctx.log("%s a=%s: states %d paths %d inv %.2g rowsum %.2g errors %d (%.1fs)" % (tag, cfg["alpha"], nstates, res["paths"], d, rs, len(res["errors"]), time.time() - t))
            if res["errors"]:
                e = res["errors"][0]
                allout = len(e["start"][0]) == 0
                ctx.fail("C04:%s:exception:%s" % (tag, "all-outlier-start" if allout else "start-with-clones"), "exception inside the move: %s" % e["error"], dict(replay, start=e["start"], path=e["path"], error=e["error"]))
                if allout and all(len(x["start"][0]) == 0 for x in res["errors"]):
                    pass
                continue
            if res["malformed"] or res["escaped"]:
                m = (res["malformed"] or res["escaped"])[0]
                ctx.fail("C04:%s:malformed" % tag, "move returned a tree outside the state space", dict(replay, detail=m))
                continue
            if d > TOL or rs > TOL:
                big = ":defect>0.02" if (move == "subtree" and npts >= 3 and d > 0.02) else ""
                ctx.fail("C04:%s%s" % (tag, big), "posterior not invariant: max|pi P - pi| = %.3g at state %s" % (d, res["specs"][j]),
                         dict(replay, state=res["specs"][j], pi=res["pi"].tolist(), piP=(res["pi"] @ res["P"]).tolist()))
    finally:
        pool.shutdown()
    ctx.assumptions += ["the enumerating generator visits every outcome of each numpy call with numpy's probability"]


def replay(ctx, doc):
    """./check C04 --replay file: recompute the exact transition matrix of the recorded configuration on the recorded data."""
    from fractions import Fraction

    rp = doc.get("replay", {})
    if "config" not in rp or "values" not in rp:
        ctx.log("nothing to replay in this file (a tie/proof replay names the obligation that broke)")
        print(doc)
        return
    cfg = rp["config"]
    vals = [[[Fraction(x) for x in row] for row in pt] for pt in rp["values"]]
    res = transition_matrix(vals, cfg.get("data_op", 0.0), cfg, workers=8)
    d, j, rs = invariance_defect(res)
    ctx.case(key="replay", nontrivial=True, sample={"config": cfg, "max_abs_piP_minus_pi": d, "rowsum_err": rs, "errors": res["errors"][:2]})
    ctx.log("replayed %r: max|pi P - pi| = %.3g at state %s, row-sum error %.3g, exceptions %d" % (cfg, d, res["specs"][j], rs, len(res["errors"])))
    if res["errors"] or d > TOL or rs > TOL:
        ctx.fail(doc.get("key", "C04:replay"), "replayed configuration still fails: max|pi P - pi| = %.3g, exceptions %d" % (d, len(res["errors"])), rp)
