"""Edit grammar of the tree (what the samplers compose), applied to the real phyclone Tree.

An edit is a JSON-able tuple; clones are addressed by a *handle* = the smallest data index the clone owns
(node names are arbitrary and change under relabelling / grafting).  The same edits, printed with
`coq_hedit`, drive the Coq model (Model/LTreeConv.v: hedit / hstep).

  ("NewClone", kids, pts)          tree.create_root_node(children=kids, data=pts)            (SMC proposals)
  ("NewCloneAdd", kids, d)         n = tree.create_root_node(children=kids); tree.add_data_point_to_node(d, n)
                                                                                              (retained path)
  ("AddPoint", d, h|None)          tree.add_data_point_to_node / add_data_point_to_outliers
  ("MovePoint", i, dst|None)       DataPointSampler._sample_tree: copy; remove from where it is; add to dst
  ("PruneRegraft", x, par|None)    PruneRegraphSampler: copy; get_subtree; remove_subtree; copy; add_subtree; update
  ("SubtreeResample", x|None, spec) ParticleGibbsSubtreeSampler.sample_tree/_correct_weights with the SMC result
                                   replaced by a tree built from `spec` over the same data
  ("Relabel",) ("Copy",) ("ToFromDict", mode) ("Update",)
  ("DetachRegraft", x, inner, par|None)  extract and remove the subtree at x, HOLD it while the host is edited by `inner`
                                   (NewClone / NewCloneAdd / AddPoint / Relabel), then re-attach it under par: the statement's
                                   "extracting, removing and re-attaching a subtree" as separate steps with another edit in
                                   between (node names of the held subtree may clash with names the host has handed out since).
                                   Not part of the Coq grammar (Model/LTreeConv.v): compared with the rebuild only.
"""
import gzip
import math
import os
import pickle
import tempfile
from fractions import Fraction

import numpy as np

from .trees import AbsError, abs_impl, build_tree, canon, node_points, random_spec, spec_nodes, tree_spec

OPS = ["NewClone", "NewCloneAdd", "AddPoint", "MovePoint", "PruneRegraft", "SubtreeResample", "Relabel", "Copy", "ToFromDict", "Update", "DetachRegraft"]
DEFAULT_WEIGHTS = [3, 2, 4, 6, 4, 2, 1, 1, 2, 1, 2]
COQ_WEIGHTS = [3, 2, 4, 6, 4, 2, 1, 1, 2, 1, 0]


# ---------------------------------------------------------------- helpers on the real tree
def handle_map(tree):
    """handle (min own idx) -> node name, for clones that own data"""
    out = {}
    for node in tree.nodes:
        own = [d.idx for d in tree.get_data(node)]
        if own:
            out[min(own)] = node
    return out


def node_of(tree, h):
    """the clone owning data index h (any owned index is a valid handle)"""
    n = tree.labels[h]
    assert n != tree.outlier_node_name
    return n


def tree_points(tree):
    return sorted(d.idx for d in tree.data)


def roundtrip(tree, mode="direct"):
    return restore(tree.to_dict(), mode)


def restore(d, mode="direct"):
    """Tree.from_dict of the dictionary itself (direct) or of its pickle / gzip-file copy"""
    from phyclone.tree import Tree

    if mode == "pickle":
        d = pickle.loads(pickle.dumps(d, protocol=pickle.HIGHEST_PROTOCOL))
    elif mode == "gzip":
        fd, path = tempfile.mkstemp(suffix=".pkl.gz")
        os.close(fd)
        try:
            with gzip.GzipFile(path, mode="wb") as fh:
                pickle.dump({"tree": d}, fh)
            with gzip.GzipFile(path, "rb") as fh:
                d = pickle.load(fh)["tree"]
        finally:
            os.unlink(path)
    return Tree.from_dict(d)


class NotApplicable(Exception):
    """the edit is outside the grammar in this state (only arises when a history is shrunk or replayed elsewhere)"""


def _clone_handle(tree, h):
    lab = tree.labels
    return h in lab and lab[h] != tree.outlier_node_name


def applicable(tree, e, data):
    """Side conditions of the grammar, checked through the public accessors only."""
    op = e[0]
    lab = tree.labels
    if op in ("NewClone", "NewCloneAdd"):
        kids = list(e[1])
        pts = list(e[2]) if op == "NewClone" else [e[2]]
        if not labels_contiguous(tree) or any(p in lab for p in pts) or len(set(pts)) != len(pts):
            return False
        if not all(_clone_handle(tree, h) for h in kids):
            return False
        nodes = [lab[h] for h in kids]
        return len(set(nodes)) == len(nodes) and all(n in tree.roots for n in nodes)
    if op == "AddPoint":
        return e[1] not in lab and (e[2] is None or _clone_handle(tree, e[2]))
    if op == "MovePoint":
        i, dst = e[1], e[2]
        if i not in lab or tree.get_data_len(lab[i]) <= 1:
            return False
        return dst is None or (dst != i and _clone_handle(tree, dst))
    if op == "PruneRegraft":
        if not _clone_handle(tree, e[1]) or len(tree.nodes) < 2:
            return False
        if e[2] is None:
            return True
        return _clone_handle(tree, e[2]) and lab[e[2]] not in descendants_handles(tree, lab[e[1]])
    if op == "SubtreeResample":
        x, spec = e[1], e[2]
        if x is None:
            pts = tree_points(tree)
        else:
            if not _clone_handle(tree, x):
                return False
            pts = [d.idx for n in descendants_handles(tree, lab[x]) for d in tree.get_data(n)] + [d.idx for d in tree.outliers]
        return sorted(pts) == sorted(spec_points_(spec)) and len(pts) > 0
    if op == "ToFromDict":
        return all(tree.get_data_len(n) > 0 for n in tree.nodes)
    if op == "DetachRegraft":
        x, inner, par = e[1], e[2], e[3]
        if not _clone_handle(tree, x) or inner[0] not in ("NewClone", "NewCloneAdd", "AddPoint", "Relabel"):
            return False
        try:
            host = tree.copy()
            sub = host.get_subtree(node_of(host, x))
            held = [d.idx for d in sub.data]
            host.remove_subtree(sub)
            if any(p in held for p in delta_points(inner, None)) or not applicable(host, inner, data):
                return False
            host = apply_edit_raw(host, inner, data)
            return par is None or _clone_handle(host, par)
        except Exception:  # noqa: BLE001 - the replay's oracles report what the real edit does
            return True
    return op in ("Relabel", "Copy", "Update")


def apply_edit(tree, e, data):
    """Apply one edit the way the samplers do; returns the resulting tree (may be a new object).
    Raises NotApplicable when the edit is outside the grammar here; any other exception comes from phyclone."""
    if not applicable(tree, e, data):
        raise NotApplicable(repr(e))
    return apply_edit_raw(tree, e, data)


ALIAS_WATCH = []


def apply_edit_raw(tree, e, data):
    """apply_edit without the grammar's side conditions (used to compare WHERE the code raises with the model's None)"""
    op = e[0]
    if op == "NewClone":
        tree.create_root_node(children=[node_of(tree, h) for h in e[1]], data=[data[i] for i in e[2]])
        return tree
    if op == "NewCloneAdd":
        n = tree.create_root_node(children=[node_of(tree, h) for h in e[1]])
        tree.add_data_point_to_node(data[e[2]], n)
        return tree
    if op == "AddPoint":
        if e[2] is None:
            tree.add_data_point_to_outliers(data[e[1]])
        else:
            tree.add_data_point_to_node(data[e[1]], node_of(tree, e[2]))
        return tree
    if op == "MovePoint":
        i, dst = e[1], e[2]
        labels = tree.labels
        old = labels[i]
        dp = data[i]
        new_node = None if dst is None else node_of(tree, dst)
        new = tree.copy()
        new.remove_data_point_from_node(dp, old)
        if dst is None:
            new.add_data_point_to_outliers(dp)
        else:
            new.add_data_point_to_node(dp, new_node)
        return new
    if op == "PruneRegraft":
        pruned = tree.copy()
        sub = pruned.get_subtree(node_of(tree, e[1]))
        pruned.remove_subtree(sub)
        new = pruned.copy()
        parent = None if e[2] is None else node_of(tree, e[2])
        new.add_subtree(sub, parent=parent)
        new.update()
        # the sampler grafts the SAME detached subtree into one candidate per attachment point: a second candidate and the
        # detached subtree are watched, later in-place edits of `new` must not change them (no shared payloads)
        other = pruned.copy()
        other.add_subtree(sub, parent=None)
        other.update()
        ALIAS_WATCH.append(other)
        ALIAS_WATCH.append(sub)
        return new
    if op == "SubtreeResample":
        x, spec = e[1], e[2]
        subtree_root = tree.root_node_name if x is None else node_of(tree, x)
        parent = tree.get_parent(subtree_root)
        sub = tree.get_subtree(subtree_root)
        tree.remove_subtree(sub)
        for dpt in tree.outliers:
            tree.remove_data_point_from_outliers(dpt)
            sub.add_data_point_to_outliers(dpt)
        rebuilt = roundtrip(build_tree(spec, data))  # particles hold trees in dictionary form
        new = tree.copy()
        new.add_subtree(rebuilt, parent=parent)
        for dpt in rebuilt.outliers:
            new.add_data_point_to_outliers(dpt)
        new.update()
        return roundtrip(new)  # p.tree = new_tree ; particle.tree
    if op == "DetachRegraft":
        x, inner, par = e[1], e[2], e[3]
        sub = tree.get_subtree(node_of(tree, x))
        tree.remove_subtree(sub)
        tree = apply_edit_raw(tree, inner, data)
        tree.add_subtree(sub, parent=None if par is None else node_of(tree, par))
        return tree
    if op == "Relabel":
        tree.relabel_nodes()
        return tree
    if op == "Copy":
        return tree.copy()
    if op == "ToFromDict":
        return roundtrip(tree, e[1])
    if op == "Update":
        tree.update()
        return tree
    raise ValueError(op)


def spec_points_(spec):
    pts = list(spec[1])
    for r in spec[0]:
        pts += node_points(r)
    return pts


def delta_points(e, before):
    """the data indices the edit is specified to add (everything else must be conserved)"""
    if e[0] == "NewClone":
        return list(e[2])
    if e[0] == "NewCloneAdd":
        return [e[2]]
    if e[0] == "AddPoint":
        return [e[1]]
    if e[0] == "DetachRegraft":
        return delta_points(e[2], before)
    return []


# ---------------------------------------------------------------- generation (adaptive, against the real tree)
def labels_contiguous(tree):
    return sorted(tree.nodes) == list(range(len(tree.nodes)))


def descendants_handles(tree, node):
    names = set(tree.get_descendants(node)) | {node}
    return names


def gen_edit(rng, tree, data, unused, weights=None):
    """One random edit that the grammar allows in the current state (None if the drawn kind is not applicable)."""
    hm = handle_map(tree)
    inv = {v: k for k, v in hm.items()}
    nodes = list(tree.nodes)
    op = rng.choices(OPS, weights=weights or DEFAULT_WEIGHTS)[0]
    if op in ("NewClone", "NewCloneAdd"):
        if not unused or not labels_contiguous(tree) or any(n not in inv for n in nodes):
            return None
        roots = [inv[r] for r in tree.roots]
        k = rng.randint(0, len(roots))
        kids = tuple(rng.sample(roots, k))
        if op == "NewClone":
            m = rng.randint(1, min(2, len(unused)))
            return ("NewClone", kids, tuple(rng.sample(sorted(unused), m)))
        return ("NewCloneAdd", kids, rng.choice(sorted(unused)))
    if op == "AddPoint":
        if not unused:
            return None
        d = rng.choice(sorted(unused))
        if not hm or rng.random() < 0.2:
            return ("AddPoint", d, None)
        return ("AddPoint", d, rng.choice(sorted(hm)))
    if op == "MovePoint":
        labels = tree.labels
        cands = [i for i, n in labels.items() if tree.get_data_len(n) > 1]
        if not cands:
            return None
        i = rng.choice(sorted(cands))
        src = labels[i]
        # destination handles must stay valid after the removal: a handle equal to i names the source clone
        dsts = []
        for h, n in hm.items():
            if n == src and src != tree.outlier_node_name:
                rest = [d.idx for d in tree.get_data(n) if d.idx != i]
                dsts.append(("same", min(rest)))
            else:
                dsts.append(("other", h))
        choice = rng.choice(dsts + [("out", None)]) if rng.random() < 0.85 or not dsts else ("out", None)
        return ("MovePoint", i, choice[1])
    if op == "PruneRegraft":
        if len(nodes) < 2 or any(n not in inv for n in nodes):
            return None
        x = rng.choice(nodes)
        gone = descendants_handles(tree, x)
        remaining = [n for n in nodes if n not in gone]
        if not remaining:
            return None
        par = rng.choice(remaining + [None])
        return ("PruneRegraft", inv[x], None if par is None else inv[par])
    if op == "SubtreeResample":
        if not nodes or any(n not in inv for n in nodes):
            return None
        child = rng.choice(nodes)
        sr = tree.get_parent(child)
        if sr == tree.root_node_name:
            x = None
            pts = tree_points(tree)
        else:
            x = inv[sr]
            pts = [d.idx for n in descendants_handles(tree, sr) for d in tree.get_data(n)] + [d.idx for d in tree.outliers]
        spec = random_spec(rng, pts, outlier_frac=0.2, max_block=3)
        return ("SubtreeResample", x, spec)
    if op == "ToFromDict":
        if any(n not in inv for n in nodes):
            return None
        return ("ToFromDict", rng.choice(["direct", "direct", "pickle", "gzip"]))
    if op == "DetachRegraft":
        if len(nodes) < 2 or any(n not in inv for n in nodes):
            return None
        x = rng.choice(nodes)
        gone = descendants_handles(tree, x)
        remaining = [n for n in nodes if n not in gone]
        if not remaining:
            return None
        host = tree.copy()
        sub = host.get_subtree(x)
        host.remove_subtree(sub)
        if rng.random() < 0.3:
            host.relabel_nodes()
            inner = ("Relabel",)
        else:
            inner = None
            for _ in range(6):
                cand = gen_edit(rng, host, data, unused, weights=[4, 2, 3, 0, 0, 0, 0, 0, 0, 0, 0])
                if cand is not None and applicable(host, cand, data):
                    inner = cand
                    break
            if inner is None:
                return None
            host = apply_edit_raw(host, inner, data)
        hm2 = handle_map(host)
        par = rng.choice(sorted(hm2) + [None]) if hm2 else None
        return ("DetachRegraft", inv[x], inner, par)
    return (op,)


def gen_history(rng, data, n_start, length, weights=None):
    """Start spec over the first n_start points + a history; generated by running the real tree."""
    idx = list(range(len(data)))
    start_pts = idx[:n_start]
    spec = random_spec(rng, start_pts, outlier_frac=0.15, max_block=2) if n_start else ((), ())
    tree = build_tree(spec, data)
    unused = set(idx) - set(start_pts)
    hist = []
    tries = 0
    while len(hist) < length and tries < 20 * length:
        tries += 1
        try:
            e = gen_edit(rng, tree, data, unused, weights)
        except Exception:  # the tree is corrupted: the replay's oracles report it
            break
        if e is None:
            continue
        hist.append(e)
        try:
            tree = apply_edit(tree, e, data)
        except Exception:  # a grammar edit raised (or corrupted the tree so that generation cannot go on): stop here,
            break          # the replay with its oracles decides what to report
        unused -= set(delta_points(e, None))
    return spec, hist


# ---------------------------------------------------------------- oracles
def node_arrays(tree):
    """{(own idx set, clade idx set): (log_p, log_r)} through the public accessors + payloads"""
    out = {}

    def rec(node):
        own = frozenset(d.idx for d in tree.get_data(node))
        cl = set(own)
        for c in tree.get_children(node):
            cl |= rec(c)
        pay = tree._graph[tree._node_indices[node]]
        out[(own, frozenset(cl))] = (pay.log_p, pay.log_r)
        return cl

    for r in tree.roots:
        rec(r)
    return out


def densities(tree, alpha=1.0):
    from phyclone.tree import FSCRPDistribution, TreeJointDistribution

    td = TreeJointDistribution(FSCRPDistribution(alpha))
    return float(td.log_p(tree)), float(td.log_p_one(tree))


def compare_trees(a, b, tol, what_b="rebuild", labels=False, arrays=True):
    """None if a and b have the same shape/assignment, per-node arrays, root vector (if any clone) and densities;
    otherwise a short description of the first difference."""
    sa, sb = tree_spec(a), tree_spec(b)
    if sa != sb:
        return "shape differs from %s: %r vs %r" % (what_b, sa, sb)
    na, nb = node_arrays(a), node_arrays(b)
    if set(na) != set(nb):
        return "node keys differ"
    for k in na if arrays else []:
        for j, nm in ((0, "log_p"), (1, "log_r")):
            if na[k][j].shape != nb[k][j].shape:
                return "%s shape of clone %s differs" % (nm, sorted(k[0]))
            dv = float(np.max(np.abs(na[k][j] - nb[k][j])))
            if not dv <= tol:
                return "%s of clone %s differs from %s by %.3g" % (nm, sorted(k[0]), what_b, dv)
    if len(a.roots) > 0 and arrays:
        dv = float(np.max(np.abs(a.data_log_likelihood - b.data_log_likelihood)))
        if not dv <= tol:
            return "root log_r differs from %s by %.3g" % (what_b, dv)
    da, db = densities(a), densities(b)
    for j, nm in ((0, "log_p"), (1, "log_p_one")):
        if not abs(da[j] - db[j]) <= tol * max(1, a.grid_size[0]) * 4:
            return "joint %s differs from %s: %.12g vs %.12g" % (nm, what_b, da[j], db[j])
    if labels:
        la = {k: sorted(d.idx for d in a.get_data(k)) for k in a.nodes}
        lb = {k: sorted(d.idx for d in b.get_data(k)) for k in b.nodes}
        if la != lb:
            return "node labels differ: %r vs %r" % (la, lb)
        if a.node_last_added_to != b.node_last_added_to:
            return "node_last_added_to differs: %r vs %r" % (a.node_last_added_to, b.node_last_added_to)
    return None


def safe_abs(tree):
    """abs_impl, with a crash inside it (e.g. a payload that is None) reported as a disagreement of the views"""
    try:
        return abs_impl(tree)
    except AbsError:
        raise
    except Exception as ex:
        raise AbsError("abs_impl could not read the tree: %s: %s" % (type(ex).__name__, ex))


def check_state(tree, data, expected_pts, tol):
    """(C07 problem or None, C06 problem or None) for one tree."""
    try:
        safe_abs(tree)
    except AbsError as ex:
        return "views disagree: %s" % ex, None
    pts = tree_points(tree)
    if pts != sorted(expected_pts):
        return "data points %r, expected %r" % (pts, sorted(expected_pts)), None
    lab = tree.labels
    if sorted(lab) != pts:
        return "labels cover %r, data %r" % (sorted(lab), pts), None
    fresh = build_tree(tree_spec(tree), data)
    return None, compare_trees(tree, fresh, tol)


def snapshot(tree):
    return (tree_spec(tree), {k: (v[0].copy(), v[1].copy()) for k, v in node_arrays(tree).items()}, tree.data_log_likelihood.copy())


def snapshot_equal(tree, snap):
    if tree_spec(tree) != snap[0]:
        return False
    na = node_arrays(tree)
    if set(na) != set(snap[1]):
        return False
    for k in na:
        if not (np.array_equal(na[k][0], snap[1][k][0]) and np.array_equal(na[k][1], snap[1][k][1])):
            return False
    return np.array_equal(tree.data_log_likelihood, snap[2])


def roundtrip_dict(d):
    from phyclone.tree import Tree

    return Tree.from_dict(d)


def snapshot_equal_tol(tree, snap, tol):
    if tree_spec(tree) != snap[0]:
        return False
    na = node_arrays(tree)
    if set(na) != set(snap[1]):
        return False
    for k in na:
        for j in (0, 1):
            if not float(np.max(np.abs(na[k][j] - snap[1][k][j]))) <= tol:
                return False
    return len(tree.roots) == 0 or float(np.max(np.abs(tree.data_log_likelihood - snap[2]))) <= tol


def replay(spec, hist, data, tol_unit=1e-8, stop_at_first=True):
    """Run a history on the real tree with the oracles after every edit.
    Returns (trees-after-each-edit or None, failure) with failure = None | (prop, step, what)."""
    tree = build_tree(spec, data)
    del ALIAS_WATCH[:]
    expected = list(spec_points_(spec))
    tol = tol_unit * max(1, len(hist))
    kept = []  # (old tree, snapshot) after Copy edits: the original must not change when the copy is edited
    for k, e in enumerate(hist):
        before = tree
        snap = snapshot(tree) if e[0] in ("Copy", "MovePoint", "PruneRegraft") else None
        try:
            tree = apply_edit(tree, e, data)
        except NotApplicable:
            raise
        except Exception as ex:
            import traceback

            where = [l.strip() for l in traceback.format_exc().splitlines() if "/phyclone/" in l]
            return None, ("EXC", k, "%s: %s%s" % (type(ex).__name__, str(ex)[:120], (" @ " + where[-1][:140]) if where else ""))
        if snap is not None:
            kept.append((k, before, snap))
        while ALIAS_WATCH:
            w = ALIAS_WATCH.pop()
            try:
                kept.append((k, w, snapshot(w)))
            except Exception as ex:
                del ALIAS_WATCH[:]
                return None, ("C06", k, "graft aliasing: a second candidate built from the same detached subtree (as the prune-regraft sampler "
                                        "does) cannot even be inspected after the first graft (%s: %s)" % (type(ex).__name__, str(ex)[:80]))
        expected += delta_points(e, None)
        c07, c06 = check_state(tree, data, expected, tol)
        if c07:
            return None, ("C07", k, c07)
        if c06:
            return None, ("C06", k, c06)
        for (k0, old, sn) in kept[-9:]:
            if old is tree:
                continue
            try:
                same = snapshot_equal(old, sn)
            except Exception as ex:  # the watched tree cannot be read any more: its payloads were changed through another tree
                return None, ("C06", k, "aliasing: a tree kept from edit %d (copy / sibling candidate / detached subtree) became unreadable "
                                        "after a later edit of another tree (%s: %s)" % (k0, type(ex).__name__, str(ex)[:80]))
            if not same:
                return None, ("C06", k, "copy aliasing: the tree copied before edit %d changed when its copy was edited" % k0)
    return tree, None


def shrink(spec, hist, data, prop):
    """Delete edits while a failure of the same property persists."""
    cur = list(hist)
    changed = True
    while changed:
        changed = False
        for j in range(len(cur) - 1, -1, -1):
            cand = cur[:j] + cur[j + 1 :]
            try:
                _, f = replay(spec, cand, data)
            except Exception:  # NotApplicable: the shorter history left the grammar
                continue
            if f is not None and f[0] == prop:
                cur = cand
                changed = True
    try:
        _, f = replay(spec, cur, data)
    except Exception:
        f = None
    return cur, f


# ---------------------------------------------------------------- Coq printing
def q(fr):
    fr = Fraction(fr)
    return "(%d # %d)%%Q" % (fr.numerator, fr.denominator)


def qc(fr):
    fr = Fraction(fr)
    return "(Q2Qc (%d # %d))" % (fr.numerator, fr.denominator)


def nat_list(xs):
    xs = list(xs)
    return "[" + "; ".join(str(int(x)) for x in xs) + "]" if xs else "(@nil nat)"


def opt_nat(x):
    return "None" if x is None else "(Some %d)" % x


def coq_data_defs(values):
    """Definition d0 := mkDP 0 [...]. one per data point (values: list of rows of Fractions, flattened row after row)"""
    out = []
    for i, v in enumerate(values):
        flat = [x for row in v for x in row]
        out.append("Definition d%d : dp := mkDP %d [%s]." % (i, i, "; ".join(qc(x) for x in flat)))
    return "\n".join(out)


def dps(idx):
    idx = list(idx)
    return "[" + "; ".join("d%d" % i for i in idx) + "]" if idx else "(@nil dp)"


def coq_spec_nodes(nodes):
    return "[" + "; ".join("SNode %s %s" % (dps(n[0]), coq_spec_nodes(n[1])) for n in nodes) + "]" if nodes else "(@nil spec)"


def coq_hedit(e):
    op = e[0]
    if op == "NewClone":
        return "HNewClone %s %s" % (nat_list(e[1]), dps(e[2]))
    if op == "NewCloneAdd":
        return "HNewCloneAdd %s d%d" % (nat_list(e[1]), e[2])
    if op == "AddPoint":
        return "HAddPoint d%d %s" % (e[1], opt_nat(e[2]))
    if op == "MovePoint":
        return "HMovePoint %d %s" % (e[1], opt_nat(e[2]))
    if op == "PruneRegraft":
        return "HPruneRegraft %d %s" % (e[1], opt_nat(e[2]))
    if op == "SubtreeResample":
        return "HSubtreeResample %s %s %s" % (opt_nat(e[1]), coq_spec_nodes(e[2][0]), dps(e[2][1]))
    return {"Relabel": "HRelabel", "Copy": "HCopy", "ToFromDict": "HToFromDict", "Update": "HUpdate"}[op]


def coq_obs(tree):
    """mkObs of the real tree: per clone (handle, parent handle, own, exp(log_p), exp(log_r)), outliers, root r, names"""
    hm = handle_map(tree)
    inv = {v: k for k, v in hm.items()}
    recs = []
    for node in tree.nodes:
        pay = tree._graph[tree._node_indices[node]]
        par = tree.get_parent(node)
        ph = "None" if par == tree.root_node_name else "(Some %d)" % inv[par]
        own = sorted(d.idx for d in tree.get_data(node))
        p = [q(math.exp(x)) for x in pay.log_p.flatten()]
        r = [q(math.exp(x)) for x in pay.log_r.flatten()]
        recs.append("(%d, %s, %s, [%s], [%s])" % (inv[node], ph, nat_list(own), "; ".join(p), "; ".join(r)))
    rootr = [q(math.exp(x)) for x in tree.data_log_likelihood.flatten()]
    names = "[" + "; ".join("(%d, %d)" % (h, int(n)) for h, n in sorted(hm.items())) + "]" if hm else "(@nil (nat * nat))"
    return "(mkObs [%s] %s [%s] %s %s)" % (
        "; ".join(recs) if recs else "",
        nat_list(sorted(d.idx for d in tree.outliers)),
        "; ".join(rootr),
        nat_list(sorted(int(n) for n in tree.nodes)),
        names,
    )


# ---------------------------------------------------------------- jobs (run in worker processes)
def make_case(seed, n_points, length, grid=4, want_coq=False, max_samples=2, offset=0.0):
    """Deterministic random case: data values, start spec, history (generated against the real tree).
    offset: a constant added to every log-likelihood entry of every data point (large-magnitude stream: the vectors
    keep their narrow dynamic range but |log_r| grows to thousands, as on data sets with thousands of mutations)."""
    import random

    from .trees import make_data, rational_values

    rng = random.Random(seed)
    ns = rng.randint(1, max_samples)
    vals = rational_values(rng, n_points, ns, grid)
    data = make_data(vals, outlier_prob=0.1)
    if offset:
        from phyclone.data.base import DataPoint

        import numpy as np

        shifted = []
        for d in data:
            if rng.random() < 0.4:
                # a weakly informative data point: log-likelihood within a few hundredths of zero in every cell
                v = np.log(np.array([[rng.randint(61, 64) / 64.0 for _ in range(grid)] for _ in range(ns)]))
            else:
                v = d.value + offset
            shifted.append(DataPoint(d.idx, v, outlier_prob=d.outlier_prob, outlier_prob_not=d.outlier_prob_not))
        data = shifted
    spec, hist = gen_history(rng, data, rng.randint(0, max(0, n_points - 3)), length, weights=COQ_WEIGHTS if want_coq else None)
    return {"seed": seed, "ns": ns, "grid": grid, "vals": vals, "data": data, "spec": spec, "hist": hist}


def coq_case_item(case):
    """(header, item): the Coq boolean comparing the model's trace with the real tree after every edit."""
    data, spec, hist = case["data"], case["spec"], case["hist"]
    tree = build_tree(spec, data)
    start = coq_obs(tree)
    obs = []
    for e in hist:
        try:
            tree = apply_edit(tree, e, data)
            obs.append("Some " + coq_obs(tree))
        except Exception:
            obs.append("None")
            break
    hist = list(hist)
    bad = bad_edit(case["seed"], tree, data) if obs and obs[-1] != "None" else None
    if bad is not None:
        # one edit OUTSIDE the grammar at the end: the model must return None exactly if the code raises
        hist.append(bad)
        try:
            t2 = apply_edit_raw(tree.copy(), bad, data)
            safe_abs(t2)
            obs.append("Some " + coq_obs(t2))
        except Exception:
            obs.append("None")
    item = "match build %d %d %s %s with Some t0 => chk_tree t0 %s && hcheck %d %d [%s] [%s] (resync (o_names %s) t0) | None => false end" % (
        case["ns"], case["grid"], coq_spec_nodes(spec[0]), dps(spec[1]), start, case["ns"], case["grid"],
        "; ".join(coq_hedit(e) for e in hist), "; ".join(obs), start)
    return item


def bad_edit(seed, tree, data):
    """an edit the code is expected to reject: a data point that is already there, a child that is not a root, a repeated child"""
    import random

    rng = random.Random(seed + 17)
    lab = tree.labels
    hm = handle_map(tree)
    unused = sorted(set(range(len(data))) - set(lab))
    present = sorted(lab)
    nonroots = [h for h, n in hm.items() if n not in tree.roots]
    roots = [h for h, n in hm.items() if n in tree.roots]
    kinds = []
    if present and hm:
        kinds.append(("AddPoint", rng.choice(present), rng.choice(sorted(hm))))
        kinds.append(("AddPoint", rng.choice(present), None))
    if unused and nonroots and labels_contiguous(tree):
        kinds.append(("NewClone", (rng.choice(nonroots),), (unused[0],)))
    if unused and roots and labels_contiguous(tree):
        r = rng.choice(roots)
        kinds.append(("NewClone", (r, r), (unused[0],)))
    return rng.choice(kinds) if kinds else None


def history_job(args):
    """args = (seed, n_points, length, want_coq).  Returns a JSON-able summary."""
    seed, n_points, length, want_coq = args[:4]
    offset = args[4] if len(args) > 4 else 0.0
    case = make_case(seed, n_points, length, offset=offset, want_coq=want_coq)
    hist = case["hist"]
    ops = {}
    for e in hist:
        ops[e[0]] = ops.get(e[0], 0) + 1
    out = {"seed": seed, "n_points": n_points, "length": len(hist), "ops": ops, "ns": case["ns"], "failure": None, "offset": offset,
           "spec": case["spec"], "final": None, "coq": None}
    tree, f = replay(case["spec"], hist, case["data"])
    if f is not None:
        small, f2 = shrink(case["spec"], hist, case["data"], f[0])
        out["failure"] = f2 or f
        out["hist"] = small
        out["full_hist_len"] = len(hist)
        out["vals"] = [[[str(x) for x in row] for row in v] for v in case["vals"]]
    else:
        out["final"] = tree_spec(tree)
    if want_coq and f is None:
        out["coq"] = (coq_data_defs(case["vals"]), coq_case_item(case))
    return out


def sampler_job(args):
    """Real samplers wired as phyclone.run does; after EVERY sampler call: four-view agreement, data conservation
    (C07) and cached arrays/densities against a rebuild (C06).  Returns counts and the first failure of each kind."""
    seed, n_points, proposal, outliers, sweeps, particles, subtree_prob, grid = args
    import random

    import numpy as np
    from phyclone.run import setup_kernel, setup_samplers
    from phyclone.tree import FSCRPDistribution, Tree, TreeJointDistribution
    from phyclone.utils.dev import clear_proposal_dist_caches

    from .trees import make_data, rational_values

    prng = random.Random(seed)
    ns = prng.randint(1, 2)
    vals = rational_values(prng, n_points, ns, grid)
    outlier_prob = 0.1 if outliers else 0.0
    data = make_data(vals, outlier_prob=outlier_prob)
    rng = np.random.default_rng(seed)
    tree_dist = TreeJointDistribution(FSCRPDistribution(1.0))
    kernel = setup_kernel(outlier_prob, proposal, rng, tree_dist)
    samplers = setup_samplers(kernel, particles, outlier_prob, 0.5, rng, tree_dist)
    all_pts = list(range(n_points))
    out = {"args": list(args), "calls": {}, "c07": None, "c06": None, "exception": None, "shapes": 0}
    shapes = set()
    tree = Tree.get_single_node_tree(data)

    def check(name, t):
        out["calls"][name] = out["calls"].get(name, 0) + 1
        c07, c06 = check_state(t, data, all_pts, 1e-8 * 10)
        shapes.add(tree_spec(t) if not c07 else None)
        if c07 and not out["c07"]:
            out["c07"] = (name, c07, out["calls"][name])
        if c06 and not out["c06"]:
            out["c06"] = (name, c06, out["calls"][name])

    try:
        check("get_single_node_tree", tree)
        for i in range(sweeps):
            clear_proposal_dist_caches()
            if i < 2:
                tree = samplers.burnin_sampler.sample_tree(tree)
                check("UnconditionalSMCSampler", tree)
            elif rng.random() < subtree_prob and len(tree.nodes) > 0:
                tree = samplers.subtree_sampler.sample_tree(tree)
                check("ParticleGibbsSubtreeSampler", tree)
            else:
                tree = samplers.tree_sampler.sample_tree(tree)
                check("ParticleGibbsTreeSampler", tree)
            tree = samplers.dp_sampler.sample_tree(tree)
            check("DataPointSampler", tree)
            tree = samplers.prg_sampler.sample_tree(tree)
            check("PruneRegraphSampler", tree)
            tree.relabel_nodes()
            check("relabel_nodes", tree)
    except Exception as ex:  # crashes are C19's subject; recorded, not judged here
        import traceback

        out["exception"] = "%s: %s @ %s" % (type(ex).__name__, ex, traceback.format_exc().strip().splitlines()[-3].strip()[:120])
    out["shapes"] = len(shapes)
    return out


# ---------------------------------------------------------------- C15: dictionary round trips and traces
def coq_name(k):
    if k == "root":
        return "NRoot"
    if k == -1:
        return "NOut"
    return "(NClone %d)" % int(k)


def coq_tdict(d):
    """Coq literal (Model/DictForm.v tdict) of a real tree.to_dict()"""
    edges = "[" + "; ".join("(%d, %d)" % (a, b) for a, b in d["graph"]) + "]" if len(d["graph"]) else "(@nil (nat * nat))"
    n2i = "[" + "; ".join("(%s, %d)" % (coq_name(k), v) for k, v in d["node_idx"].items()) + "]"
    i2n = "[" + "; ".join("(%d, %s)" % (k, coq_name(v)) for k, v in d["node_idx_rev"].items()) + "]"
    data = "[" + "; ".join("(%s, %s)" % (coq_name(k), dps(x.idx for x in v)) for k, v in d["node_data"].items()) + "]" if d["node_data"] else "(@nil (name * list dp))"
    last = d["node_last_added_to"]
    lastc = "WNone" if last is None else ("WOut" if last == -1 else "(WNode %d)" % int(last))
    return "(mkD %s %s %s %s %s)" % (edges, n2i, i2n, data, lastc)


DICT_HEADER = (
    "From PV Require Import Model.LTreeConv Model.DictForm.\nOpen Scope nat_scope.\n"
    "Definition chk_labels (t : ltree) (hl : list (nat * nat)) : bool :=\n"
    "  forallb (fun p => match hlbl (fst p) t with Some l => l =? snd p | None => false end) hl.\n"
    "Definition chk_last (t : ltree) (w : lastw) : bool :=\n"
    "  match LTree.last t, w with WNone, WNone => true | WOut, WOut => true | WNode a, WNode b => a =? b | _, _ => false end.\n"
)


def roundtrip_job(args):
    """A random history; at several points: to_dict -> (direct|pickle|gzip) -> from_dict, compare everything incl. labels and
    node_last_added_to, then continue the SAME random suffix on both copies and compare after every edit."""
    import random

    seed, n_points, length, want_coq = args[:4]
    offset = args[4] if len(args) > 4 else 0.0
    case = make_case(seed, n_points, length, offset=offset, want_coq=want_coq)
    data, spec, hist = case["data"], case["spec"], case["hist"]
    rng = random.Random(seed + 1)
    out = {"seed": seed, "n_points": n_points, "asked_length": length, "length": len(hist), "roundtrips": 0, "holes": 0, "outlier_only": 0, "suffix_edits": 0, "failure": None, "coq": [], "modes": {}}
    tree = build_tree(spec, data)
    tol = 1e-8 * max(1, len(hist))
    points = [k for k in range(len(hist) + 1) if rng.random() < 0.3 or k == len(hist)]
    old = None
    try:
        for step in range(len(hist) + 1):
            if step in points:
                mode = rng.choice(["direct", "pickle", "gzip"])
                out["modes"][mode] = out["modes"].get(mode, 0) + 1
                d = tree.to_dict()
                idx = sorted(tree._graph.node_indices())
                holes = idx != list(range(len(idx)))
                out["holes"] += holes
                out["outlier_only"] += (len(tree.nodes) == 0 and len(tree.outliers) > 0)
                back = restore(d, mode)  # direct: the SAME dictionary is restored again later (old), after `back` was edited
                out["roundtrips"] += 1
                try:
                    safe_abs(back)
                    problem = compare_trees(back, tree, tol, what_b="the original", labels=True)
                except AbsError as ex:
                    problem = "restored tree's views disagree: %s" % ex
                if not problem and old is not None:
                    # the dictionary taken earlier is a snapshot: edits made to the tree since must not show in it
                    try:
                        then = roundtrip_dict(old[0])
                        if not snapshot_equal_tol(then, old[1], tol):
                            problem = "a dictionary taken %d edits ago no longer restores to the tree it was taken from" % (step - old[2])
                    except Exception as ex:
                        problem = "a dictionary taken earlier no longer restores: %s: %s" % (type(ex).__name__, ex)
                old = (d, snapshot(tree), step)
                if problem:
                    out["failure"] = ("roundtrip:%s:%s" % (mode, "holes" if holes else "dense"), problem, hist[:step], None)
                    return out
                if want_coq and len(out["coq"]) < 3 and (holes or rng.random() < 0.5):
                    hm = handle_map(back)
                    pairs = "[" + "; ".join("(%d, %d)" % (h, int(n)) for h, n in hm.items()) + "]" if hm else "(@nil (nat * nat))"
                    last = d["node_last_added_to"]
                    lastc = "WNone" if last is None else ("WOut" if last == -1 else "(WNode %d)" % int(last))
                    item = "match from_dict (Sconv %d %d) (cprior %d %d) (cone %d %d) %s with Some t => chk_tree t %s && chk_labels t %s && chk_last t %s | None => false end" % (
                        case["ns"], case["grid"], case["ns"], case["grid"], case["ns"], case["grid"], coq_tdict(d), coq_obs(back), pairs, lastc)
                    out["coq"].append(item)
                # same suffix on both copies (a few edits), compared up to node names
                a, b = tree.copy(), back
                unused = set(range(len(data))) - set(tree_points(tree))
                srng = random.Random(seed * 31 + step)
                for _ in range(4):
                    e = gen_edit(srng, a, data, unused)
                    if e is None:
                        continue
                    a = apply_edit(a, e, data)
                    b = apply_edit(b, e, data)
                    unused -= set(delta_points(e, None))
                    out["suffix_edits"] += 1
                    problem = compare_trees(b, a, tol, what_b="the original after the same edits")
                    if problem:
                        out["failure"] = ("suffix:%s:%s" % (mode, e[0]), problem, hist[:step], e)
                        return out
            if step < len(hist):
                tree = apply_edit(tree, hist[step], data)
    except Exception as ex:
        import traceback

        out["failure"] = ("exception", "%r %s" % (ex, traceback.format_exc()[-800:]), hist, None)
    if out["coq"]:
        out["coq"] = (coq_data_defs(case["vals"]), out["coq"])
    return out


def trace_job(args):
    """One real run_phyclone_chain on tiny simulated data; returns the checks' outcome."""
    import contextlib
    import gzip as gz
    import io
    import os as _os
    import pickle as pk
    import tempfile as tf

    import numpy as np
    from phyclone.process_trace import create_main_run_output
    from phyclone.run import run_phyclone_chain
    from phyclone.tests.simulate import simulate_binomial_data
    from phyclone.tree import FSCRPDistribution, Tree, TreeJointDistribution

    seed, n_points, num_iters, thin, burnin, conc_update, outlier_prob, proposal, particles, max_time, subtree_prob = args
    out = {"args": list(args), "failure": None, "iters": None, "entries": 0, "crash": None, "alphas_vary": False}
    drng = np.random.default_rng(seed)
    ps = [drng.choice([0.1, 0.3, 0.5, 0.9]) for _ in range(n_points)]
    data = [simulate_binomial_data(i, 100, [ps[i], min(0.99, ps[i] * 0.8)], drng, outlier_prob) for i in range(n_points)]

    def chain(n_it):
        rng = np.random.default_rng(seed + 7)
        with contextlib.redirect_stdout(io.StringIO()):
            return run_phyclone_chain(burnin, conc_update, 1.5, data, max_time, n_it, particles, 1, 1, outlier_prob, 100, proposal, 0.5, rng,
                                      ["s0", "s1"], thin, 0, subtree_prob)

    try:
        res = chain(num_iters)
        res0 = chain(0)
    except Exception as ex:  # crashes belong to C19
        out["crash"] = "%s: %s" % (type(ex).__name__, str(ex)[:100])
        return out
    trace = res["trace"]
    iters = [e["iter"] for e in trace]
    out["iters"] = iters
    out["entries"] = len(trace)
    executed = num_iters if max_time == float("inf") else min(num_iters, 1)
    expect = [0] + [i for i in range(executed) if i % thin == 0]
    if iters != expect:
        out["failure"] = ("iters", "recorded iterations %r, expected %r" % (iters, expect))
        return out
    # file round trip through the writer / the readers' way of opening it
    fd, path = tf.mkstemp(suffix=".pkl.gz")
    _os.close(fd)
    try:
        create_main_run_output(None, path, {0: res})
        with gz.GzipFile(path, "rb") as fh:
            back = pk.load(fh)
    finally:
        _os.unlink(path)
    btrace = back[0]["trace"]
    if len(btrace) != len(trace) or [d.idx for d in back[0]["data"]] != [d.idx for d in data] or back[0]["samples"] != ["s0", "s1"]:
        out["failure"] = ("file", "trace file does not hold the run's entries/data/samples")
        return out
    alphas = []
    allpts = list(range(n_points))
    for k, (e, be) in enumerate(zip(trace, btrace)):
        if set(e.keys()) != {"iter", "time", "alpha", "log_p_one", "tree"}:
            out["failure"] = ("entry-keys", "entry %d has keys %r" % (k, sorted(e.keys())))
            return out
        if (be["iter"], be["alpha"], be["log_p_one"]) != (e["iter"], e["alpha"], e["log_p_one"]):
            out["failure"] = ("file", "entry %d changed in the file" % k)
            return out
        alphas.append(e["alpha"])
        for src, dd in (("memory", e["tree"]), ("file", be["tree"])):
            t = Tree.from_dict(dd)
            try:
                safe_abs(t)
            except AbsError as ex:
                out["failure"] = ("entry-tree", "entry %d (%s): views disagree: %s" % (k, src, ex))
                return out
            if tree_points(t) != allpts:
                out["failure"] = ("entry-data", "entry %d (%s) holds points %r" % (k, src, tree_points(t)))
                return out
            lp1 = float(TreeJointDistribution(FSCRPDistribution(e["alpha"])).log_p_one(t))
            if not abs(lp1 - e["log_p_one"]) <= 1e-8 * max(1.0, abs(lp1)):
                out["failure"] = ("log_p_one", "entry %d (%s): recorded log_p_one %.12g, recomputed under recorded alpha %.6g: %.12g" % (k, src, e["log_p_one"], e["alpha"], lp1))
                return out
            # simulated read counts span hundreds of log units: entries of the cached grids far below the maximum sit on
            # the 1e-100 convolution floor and depend on the order of the children (C02's window), so only the
            # densities are compared with a rebuild here
            c06 = compare_trees(t, build_tree(tree_spec(t), data), 1e-7, arrays=False)
            if c06:
                out["failure"] = ("entry-rebuild", "entry %d (%s): %s" % (k, src, c06))
                return out
    # entry 0 is the post-burn-in state: same seed with num_iters = 0 records exactly it
    t0a, t0b = Tree.from_dict(trace[0]["tree"]), Tree.from_dict(res0["trace"][0]["tree"])
    if len(res0["trace"]) != 1 or tree_spec(t0a) != tree_spec(t0b) or trace[0]["alpha"] != 1.5 or trace[0]["log_p_one"] != res0["trace"][0]["log_p_one"]:
        out["failure"] = ("entry0", "entry 0 is not the post-burn-in state recorded under the initial concentration")
        return out
    if not conc_update and any(a != 1.5 for a in alphas):
        out["failure"] = ("alpha", "alpha changed without concentration update: %r" % alphas)
        return out
    out["alphas_vary"] = len(set(alphas)) > 1
    return out
