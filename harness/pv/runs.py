"""Shared helpers for the run-level properties (C14, C18, C19, C20): tiny input files, running the real
chain driver in-process, running the real command line in a subprocess, reading and canonicalising traces.

Nothing here knows about a property; no comparison tolerance lives here (floats are turned into hex strings
where bit-for-bit equality is the claim, C18)."""
import contextlib
import gzip
import io
import math
import os
import pickle
import re
import subprocess
import sys
import tempfile

from .framework import REPO, VERIF

PY = "/venv/bin/python"
TMP_ROOT = os.path.join(tempfile.gettempdir(), "pv_runs")


def tmpdir(name):
    d = os.path.join(TMP_ROOT, name)
    os.makedirs(d, exist_ok=True)
    return d


# ---------------------------------------------------------------- input files
HEADER = ["mutation_id", "sample_id", "ref_counts", "alt_counts", "major_cn", "minor_cn", "normal_cn"]


def make_rows(rng, n_mut, n_samples, depth=(20, 60), zero_depth=(), major_cn=(1, 2), tumour_content=None):
    """Rows of a valid PhyClone input table: n_mut mutations x n_samples samples.  `zero_depth`: indices of
    mutations with ref = alt = 0 in every sample (allowed by the loader)."""
    rows = []
    for m in range(n_mut):
        maj = rng.choice(list(major_cn))
        mino = rng.randint(0, maj)
        vaf = rng.choice([0.05, 0.2, 0.35, 0.5])
        for s in range(n_samples):
            d = 0 if m in zero_depth else rng.randint(*depth)
            alt = sum(1 for _ in range(d) if rng.random() < vaf)
            row = {"mutation_id": "m%d" % m, "sample_id": "S%d" % s, "ref_counts": d - alt, "alt_counts": alt, "major_cn": maj, "minor_cn": mino, "normal_cn": 2}
            if tumour_content is not None:
                row["tumour_content"] = tumour_content
            rows.append(row)
    return rows


def write_input(path, rows):
    cols = list(HEADER) + [c for c in rows[0] if c not in HEADER]
    with open(path, "w") as fh:
        fh.write("\t".join(cols) + "\n")
        for r in rows:
            fh.write("\t".join(str(r[c]) for c in cols) + "\n")
    return path


# ---------------------------------------------------------------- the command line
def console_entry():
    """'module:function' of the `phyclone` console script, read from /repo/pyproject.toml at run time."""
    txt = open(os.path.join(REPO, "pyproject.toml")).read()
    m = re.search(r"\[project\.scripts\][^\[]*?phyclone\s*=\s*\"([^\"]+)\"", txt, re.S)
    return m.group(1) if m else "phyclone.cli:main"


def cli_cmd(args):
    mod, fn = console_entry().split(":")
    # PV_POOL_WORKERS=<n> (set by the harness for some C18 variations): every ProcessPoolExecutor the command creates gets n
    # worker processes whatever max_workers it asks for - the schedule in which a worker that became free early executes several
    # chains back to back.  Patched in the command's own interpreter only; inert when the variable is unset.
    code = (
        "import sys, os\n"
        "if os.environ.get('PV_POOL_WORKERS'):\n"
        "    import concurrent.futures.process as _p\n"
        "    _o = _p.ProcessPoolExecutor.__init__\n"
        "    def _i(self, max_workers=None, *a, **k):\n"
        "        _o(self, int(os.environ['PV_POOL_WORKERS']), *a, **k)\n"
        "    _p.ProcessPoolExecutor.__init__ = _i\n"
        "from %s import %s as _m\n"
        "sys.exit(_m())\n" % (mod, fn)
    )
    return [PY, "-c", code] + [str(a) for a in args]


def base_env(hashseed="0", extra=None):
    env = dict(os.environ)
    env["PYTHONPATH"] = REPO + os.pathsep + os.path.join(REPO, "phyclone", "tests") + os.pathsep + os.path.join(VERIF, "harness")
    env["PYTHONDONTWRITEBYTECODE"] = "1"
    env["PHYCLONE_VERIF"] = "1"
    env.setdefault("NUMBA_CACHE_DIR", os.path.join(VERIF, ".cache", "numba"))
    for k in ("OMP_NUM_THREADS", "OPENBLAS_NUM_THREADS", "MKL_NUM_THREADS"):
        env.setdefault(k, "1")
    if hashseed is None:
        env.pop("PYTHONHASHSEED", None)
    else:
        env["PYTHONHASHSEED"] = str(hashseed)
    for k in ("PHYCLONE_VERIF_START_DELAYS", "PHYCLONE_VERIF_END_DELAYS", "PV_POOL_WORKERS"):
        env.pop(k, None)
    if extra:
        env.update({k: str(v) for k, v in extra.items()})
    return env


def run_cli(args, hashseed="0", env_extra=None, taskset=None, timeout=900):
    """Run `phyclone <args>` from /repo's working tree in a fresh interpreter.  Returns (rc, output)."""
    cmd = cli_cmd(args)
    if taskset is not None:
        cmd = ["taskset", "-c", str(taskset)] + cmd
    p = subprocess.run(cmd, env=base_env(hashseed, env_extra), stdout=subprocess.PIPE, stderr=subprocess.STDOUT, text=True, timeout=timeout)
    return p.returncode, p.stdout


def run_options():
    """{option name: click.Option} of the `run` command, read from the live click Command object."""
    import importlib

    mod, fn = console_entry().split(":")
    grp = getattr(importlib.import_module(mod), fn)
    cmd = grp.commands["run"] if hasattr(grp, "commands") else importlib.import_module(mod).run
    return {p.name: p for p in cmd.params}


def option_range(opt):
    """(low, high, kind) accepted by a click option: kind in int|float|choice|bool|other."""
    import click

    t = opt.type
    if isinstance(t, click.Choice):
        return (list(t.choices), None, "choice")
    if isinstance(t, click.IntRange):
        return (t.min, t.max, "int")
    if isinstance(t, click.FloatRange):
        return (t.min, t.max, "float")
    if isinstance(t, click.types.BoolParamType) or getattr(opt, "is_flag", False):
        return (False, True, "bool")
    if isinstance(t, click.types.IntParamType):
        return (None, None, "int")
    if isinstance(t, click.types.FloatParamType):
        return (None, None, "float")
    return (None, None, "other")


def accepted(opt, value):
    """The value the command line hands to run() when the user passes `value` (clamping as click does)."""
    lo, hi, kind = option_range(opt)
    if kind in ("int", "float"):
        clamp = getattr(opt.type, "clamp", False)
        if lo is not None and value < lo:
            return lo if clamp else None
        if hi is not None and value > hi:
            return hi if clamp else None
    return value


# ---------------------------------------------------------------- traces
def read_trace(path):
    with gzip.GzipFile(path, "rb") as fh:
        return pickle.load(fh)


def fhex(x):
    x = float(x)
    return x.hex() if not math.isnan(x) else "nan"


def canon_tree_dict(td):
    """A trace entry's tree dictionary up to what is arbitrary (container order); floats as hex strings."""
    node_data = tuple(sorted(((str(k), tuple(sorted(int(d.idx) for d in v))) for k, v in td["node_data"].items() if len(v) > 0 or k != -1)))
    return {
        "edges": tuple(sorted((int(a), int(b)) for a, b in td["graph"])),
        "node_idx": tuple(sorted((str(k), int(v)) for k, v in td["node_idx"].items())),
        "node_idx_rev": tuple(sorted((int(k), str(v)) for k, v in td["node_idx_rev"].items())),
        "node_data": node_data,
        "grid_size": tuple(int(x) for x in td["grid_size"]),
        "last": str(td["node_last_added_to"]),
        "log_prior": fhex(td["log_prior"]),
    }


def canon_entry(e):
    """One trace entry without the wall-clock field."""
    return {"iter": int(e["iter"]), "alpha": fhex(e["alpha"]), "log_p_one": fhex(e["log_p_one"]), "tree": canon_tree_dict(e["tree"])}


def canon_chain(res):
    return {
        "chain_num": int(res["chain_num"]),
        "samples": [str(s) for s in res["samples"]],
        "data": [(int(d.idx), str(d.name), d.value.tobytes().hex()[:64], fhex(d.outlier_prob), fhex(d.outlier_prob_not)) for d in res["data"]],
        "trace": [canon_entry(e) for e in res["trace"]],
    }


def canon_results(results):
    return {int(k): canon_chain(v) for k, v in results.items()}


def first_difference(a, b, path=""):
    """Smallest structural path at which two canonical objects differ (None when equal)."""
    if type(a) != type(b):
        return path + " type %s/%s" % (type(a).__name__, type(b).__name__)
    if isinstance(a, dict):
        if set(a) != set(b):
            return path + " keys %r/%r" % (sorted(a), sorted(b))
        for k in a:
            d = first_difference(a[k], b[k], path + "/" + str(k))
            if d:
                return d
        return None
    if isinstance(a, (list, tuple)):
        if len(a) != len(b):
            return path + " len %d/%d" % (len(a), len(b))
        for i, (x, y) in enumerate(zip(a, b)):
            d = first_difference(x, y, path + "/" + str(i))
            if d:
                return d
        return None
    return None if a == b else path + " %r/%r" % (a, b)


# ---------------------------------------------------------------- in-process chain runs
@contextlib.contextmanager
def quiet():
    old = sys.stdout
    sys.stdout = io.StringIO()
    try:
        yield
    finally:
        sys.stdout = old


_DATA_CACHE = {}


def load_input(path, outlier_prob=0.0, density="binomial", grid_size=11, precision=400.0, seed=0):
    """Data points and sample names through the real loader (memoised per process)."""
    import numpy as np

    from phyclone.data.pyclone import load_data

    key = (path, outlier_prob, density, grid_size, precision)
    if key not in _DATA_CACHE:
        with quiet():
            _DATA_CACHE[key] = load_data(path, np.random.default_rng(seed), 0.0001, 0.4, False, cluster_file=None, density=density, grid_size=grid_size, outlier_prob=outlier_prob, precision=precision)
    return _DATA_CACHE[key]


def run_chain(data, samples, seed=0, rng=None, proposal="semi-adapted", num_particles=5, resample_threshold=0.5, outlier_prob=0.0, subtree_update_prob=0.0, thin=1, burnin=1, num_iters=4, concentration_update=True, concentration_value=1.0, max_time=float("inf"), num_samples_data_point=1, num_samples_prune_regraph=1, chain_num=0):
    """phyclone.run.run_phyclone_chain with keyword arguments (its positional order is an implementation detail)."""
    import numpy as np

    from phyclone.run import run_phyclone_chain

    if rng is None:
        rng = np.random.default_rng(seed)
    with quiet():
        return run_phyclone_chain(
            burnin=burnin,
            concentration_update=concentration_update,
            concentration_value=concentration_value,
            data=data,
            max_time=max_time,
            num_iters=num_iters,
            num_particles=num_particles,
            num_samples_data_point=num_samples_data_point,
            num_samples_prune_regraph=num_samples_prune_regraph,
            outlier_prob=outlier_prob,
            print_freq=10**9,
            proposal=proposal,
            resample_threshold=resample_threshold,
            rng=rng,
            samples=samples,
            thin=thin,
            chain_num=chain_num,
            subtree_update_prob=subtree_update_prob,
        )
