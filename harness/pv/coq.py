"""Driving Coq: build, audit of property files, evaluation of generated case files."""
import fcntl
import glob
import os
import re
import subprocess
import time

from .framework import VERIF

COQ = os.path.join(VERIF, "coq")
# PV_GEN_DIR: scratch directory for generated case files (lets several checks of one property run side by side
# against different scratch worktrees in the seeded-change tools); default coq/Gen
GEN = os.environ.get("PV_GEN_DIR") or os.path.join(COQ, "Gen")

# axioms the standard library itself declares; anything else is rejected
STDLIB_AXIOMS = {
    "ClassicalDedekindReals.sig_forall_dec",
    "ClassicalDedekindReals.sig_not_dec",
    "FunctionalExtensionality.functional_extensionality_dep",
    "functional_extensionality_dep",
    "Classical_Prop.classic",
    "classic",
    "sig_forall_dec",
    "sig_not_dec",
    "Eqdep.Eq_rect_eq.eq_rect_eq",
    "ProofIrrelevance.proof_irrelevance",
    "JMeq.JMeq_eq",
}

FORBIDDEN = re.compile(
    r"\b(Admitted|admit|Axiom|Axioms|Parameter|Parameters|Conjecture|Admit Obligations|bypass_check|type-in-type|impredicative-set)\b|Unset\s+Guard|Unset\s+Positivity|Unset\s+Universe"
)


def _strip_comments(s):
    out = []
    depth = 0
    i = 0
    while i < len(s):
        if s.startswith("(*", i):
            depth += 1
            i += 2
        elif s.startswith("*)", i) and depth:
            depth -= 1
            i += 2
        else:
            if not depth:
                out.append(s[i])
            i += 1
    return "".join(out)


def source_files():
    fs = []
    for d in ("Base", "Model", "Proofs", "Properties"):
        fs += sorted(glob.glob(os.path.join(COQ, d, "*.v")))
    return fs


def audit_sources():
    """grep for declarations that would add to the trusted base; returns offending (file, token)."""
    bad = []
    for f in source_files():
        txt = _strip_comments(open(f).read())
        # Variable/Hypothesis outside a section
        depth = 0
        for line in txt.splitlines():
            ls = line.strip()
            if re.match(r"Section\s+\w+", ls):
                depth += 1
            elif re.match(r"End\s+\w+\s*\.", ls) and depth:
                depth -= 1
            elif depth == 0 and re.match(r"(Variable|Variables|Hypothesis|Hypotheses|Context)\b", ls):
                bad.append((f, ls[:60]))
        for m in FORBIDDEN.finditer(txt):
            bad.append((f, m.group(0)))
    return bad


def gen_coqproject():
    """_CoqProject lists every .v under Base/ Model/ Proofs/ Properties/ (regenerated when the set changes)."""
    files = []
    for d in ("Base", "Model", "Proofs", "Properties"):
        files += sorted(os.path.relpath(f, COQ) for f in glob.glob(os.path.join(COQ, d, "*.v")))
    txt = "-R . PV\n" + "\n".join(files) + "\n"
    cp = os.path.join(COQ, "_CoqProject")
    if not os.path.exists(cp) or open(cp).read() != txt:
        with open(cp, "w") as fh:
            fh.write(txt)
        return True
    return False


def ensure_built(ctx=None, jobs=16, targets=None):
    """Full .vo build (no -vos) of the targets and everything they depend on.  Serialised by a file lock.
    targets: list like ['Properties/C09.vo']; None = the whole development."""
    os.makedirs(GEN, exist_ok=True)
    lock = open(os.path.join(VERIF, ".lock"), "w")
    fcntl.flock(lock, fcntl.LOCK_EX)
    try:
        mk = os.path.join(COQ, "Makefile")
        changed = gen_coqproject()
        if changed or not os.path.exists(mk):
            subprocess.run(["coq_makefile", "-f", "_CoqProject", "-o", "Makefile"], cwd=COQ, check=True, stdout=subprocess.DEVNULL)
        t = time.time()
        cmd = ["timeout", "2400", "make", "-j%d" % jobs] + (targets or [])
        p = subprocess.run(cmd, cwd=COQ, stdout=subprocess.PIPE, stderr=subprocess.STDOUT, text=True)
        if ctx is not None and time.time() - t > 5:
            ctx.log("coq make took %.0fs" % (time.time() - t))
        return p.returncode == 0, p.stdout[-4000:]
    finally:
        fcntl.flock(lock, fcntl.LOCK_UN)
        lock.close()


def coqc(path, timeout=900):
    p = subprocess.run(
        ["timeout", str(timeout), "coqc", "-R", COQ, "PV", path],
        cwd=COQ,
        stdout=subprocess.PIPE,
        stderr=subprocess.STDOUT,
        text=True,
    )
    return p.returncode, p.stdout


THM = re.compile(r"^\s*(Theorem|Lemma|Corollary|Example|Proposition|Fact)\s+([A-Za-z0-9_']+)", re.M)


def check_property_file(ctx, fname=None):
    """Obligations of one property: the development builds, Properties/<pid>.v compiles afresh,
    every theorem in it is audited with Print Assumptions against the stdlib allow-list."""
    pid = ctx.pid
    fname = fname or os.path.join(COQ, "Properties", pid + ".v")
    ok, out = ensure_built(ctx, targets=["Model/CaseUtil.vo", "Properties/%s.vo" % pid])
    ctx.checker_cmds.append("cd /verif/coq && coq_makefile -f _CoqProject -o Makefile && make -j16 Properties/%s.vo && coqc -R . PV Properties/%s.v" % (pid, pid))
    if not ok:
        ctx.obligation("coq_build", False, out)
        return False
    bad = audit_sources()
    ctx.obligation("no_admitted_axiom_parameter_in_sources", not bad, bad[:10])
    src = _strip_comments(open(fname).read())
    names = [m.group(2) for m in THM.finditer(src)]
    n_print = len(re.findall(r"Print\s+Assumptions", src))
    # recompiling the property file rewrites Properties/<pid>.vo in place: serialise it with the build lock so that a
    # second check running side by side (seeded-change tools) never reads a half-written file
    lock = open(os.path.join(VERIF, ".lock"), "w")
    fcntl.flock(lock, fcntl.LOCK_EX)
    try:
        rc, out = coqc(fname)
    finally:
        fcntl.flock(lock, fcntl.LOCK_UN)
        lock.close()
    if rc != 0:
        for n in names:
            ctx.obligation(n, False, out[-1500:])
        return False
    # parse Print Assumptions blocks
    axioms = set()
    closed = out.count("Closed under the global context")
    for blk in re.split(r"\n(?=Axioms:)", out):
        if blk.startswith("Axioms:"):
            for line in blk.splitlines()[1:]:
                m = re.match(r"^([A-Za-z_][A-Za-z0-9_.']*)\s*:", line)
                if m:
                    axioms.add(m.group(1))
    unknown = {a for a in axioms if a not in STDLIB_AXIOMS and a.split(".")[-1] not in STDLIB_AXIOMS}
    ctx.axioms |= axioms
    for n in names:
        ctx.obligation(n, True)
    ctx.obligation("print_assumptions_under_every_theorem", n_print >= len([n for n in names]), "theorems=%d prints=%d" % (len(names), n_print))
    ctx.obligation("only_stdlib_axioms", not unknown, sorted(unknown))
    ctx.extra["print_assumptions_closed"] = closed
    if ctx.tier == "thorough":
        coqchk(ctx)
    return True


def coqchk(ctx):
    """Thorough tier: re-check the property's compiled file and everything it depends on with the independent
    checker, and read the axioms it reports."""
    pid = ctx.pid
    t = time.time()
    p = subprocess.run(["timeout", "3000", "coqchk", "-silent", "-o", "-R", ".", "PV", "PV.Properties.%s" % pid],
                       cwd=COQ, stdout=subprocess.PIPE, stderr=subprocess.STDOUT, text=True)
    out = p.stdout
    ctx.checker_cmds.append("cd /verif/coq && coqchk -silent -o -R . PV PV.Properties.%s" % pid)
    m = re.search(r"\* Axioms:(.*?)\n\s*\n\* Constants/Inductives relying on type-in-type:(.*?)\n\s*\n\* Constants/Inductives relying on unsafe \(co\)fixpoints:(.*?)\n\s*\n\* Inductives whose positivity is assumed:(.*?)(\n|$)", out, re.S)
    ok = p.returncode == 0 and m is not None
    detail = out[-1500:]
    if ok:
        axioms = [a.strip() for a in m.group(1).replace("<none>", "").split("\n") if a.strip()]
        unknown = [a for a in axioms if a not in STDLIB_AXIOMS and a.split(".")[-1] not in STDLIB_AXIOMS
                   and not any(a.endswith(x) for x in STDLIB_AXIOMS)]
        unsafe = [g.strip() for g in (m.group(2), m.group(3), m.group(4)) if g.strip() != "<none>"]
        ok = not unknown and not unsafe
        ctx.extra["coqchk_axioms"] = axioms
        detail = {"unknown_axioms": unknown, "unsafe": unsafe}
    ctx.extra["coqchk_wall_s"] = round(time.time() - t)
    ctx.obligation("coqchk_independent_recheck", ok, detail)


def coq_eval(ctx, name, body, timeout=900):
    """Write coq/Gen/<pid>_<name>.v and compile it; returns (rc, stdout).  The body normally ends
    with `Eval vm_compute in ...` lines whose output the caller parses."""
    os.makedirs(GEN, exist_ok=True)
    path = os.path.join(GEN, "%s_%s.v" % (ctx.pid, name))
    with open(path, "w") as fh:
        fh.write(body)
    rc, out = coqc(path, timeout=timeout)
    return rc, out


def parse_eval_blocks(out):
    """Split coqc output into the values printed by successive `Eval` commands (text after '= ' up to ': type')."""
    vals = []
    for m in re.finditer(r"^\s*= (.*?)\n\s*: [^\n]*(?:\n|$)", out, re.S | re.M):
        vals.append(" ".join(m.group(1).split()))
    return vals


def coq_eval_bool_cases(ctx, name, header, items, shard=60, workers=12, timeout=900):
    """items: list of Coq boolean expressions.  Evaluates them by vm_compute in parallel shards.
    Returns (ok, failing_indices, detail)."""
    from concurrent.futures import ThreadPoolExecutor

    shards = [items[i : i + shard] for i in range(0, len(items), shard)]

    def one(k):
        body = header + "\nDefinition cases : list bool := [\n" + ";\n".join("  " + x for x in shards[k]) + "\n].\nEval vm_compute in (failing cases).\n"
        rc, out = coq_eval(ctx, "%s_%03d" % (name, k), body, timeout=timeout)
        vals = parse_eval_blocks(out)
        if rc != 0 or not vals:
            return k, None, out[-1500:]
        bad = [int(x) for x in vals[0].replace("%nat", "").strip("[] ").split(";") if x.strip()]
        return k, bad, ""

    failing = []
    with ThreadPoolExecutor(max_workers=workers) as ex:
        for k, bad, detail in ex.map(one, range(len(shards))):
            if bad is None:
                return False, [], detail
            failing += [k * shard + b for b in bad]
    return True, failing, ""
