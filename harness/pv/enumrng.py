"""An enumerating stand-in for numpy.random.Generator.

Every sampler in PhyClone receives its generator as an argument.  `enumerate_outcomes(fn)`
re-runs `fn(rng)` depth-first over *every* outcome of every random call, multiplying the branch
probabilities that numpy's documented semantics give (uniform variate comparison, uniform choice,
uniform integers, uniform permutation, multinomial as n categorical draws).  The result is the exact
outcome distribution of the real code, not a sample.

Trusted: that these are numpy's laws.  `choice(a, k, replace=False)` is enumerated as ordered
k-samples (numpy returns them in a random order as well); `shuffle` as all n! permutations.
"""
import itertools
import math
from collections import defaultdict

import numpy as np


class NeedMore(Exception):
    pass


class U:
    """Lazy uniform variate supporting sequential `u < p` comparisons (keeps the interval it is known to lie in)."""

    def __init__(self, rng):
        self.rng = rng
        self.lo = 0.0
        self.hi = 1.0

    def __lt__(self, p):
        p = float(p)
        if p <= self.lo:
            return False
        if p >= self.hi:
            return True
        w = self.hi - self.lo
        i = self.rng._pick([(p - self.lo) / w, (self.hi - p) / w])
        if i == 0:
            self.hi = p
            return True
        self.lo = p
        return False

    def __ge__(self, p):
        return not self.__lt__(p)

    def __gt__(self, p):  # u > p  (measure-zero boundary ignored)
        return not self.__lt__(p)

    def __le__(self, p):
        return self.__lt__(p)


class EnumRNG:
    def __init__(self, path):
        self.path = list(path)
        self.pos = 0
        self.prob = 1.0
        self.need = None
        self.calls = []

    def _pick(self, probs):
        if self.pos < len(self.path):
            i = self.path[self.pos]
            self.pos += 1
            self.prob *= probs[i]
            return i
        self.need = list(probs)
        raise NeedMore()

    def random(self):
        self.calls.append("random")
        return U(self)

    def integers(self, lo, hi=None, endpoint=False):
        self.calls.append("integers")
        if hi is None:
            lo, hi = 0, lo
        if endpoint:
            hi += 1
        n = int(hi) - int(lo)
        if n <= 0:
            raise ValueError("low >= high")
        return int(lo) + self._pick([1.0 / n] * n)

    def choice(self, a, size=None, replace=True, p=None):
        self.calls.append("choice")
        a = list(a) if not isinstance(a, (int, np.integer)) else list(range(int(a)))
        if size is None:
            if len(a) == 0:
                raise ValueError("a cannot be empty unless no samples are taken")
            probs = [1.0 / len(a)] * len(a) if p is None else list(p)
            return a[self._pick(probs)]
        assert not replace and p is None
        k = int(size)
        if k > len(a):
            raise ValueError("Cannot take a larger sample than population when replace is False")
        if k == 0:
            return np.array([], dtype=np.asarray(a).dtype if len(a) else float)
        combs = list(itertools.permutations(range(len(a)), k))
        i = self._pick([1.0 / len(combs)] * len(combs))
        return np.array([a[j] for j in combs[i]])

    def multinomial(self, n, pvals):
        self.calls.append("multinomial")
        p = np.asarray(pvals, dtype=float)
        k = len(p)
        if np.any(np.isnan(p)) or np.any(p < 0) or p[:-1].sum() > 1.0 + 1e-12:
            raise ValueError("pvals invalid")
        out = np.zeros(k, dtype=int)
        for _ in range(int(n)):
            out[self._pick([float(x) for x in p])] += 1
        return out

    def shuffle(self, l):
        """uniform permutation; arrangements that are equal as sequences (repeated hashable elements, e.g. the sentinel
        lists of interleave_lists) are merged into one branch carrying their total probability - the same law, fewer paths"""
        self.calls.append("shuffle")
        n = len(l)
        if n <= 1:
            return
        try:
            counts = {}
            for x in l:
                counts[x] = counts.get(x, 0) + 1
            hashable = True
        except TypeError:
            hashable = False
        if hashable and len(counts) < n:
            keys = list(counts)
            arrangements = []

            def rec(prefix, remaining):
                if len(prefix) == n:
                    arrangements.append(list(prefix))
                    return
                for k in keys:
                    if remaining[k]:
                        remaining[k] -= 1
                        prefix.append(k)
                        rec(prefix, remaining)
                        prefix.pop()
                        remaining[k] += 1

            rec([], dict(counts))
            i = self._pick([1.0 / len(arrangements)] * len(arrangements))  # every distinct arrangement has the same multiplicity
            vals = arrangements[i]
        else:
            perms = list(itertools.permutations(range(n)))
            i = self._pick([1.0 / len(perms)] * len(perms))
            vals = [l[j] for j in perms[i]]
        for j in range(n):
            l[j] = vals[j]

    def permutation(self, x):
        l = list(range(x)) if isinstance(x, (int, np.integer)) else list(x)
        self.shuffle(l)
        return np.array(l)


def enumerate_outcomes(fn, max_paths=None, on_error="raise"):
    """Exact outcome distribution of fn(rng).  Returns (dict outcome -> prob, number of paths, errors)

    errors: list of (path, prob, exception repr) when on_error == 'collect'."""
    stack = [[]]
    out = defaultdict(float)
    n = 0
    errors = []
    while stack:
        path = stack.pop()
        rng = EnumRNG(path)
        try:
            res = fn(rng)
            out[res] += rng.prob
            n += 1
        except NeedMore:
            for i, p in enumerate(rng.need):
                if p > 0:
                    stack.append(path + [i])
        except Exception as e:
            if on_error == "raise":
                raise
            errors.append((list(path), rng.prob, type(e).__name__ + ": " + str(e)[:200]))
            n += 1
        if max_paths is not None and n > max_paths:
            raise RuntimeError("too many paths")
    return dict(out), n, errors
