import argparse
import os
import sys

from .framework import run_property


def main():
    ap = argparse.ArgumentParser()
    ap.add_argument("pid")
    ap.add_argument("--tier", default=os.environ.get("VERIF_TIER", "quick"), choices=["quick", "thorough"])
    ap.add_argument("--replay", default=None)
    a = ap.parse_args()
    seed = int(os.environ.get("VERIF_SEED", "20260929"))
    sys.exit(run_property(a.pid, a.tier, seed, a.replay))


if __name__ == "__main__":
    main()
