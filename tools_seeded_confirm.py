#!/usr/bin/env python3
"""Confirm a sub-agent's seeded change and record it under /verif/seeded/<prop>_<id>/.

usage: tools_seeded_confirm.py <out_dir of the agent> <change id A|B> <check ids to run, comma separated>
Confirms: patch applies to /repo HEAD; demo exits 0 on the clean tree and non-zero on the changed tree; the pinned
test suite has the baseline outcome (85 passed) on the changed tree; then runs the listed checks against the changed
tree (scratch worktree, PV_REPO) and records which report a violation."""
import json, os, re, shutil, subprocess, sys, tempfile, time

HERE = os.path.dirname(os.path.abspath(__file__))

def sh(cmd, **kw):
    return subprocess.run(cmd, capture_output=True, text=True, **kw)

def main():
    out_dir, cid, checks = sys.argv[1], sys.argv[2], sys.argv[3].split(",")
    meta = json.load(open(os.path.join(out_dir, "meta.json")))
    prop = meta["property"]
    ch = [c for c in meta["changes"] if c["id"] == cid][0]
    patch = os.path.join(out_dir, "patch_%s.diff" % cid)
    demo = os.path.join(out_dir, "demo_%s.py" % cid)
    dest = os.path.join(HERE, "seeded", "%s_%s" % (prop, cid))
    os.makedirs(dest, exist_ok=True)
    wt = tempfile.mkdtemp(prefix="seedconf_", dir="/tmp"); os.rmdir(wt)
    res = {"property": prop, "change": cid, "summary": ch.get("summary"), "files": ch.get("files"),
           "what_it_needs_to_manifest": ch.get("what_it_needs_to_manifest"), "ran": {}}
    try:
        sh(["git", "-C", "/repo", "worktree", "add", "-q", "--detach", wt, "HEAD"])
        env = dict(os.environ, PYTHONPATH=wt, PYTHONDONTWRITEBYTECODE="1", PYTHONHASHSEED="0")
        env.pop("PHYCLONE_VERIF", None)
        r0 = sh(["/venv/bin/python", demo], env=env, cwd=wt, timeout=900)
        res["ran"]["demo_on_clean_tree"] = "exit %d" % r0.returncode
        r = sh(["git", "-C", wt, "apply", patch])
        res["ran"]["patch_applies_to_repo_head"] = (r.returncode == 0)
        if r.returncode != 0:
            res["ran"]["apply_error"] = r.stderr[-300:]
            return finish(res, dest, patch, demo)
        r1 = sh(["/venv/bin/python", demo], env=env, cwd=wt, timeout=900)
        res["ran"]["demo_on_changed_tree"] = "exit %d: %s" % (r1.returncode, (r1.stdout + r1.stderr).strip().splitlines()[-1][:300] if (r1.stdout + r1.stderr).strip() else "")
        t = time.time()
        rs = sh(["/venv/bin/python", "-m", "pytest", "-q", "-p", "no:cacheprovider", "--timeout=900", "--continue-on-collection-errors", "phyclone/tests"], env=env, cwd=wt, timeout=3000)
        tail = (rs.stdout.strip().splitlines() or [""])[-1]
        res["ran"]["test_suite_on_changed_tree"] = tail
        res["ran"]["test_suite_baseline_outcome"] = bool(re.search(r"2 failed, 85 passed, 1 error", tail))
        res["ran"]["test_suite_wall_s"] = round(time.time() - t)
        # the checks
        out = tempfile.mkdtemp(prefix="seedout_", dir="/tmp")
        cenv = dict(os.environ, PV_REPO=wt, PV_EVIDENCE_DIR=os.path.join(out, "evidence"), PV_REPLAY_DIR=os.path.join(out, "replays"), PV_GEN_DIR=os.path.join(out, "gen"))
        det = {}
        for pid in checks:
            t = time.time()
            p = sh([os.path.join(HERE, "check"), pid, "--tier", "quick"], env=cenv, cwd=HERE, timeout=3000)
            lines = [l for l in p.stdout.splitlines() if re.search(r"VIOLATION|FAIL |BROKEN-TIE", l)]
            det[pid] = {"exit": p.returncode, "violation_lines": sum(1 for l in lines if l.startswith("VIOLATION")),
                        "no_failing_input_found": any("no-failing-input-found" in l for l in lines),
                        "first": [re.sub(r"/tmp/seedout_\w+/", "", l)[:300] for l in lines[:4]], "wall_s": round(time.time() - t)}
        shutil.rmtree(out, ignore_errors=True)
        res["detected_by_quick_checks"] = det
        res["caught"] = any(d["exit"] != 0 for d in det.values())
        res["kept"] = bool(res["ran"]["test_suite_baseline_outcome"] and r0.returncode == 0 and r1.returncode != 0)
        return finish(res, dest, patch, demo)
    finally:
        sh(["git", "-C", "/repo", "worktree", "remove", "--force", wt])

def finish(res, dest, patch, demo):
    shutil.copy(patch, os.path.join(dest, "patch.diff"))
    if os.path.exists(demo):
        shutil.copy(demo, os.path.join(dest, "demo.py"))
    json.dump(res, open(os.path.join(dest, "meta.json"), "w"), indent=1)
    print(json.dumps({k: res[k] for k in ("property", "change", "kept", "caught") if k in res}), {p: d["exit"] for p, d in res.get("detected_by_quick_checks", {}).items()})
    return 0

if __name__ == "__main__":
    sys.exit(main())
