#!/usr/bin/env python3
"""Regenerates MANIFEST.json from the table below (keeps it valid at all times)."""
import json, os
HERE = os.path.dirname(os.path.abspath(__file__))
props = [json.loads(l) for l in open(os.path.join(HERE, "properties.jsonl"))]
ids = [p["id"] for p in props]

# per property: (technique, level text, level note, design ref)
CLAIMED = {
 "C09": ("Coq proof (uniformity of the bridge-shuffle sampler over the enumerated orders, count = number of orders, soundness of the enumeration) + exact-enumeration correspondence model vs implementation",
         "Theorems over all trees/forests: the sampler model is exactly the uniform law on forders F, fcount F = |forders F|, every enumerated order is a permutation respecting the ancestor constraint; the model is tied to the code by comparing, for every tree over <= 4 points (all outlier subsets) and random larger ones, the exact outcome distribution of RootPermutationDistribution.sample (all shuffles enumerated), log_pdf and a brute-force enumeration with the model evaluated by vm_compute.",
         "Urn model of rng.shuffle on sentinels is a modelling step (validated exhaustively on the enumerated trees); completeness of forders w.r.t. the compatibility predicate validated by brute force, not yet proved; numpy semantics trusted.",
         "DESIGN.md section 6 C09"),
}
NOT_YET = "check not built yet in this round (work in progress; see DESIGN.md section 9 build order)"

def main():
    checks = []
    for pid in ids:
        if pid not in CLAIMED:
            continue
        tech, text, note, ref = CLAIMED[pid]
        checks.append({
            "property_id": pid,
            "quick_cmd": "./check %s --tier quick" % pid,
            "thorough_cmd": "./check %s --tier thorough" % pid,
            "evidence_file": "/verif/evidence/%s.json" % pid,
            "replay_cmd_template": "./check %s --replay {path}" % pid,
            "engine": "coq+harness",
            "level_claimed": {"category": "proof", "text": text, "design_ref": ref},
            "level_note": note,
            "technique": tech,
        })
    man = {
        "version": 1,
        "setup_cmd": "./setup.sh",
        "hooks": {
            "guard": "PHYCLONE_VERIF",
            "enable": "export PHYCLONE_VERIF=1 (set by ./check); no build step: the harness imports /repo's working tree afresh in a new process",
            "baseline_off_cmd": "cd /repo && env -u PHYCLONE_VERIF /venv/bin/python -m pytest -ra -q -p no:cacheprovider --timeout=900 --continue-on-collection-errors",
            "source_commits": [],
            "add_only": True,
        },
        "engines": [{"name": "coq+harness", "path": "/verif/check", "serves_properties": [c["property_id"] for c in checks],
                     "kind_free_text": "Coq 8.16.1 development (/verif/coq) + Python harness (/verif/harness/pv) doing exact-enumeration correspondence and property search"}],
        "checks": checks,
        "not_applicable": [{"property_id": pid, "reason": NOT_YET} for pid in ids if pid not in CLAIMED],
        "notes": "See DESIGN.md. Known findings: known_findings.json.",
    }
    json.dump(man, open(os.path.join(HERE, "MANIFEST.json"), "w"), indent=1)

if __name__ == "__main__":
    main()
