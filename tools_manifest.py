#!/usr/bin/env python3
"""Regenerates MANIFEST.json from the table below (keeps it valid at all times)."""
import json, os
HERE = os.path.dirname(os.path.abspath(__file__))
props = [json.loads(l) for l in open(os.path.join(HERE, "properties.jsonl"))]
ids = [p["id"] for p in props]

# per property: (technique, level text, level note, design ref)
CLAIMED = {
 "C09": ("Coq proof (the bridge-shuffle sampler draws every compatible order with probability exactly 1/count and nothing else; enumeration sound, complete and duplicate-free; count = number of orders) + exact-enumeration correspondence model vs implementation",
         "Theorems over all trees/forests with distinct data points: every permutation of the data points that places each clone's points after its descendants' (outliers anywhere) is drawn with probability exactly 1/fcount, every other list with probability 0, fcount = number of such orders, total mass 1. Tie: for every tree over <= 4 points (all outlier subsets) and random larger ones, the exact outcome distribution of RootPermutationDistribution.sample (all shuffles enumerated), log_pdf and a brute-force enumeration are compared with the model evaluated by vm_compute.",
         "Urn model of rng.shuffle on sentinels is a modelling step (validated exhaustively on the enumerated trees); numpy semantics trusted.",
         "DESIGN.md section 6 C09"),
 "C01": ("Coq proof (conditional SMC with adaptive multinomial resampling leaves the path target invariant, for every proposal, particle count, schedule and symmetric resampling criterion; auxiliary-variable lemma for the data order; the assembled update over the real placement grammar with PhyClone's three proposals, ESS criterion and schedule; END TO END: the FS-CRP posterior of C03 on the data term of C02 plugged in as the target, no premise left but positive data) + exact transition matrices of the real particle-Gibbs update (every random outcome enumerated) checked for pi P = pi + vm_compute correspondence of the Coq sampler model with the real ConditionalSMCSampler, of the grammar with the real proposals / retained paths, and of the theorem's target gam_fscrp with the real log_p_one on every state",
         "Theorems C01_csmc_invariant (induction over the schedule via exchangeability of the unconditional sampler, a change of measure and slot averaging), C01_pg_update_invariant (the assembled update: random data order + conditional SMC + target identification), C01_phyclone_update_invariant_* (real grammar, the three proposal densities, ESS criterion, schedule) and C01_phyclone_update_leaves_fscrp_posterior_invariant: for every n, grid, number of samples, positive data, alpha > 0, particle count and threshold the update leaves invariant the measure whose weight on a state is C03's spec_log_p_one evaluated on C02's root vectors of the rose forest the state denotes (C01_state_denotes_its_forest: that forest is well formed, covers 0..n-1 and has the state as its relation table; C01_fscrp_target_well_defined: the weight is the density of EVERY well-formed forest the state denotes), also with PhyClone's actual weight sequence exp(log_p) x 1/#orders of the partial trees and proposals adapted to exp(log_p) (C01_phyclone_update_invariant_with_its_actual_weights). All closed under the global context. The implementation is decided by computing, for every start tree over 1-3 (thorough: 4) data points, the EXACT outcome distribution of ParticleGibbsTreeSampler.sample_tree under both wirings (run.py and library), all three proposals, outliers on/off, alpha/particles/threshold grids, and testing max|pi P - pi| <= 1e-9 against exp(log_p_one); the Coq model of the sampler, fed with proposal/weight tables read off the real kernel, reproduces the real sampler's outcome distribution row by row for fixed data orders; the theorem's target evaluated in Coq equals exp(TreeJointDistribution.log_p_one) (and log_p) of the harness-built tree on every state over 1-3 (thorough: 4) points.",
         "What ties the theorem's incremental weights to the code is validation: the weights create_particle computes are target ratios with the last-step correction (C08_weights_telescope + the correspondence rows); multinomial layout modelled as iid categorical draws (validated by the correspondence); enumerating RNG assumes numpy's laws; floats outside the model.",
         "DESIGN.md section 6 C01 and section 10.10"),
 "C04": ("Coq proof (Gibbs-on-fibers invariance, auxiliary-mixture and composition lemmas, closed candidate set of the data-point move, refutation witnesses) + exact transition matrices of the three real moves checked for pi P = pi",
         "Theorems for every finite state space: a Gibbs redraw on a partition into fibers with state-independent candidate lists leaves the target invariant; mixtures over an independent auxiliary choice and compositions of invariant kernels are invariant; the data-point move (repaired guard) leaves the target invariant on every union of fibers (C04_dp_move_invariant). The real DataPointSampler / PruneRegraphSampler / ParticleGibbsSubtreeSampler are decided by exact transition matrices from every start tree over 2-4 (thorough: 5) data points; the Coq model of the data-point sweep reproduces the real sampler's outcome distribution; the sweep in run.py is checked to be a fixed composition.",
         "Subtree move: no theorem beyond the whole-tree case (C01); its state-dependent subtree choice is a recorded known finding (3+ data points). Tree-level candidate enumeration of prune-regraft is validated, not proved.",
         "DESIGN.md section 6 C04"),
 "C08": ("Coq proof (each proposal's sampler equals its density-weighted sum over ALL placements, mass one, subset counting, weight telescoping) + exact enumeration of every proposal draw against an independent placement oracle and against the Coq model",
         "Theorems for every number of top-level clones, outlier setting, target values and test function: bootstrap / semi-adapted / fully-adapted samplers are exactly their reported densities over the list of all placements (faithful, normalised, complete), total mass 1, |k-subsets| = C(R,k), incremental weights telescope to target(T)/target(0). Tie: for every parent state over <= 3 (thorough: 4) data points incl. none and outliers-only, the exact outcome distribution of proposal.sample(), log_p on every outcome and create_particle's log_w are compared with an independent enumeration of placements, the target ratio, and the Coq model (vm_compute).",
         "rng.choice(roots, k, replace=False) modelled as a uniform k-subset; the target values gam are inputs of the adapted models (their correctness is C02/C03); NoDup of the placement list not proved.",
         "DESIGN.md section 6 C08"),
 "C02": ("Coq proof by nested induction over rose forests (root_R entry k = brute-force constrained sum; per-clone version; positivity; sibling-order invariance; floor monotonicity) + vm_compute correspondence and an independent Fraction brute force over all G^clones assignments; FFT stream with an exact integer oracle; floor stream with exact interval bounds",
         "Theorems for every forest, child count, grid size, data and number of samples: the virtual root's vector equals the constrained sum of the statement, all entries positive, invariant under sibling reordering at any depth, and monotone under raising any convolution entry. Tie: real trees (built directly and through from_dict) over all shapes up to 5 (thorough 7) nodes against the model and the brute force; FFT path and extreme-range floor window checked with exact oracles.",
         "Exact rational model; float rounding, the 1e-100 floor and FFT round-off are validated, not proved; the FFT window is read relative to the untruncated convolution row (DESIGN.md records the alternative literal reading as an observation).",
         "DESIGN.md section 6 C02"),
 "C03": ("Coq proof over an executable Qc model of the FS-CRP density (spec written from the statement + transliteration of the three code paths; clade/equality characterisation) + vm_compute correspondence + exact-Fraction differential oracle over exhaustively enumerated trees x construction histories",
         "Theorems: the three code paths equal the independent spec for all forests/alpha/root vectors; fused = separate; outlier marginal = single-clone marginal; invariance under sibling/point/outlier permutations; same clades and outliers iff equal up to sibling permutation. Tie: every tree over <= 4 points x outlier subsets x 9 build histories (from_dict, prune-regraft, relabel, label clashes), Tree.__eq__/__hash__ on all pairs.",
         "The per-sample root vector is an input of the density model (C02 models it). Premises: c > 1, 0 <= p < 1, size >= 1, non-empty clones (outlier prior p = 1 is outside). Floats compared at 1e-9.",
         "DESIGN.md section 6 C03"),
 "C05": ("Coq proof over Qc (binomial theorem, Chu-Vandermonde for rising factorials, genotype/evaf bounds, mixture normalisation, cluster product, outlier terms) + correspondence of the real load_data with the Coq model (vm_compute) and an independent exact-rational model + implementation-only sum-over-alternate-counts oracle",
         "Theorems for every depth, copy-number state, purity, error rate and grid: binomial and beta-binomial pmfs sum to one, the genotype mixture sums to one over alternate counts, expected VAF stays inside (0,1), a cluster is the product of its members, outlier terms scale with cluster size. Tie: generated TSV files through the real loader (both densities, precisions, grids 2..101, clustered/unclustered, depths up to 1e4).",
         "lgamma ratio = rising factorial and float rounding validated at 1e-9, not proved; the guard normal_cn >= 1 is explicit (normal_cn = 0 with f = 0 divides by zero in the code and is outside the quantifier); 'cluster size' read as number of loaded members.",
         "DESIGN.md section 6 C05"),
 "C10": ("Coq proof (max-plus table invariants, chain upper bound, traceback realises the table entry) over an integer-score model of map.py + vm_compute correspondence + brute-force maximum",
         "Theorems for every forest, grid size and integer score grid, per sample: the traced assignment is on the grid, feasible (clone >= sum of children, top level <= 1) and maximal over all feasible assignments; prevalences are non-negative. Tie: get_map_node_ccfs_and_clonal_prev_dicts on forests <= 6 nodes, 1-3 samples, integer-valued grids; indices compared exactly where the maximiser is unique, otherwise by score and feasibility.",
         "Integer-score model (the constant log prior is omitted); float ties and prevalence >= -1e-12 validated only; trees with at least one clone (the all-outlier tree is C12).",
         "DESIGN.md section 6 C10"),
 "C13": ("Coq proof (Reals) of the density algebra of the Escobar-West update and of two-block Gibbs invariance relative to abstract integration operators (linear, local, Fubini: visible premises) + executable Qc parameter model + recording fakes for beta/bernoulli/gamma.rvs and exhaustive update_concentration_value runs",
         "Theorems: the two-component Gamma mixture with the code's weight is proportional to x^(a+K-2)(x+n)exp(-x(b - log eta)); the joint has exactly the two conditionals the code samples; K and n exclude outliers; the Qc parameter model denotes the real-valued parameters; C13_concentration_update_invariant: for any integration operators satisfying linearity, locality, Fubini, Beta mass one and non-zero mixture mass, posterior(alpha) x density of the code's two draws integrates to posterior(alpha'). Tie: parameters passed to scipy's samplers for grids of (a,b,alpha,K,n,eta) incl. K = 0; update_concentration_value on every tree over <= 4 points.",
         "Partial: the invariance theorem is relative to abstract integration functionals - Tonelli and the Beta / Gamma normalisation integrals are visible premises, not discharged (no measure theory installed); update histories on one distribution object (nearly equal and tiny values) are exercised; the Gamma function is a section premise (Gam(s+1) = s Gam(s), Gam > 0, witness given); stdlib real axioms + classic + functional extensionality.",
         "DESIGN.md section 6 C13"),
 "C17": ("Coq proof of permutation invariance, kept-set characterisation under the two stated exclusions, numbering, defaults, reject and no-crash for an executable loader model + generated TSV/CSV tables loaded by the real load_data in several row orders, compared with each other, an independent oracle and the Coq model",
         "Theorems for every table: any permutation of the rows gives the same result; under the statement's exclusions a mutation is kept iff every sample has exactly one usable row; data points are numbered in sorted id order with rows in sorted sample order; defaults; major < minor rejected. Tie: generated tables with controlled defects, tab/comma separated, with/without cluster file, awkward identifiers.",
         "pandas/CSV parsing is outside the model (identifiers are taken as the loader presents them); all-dropped tables are not compared.",
         "DESIGN.md section 6 C17"),
 "C06": ("Coq proof of a cache invariant over an executable labelled-tree model with an abstract recursion (every edit, every history) + per-edit differential replay against the real Tree and a from-scratch rebuild",
         "Theorems for every recursion S, grid, positive data and finite edit history of the sampler grammar: cached vectors equal the from-scratch rebuild after every edit (cache_ok is an invariant), in-place add equals recomputation, remove-then-recompute is correct; hence both joint densities read the rebuilt root vector. Tie: generated histories applied to the real Tree and the model step by step (vectors as rationals, raise <=> None), rebuild oracle after every edit and on sampler-returned trees.",
         "Floats, the 1e-100 floor and the FFT path are outside the model (C02); NewClone's contiguous-label side condition is an explicit premise no sampler violates.",
         "DESIGN.md section 6 C06"),
 "C07": ("Coq proof of name-uniqueness and data-partition invariants with exact multiset conservation per edit and per history + four-view agreement (abs_impl) and conservation checks on real edit histories and real sampler runs",
         "Theorems: every edit of the grammar (incl. graft with clashing labels, prune incl. the whole-tree branch) preserves well-formedness; data points after an edit are a permutation of the stated delta plus the points before; moves conserve data. Tie: abs_impl (name<->index maps, payloads, single parent, reachability, no duplicate assignment) after every edit of generated histories and on every tree returned by the real samplers (all kernels, outliers on/off).",
         "Parent uniqueness and reachability hold by construction in the rose-tree model and are checked on the real object by abs_impl; sampler-level conservation is validated on real runs.",
         "DESIGN.md section 6 C07"),
 "C11": ("Coq proof (arg-max scan, topology dictionary as class summaries, ranking, archive prefix, row lookup, chain-order independence) + differential run of the real map / topology-report commands on synthetic multi-chain trace files against the model and a from-scratch oracle",
         "Theorems over all traces and every chain order: the MAP entry attains the maximum, one row per distinct tree with exact count / class maximum / attaining pointer, counts sum to the number of entries, rows sorted, archive = top-ranked prefix, frequency mode returns a maximal count. Tie: write_map_results (both types) and write_topology_report (+ archive, top_trees 1/2/all) on ~900 (quick) synthetic trace files in every chain insertion order.",
         "Trees are abstract keys (identity is C03); integer scores (NaN outside); pandas order of tied rows unspecified, rows compared up to ties.",
         "DESIGN.md section 6 C11"),
 "C12": ("Coq proof on a model of get_labels_table / get_clone_table / the graph conversion / the Newick structure + exhaustive differential run of the three real commands",
         "Theorems for every labelled tree: each mutation exactly once per sample (clustered and unclustered, outlier fill-in), clone ids are Newick nodes or -1, clusters share a clone, values are the clone's or -1; the commands complete for every tree (pinned conversion: only for trees with at least one clone, refuted for the all-outlier tree). Tie: real map/consensus/topology outputs parsed back for every tree over <= 3 points incl. all-outlier and single-clone, clustered/unclustered, 1-3 samples.",
         "CCF values are inputs of the model (C10); the Newick text is parsed by the harness; the model variant (pinned/repaired conversion) is selected by observed behaviour.",
         "DESIGN.md section 6 C12"),
 "C14": ("Coq proof (an LRU table with arbitrary capacity, evictions and clears refines the function under key soundness; soundness of the three key shapes) + call-by-call shadowing of every cache against the undecorated function in real multi-sweep runs",
         "Theorems for every call history, capacity, eviction pattern and clear schedule: memoised = unmemoised given key soundness; sorted-digest key sound from digest injectivity + permutation invariance, unordered-pair key from commutativity, proposal key includes alpha; refuted witnesses without those. Tie: every cached entry point shadowed by memoised call + __wrapped__ during real runs with concentration updates (hits recorded), decorator LRU sequences vs the Coq table.",
         "xxh3-64 injectivity is an unprovable premise; permutation invariance is exact-arithmetic (C02) and holds in floats only inside the underflow window (measured per call; out-of-window stream reported as information only).",
         "DESIGN.md section 6 C14"),
 "C15": ("Coq proof of the to_dict/from_dict round trip on an index-level model with holes, edit congruence of the restored tree and the trace loop's shape + real round trips (direct/pickle/gzip, continued editing) and real run_phyclone_chain traces",
         "Theorems: from_dict(to_dict g) restores the tree (labels, data, cached vectors) for every well-formed index-level state incl. index holes and outlier-only trees; the restored tree accepts every further edit like the original; recorded iterations are 0 then every i with i mod thin = 0 up to the stop, each entry's log_p_one matching its alpha. Tie: trees from edit histories and sampler runs round-tripped three ways and edited further; real chain traces re-read and recomputed.",
         "rustworkx's DFS update inside from_dict is modelled at label level; pickle/gzip trusted; floats/floor outside.",
         "DESIGN.md section 6 C15"),
 "C16": ("Coq proof (pigeonhole majority for counts and weights, laminarity, no inconsistent-clades exception, clades exact, uncovered points) + function- and command-level differential search over all small trace multisets",
         "Theorems for all recorded trees and thresholds >= 1/2: any two retained clades share an input tree hence are nested or disjoint, find_smallest_superset never raises, the output tree's clades are exactly the retained clades (repaired relabel: always; pinned: under the at-most-one-empty-own-set guard, with refutation witnesses), uncovered points get -1. Tie: get_consensus_tree + conversion and the real consensus command on all multisets of <= 3 trees over <= 4 points, thresholds {0.5,0.6,0.75,1}, both weight types.",
         "Python set iteration order modelled as list order (theorems hold for every order); supports within 1e-9 of the threshold excluded as the statement allows.",
         "DESIGN.md section 6 C16"),
 "C18": ("Coq proof of order-free assembly and chain isolation + differential CLI runs under hash seeds, CPU affinity and forced start/completion orders (guarded delay hook), compared bit-for-bit",
         "Theorems (partial): for every completion order the assembled result map is the same; chain i's entry depends on stream i and the shared inputs only. Tie/search: real `phyclone run --seed S` subprocesses under PYTHONHASHSEED {0,1,12345,random}, taskset, 1-3 chains, every forced completion order; traces compared entry by entry (tree dictionary, alpha, log_p_one bit-for-bit).",
         "The model cannot exhibit hash-seed, OS scheduling, numba or BLAS nondeterminism: those live in the differential runs only (20 quick / 48 thorough command lines).",
         "DESIGN.md section 6 C18"),
 "C19": ("Coq proof of driver totality under named per-kernel hypotheses + index-level iff-theorems and refutation witnesses for the two crash sites + exhaustive random-outcome enumeration of single moves + real driver runs over the click-derived boundary product",
         "Theorems: given total kernels the trace loop returns only good entries for every (burnin, iters, thin, sweep counts, update flag, clock); the pinned retained-path index is in range iff not (one data point and initial resample), the subtree pick is total iff some point is not an outlier. Search: every random outcome of each move from every start tree over <= 2 points (any exception is a finding) and run_phyclone_chain over the CLI's boundary values read from cli.py at run time.",
         "Kernel totality is hypothesised in the theorem (C01/C04/C07/C08 supply it) and validated by enumeration and ~300 (quick) / 24k (thorough) real runs.",
         "DESIGN.md section 6 C19"),
 "C20": ("Coq proof of prefix-freeness of the pickle opcode stack machine (cuts inside opcode arguments included) and error-or-complete for the gzip member under a stated zlib hypothesis + every-byte-prefix sweep through the real readers + pickletools-to-model opcode correspondence",
         "Theorems (partial): no strict prefix of a well-formed opcode stream decodes to a value; every strict prefix of the file errors or (cut inside the trailer) yields exactly the written value. Tie/search: every byte prefix of real traces through write_map_results / write_consensus_results / write_topology_report: exception or byte-identical output; opcode streams of the real pickles run through the Coq machine.",
         "CPython's unpickler, GzipFile and zlib behaving as modelled is validated on every prefix of real traces, not proved.",
         "DESIGN.md section 6 C20"),
}
NOT_YET = "check not built yet in this round (work in progress; see DESIGN.md section 9 build order)"

def main():
    checks = []
    for pid in ids:
        if pid not in CLAIMED:
            continue
        tech, text, note, ref = CLAIMED[pid]
        checks.append({
            "property_id": pid,
            "quick_cmd": "./check %s --tier quick" % pid,
            "thorough_cmd": "./check %s --tier thorough" % pid,
            "evidence_file": "/verif/evidence/%s.json" % pid,
            "replay_cmd_template": "./check %s --replay {path}" % pid,
            "engine": "coq+harness",
            "level_claimed": {"category": "proof", "text": text, "design_ref": ref},
            "level_note": note,
            "technique": tech,
        })
    man = {
        "version": 1,
        "setup_cmd": "./setup.sh",
        "hooks": {
            "guard": "PHYCLONE_VERIF",
            "enable": "export PHYCLONE_VERIF=1 (set by ./check); no build step: the harness imports /repo's working tree afresh in a new process",
            "baseline_off_cmd": "cd /repo && env -u PHYCLONE_VERIF /venv/bin/python -m pytest -ra -q -p no:cacheprovider --timeout=900 --continue-on-collection-errors",
            "source_commits": ["4bd5f68"],
            "add_only": True,
        },
        "engines": [{"name": "coq+harness", "path": "/verif/check", "serves_properties": [c["property_id"] for c in checks],
                     "kind_free_text": "Coq 8.16.1 development (/verif/coq) + Python harness (/verif/harness/pv) doing exact-enumeration correspondence and property search"}],
        "checks": checks,
        "not_applicable": [{"property_id": pid, "reason": NOT_YET} for pid in ids if pid not in CLAIMED],
        "notes": "DESIGN.md section 10 describes what was built, the theorems, the trusted base, the 15 repaired defects and the 219 seeded changes (seeded/, seven rounds; 215 caught, four open gaps of the last round listed in DESIGN.md 10.7; section 10.7 lists which check catches which and the strengthenings they led to: large inputs - clones of hundreds of points, grids above 256, more than ten chains / topologies / children -, object histories with in-place concentration changes, held subtrees, worker reuse, runs killed or out of disk space), and the 29 behaviour-preserving rewrites in benign/ that raise no alarm. Known findings: known_findings.json. tools_seeded.py / tools_seeded_confirm.py run the checks against a patch in a scratch worktree (PV_REPO) without touching /repo.",
    }
    json.dump(man, open(os.path.join(HERE, "MANIFEST.json"), "w"), indent=1)

if __name__ == "__main__":
    main()
