#!/usr/bin/env python3
"""Regenerates MANIFEST.json from the table below (keeps it valid at all times)."""
import json, os
HERE = os.path.dirname(os.path.abspath(__file__))
props = [json.loads(l) for l in open(os.path.join(HERE, "properties.jsonl"))]
ids = [p["id"] for p in props]

# per property: (technique, level text, level note, design ref)
CLAIMED = {
 "C09": ("Coq proof (uniformity of the bridge-shuffle sampler over the enumerated orders, count = number of orders, soundness of the enumeration) + exact-enumeration correspondence model vs implementation",
         "Theorems over all trees/forests: the sampler model is exactly the uniform law on forders F, fcount F = |forders F|, every enumerated order is a permutation respecting the ancestor constraint; the model is tied to the code by comparing, for every tree over <= 4 points (all outlier subsets) and random larger ones, the exact outcome distribution of RootPermutationDistribution.sample (all shuffles enumerated), log_pdf and a brute-force enumeration with the model evaluated by vm_compute.",
         "Urn model of rng.shuffle on sentinels is a modelling step (validated exhaustively on the enumerated trees); completeness of forders w.r.t. the compatibility predicate validated by brute force, not yet proved; numpy semantics trusted.",
         "DESIGN.md section 6 C09"),
 "C01": ("Coq proof (i-SIR invariance for every particle count; general resampling in progress) + exact transition matrices of the real particle-Gibbs update (every random outcome enumerated) checked for pi P = pi",
         "Theorem C01_isir_invariant: for every proposal Q, positive weights w and particle count, the conditional-SMC update without resampling leaves gamma = w*Q invariant. The implementation is decided by computing, for every start tree over 1-2 (thorough: 3) data points, the EXACT outcome distribution of ParticleGibbsTreeSampler.sample_tree under both wirings (run.py and library), all three proposals, outliers on/off, alpha/particles/threshold grids, and testing max|pi P - pi| <= 1e-9 against exp(log_p_one).",
         "The theorem covers the threshold-0 scheme; adaptive resampling is validated exactly on the enumerated configurations (proof in progress). Enumerating RNG assumes numpy's laws.",
         "DESIGN.md section 6 C01"),
 "C04": ("Coq proof (Gibbs-on-fibers invariance, auxiliary-mixture and composition lemmas, closed candidate set of the data-point move, refutation witnesses) + exact transition matrices of the three real moves checked for pi P = pi",
         "Theorems for every finite state space: a Gibbs redraw on a partition into fibers with state-independent candidate lists leaves the target invariant; mixtures over an independent auxiliary choice and compositions of invariant kernels are invariant; the data-point move's candidate list is closed. The real DataPointSampler / PruneRegraphSampler / ParticleGibbsSubtreeSampler are decided by exact transition matrices from every start tree over 2-3 (thorough: 4) data points.",
         "Subtree move: no theorem beyond the whole-tree case (C01); its state-dependent subtree choice is a recorded known finding (3+ data points). Tree-level candidate enumeration of prune-regraft is validated, not proved.",
         "DESIGN.md section 6 C04"),
 "C08": ("Coq proof (each proposal's sampler equals its density-weighted sum over ALL placements, mass one, subset counting, weight telescoping) + exact enumeration of every proposal draw against an independent placement oracle and against the Coq model",
         "Theorems for every number of top-level clones, outlier setting, target values and test function: bootstrap / semi-adapted / fully-adapted samplers are exactly their reported densities over the list of all placements (faithful, normalised, complete), total mass 1, |k-subsets| = C(R,k), incremental weights telescope to target(T)/target(0). Tie: for every parent state over <= 3 (thorough: 4) data points incl. none and outliers-only, the exact outcome distribution of proposal.sample(), log_p on every outcome and create_particle's log_w are compared with an independent enumeration of placements, the target ratio, and the Coq model (vm_compute).",
         "rng.choice(roots, k, replace=False) modelled as a uniform k-subset; the target values gam are inputs of the adapted models (their correctness is C02/C03); NoDup of the placement list not proved.",
         "DESIGN.md section 6 C08"),
}
NOT_YET = "check not built yet in this round (work in progress; see DESIGN.md section 9 build order)"

def main():
    checks = []
    for pid in ids:
        if pid not in CLAIMED:
            continue
        tech, text, note, ref = CLAIMED[pid]
        checks.append({
            "property_id": pid,
            "quick_cmd": "./check %s --tier quick" % pid,
            "thorough_cmd": "./check %s --tier thorough" % pid,
            "evidence_file": "/verif/evidence/%s.json" % pid,
            "replay_cmd_template": "./check %s --replay {path}" % pid,
            "engine": "coq+harness",
            "level_claimed": {"category": "proof", "text": text, "design_ref": ref},
            "level_note": note,
            "technique": tech,
        })
    man = {
        "version": 1,
        "setup_cmd": "./setup.sh",
        "hooks": {
            "guard": "PHYCLONE_VERIF",
            "enable": "export PHYCLONE_VERIF=1 (set by ./check); no build step: the harness imports /repo's working tree afresh in a new process",
            "baseline_off_cmd": "cd /repo && env -u PHYCLONE_VERIF /venv/bin/python -m pytest -ra -q -p no:cacheprovider --timeout=900 --continue-on-collection-errors",
            "source_commits": ["4bd5f68"],
            "add_only": True,
        },
        "engines": [{"name": "coq+harness", "path": "/verif/check", "serves_properties": [c["property_id"] for c in checks],
                     "kind_free_text": "Coq 8.16.1 development (/verif/coq) + Python harness (/verif/harness/pv) doing exact-enumeration correspondence and property search"}],
        "checks": checks,
        "not_applicable": [{"property_id": pid, "reason": NOT_YET} for pid in ids if pid not in CLAIMED],
        "notes": "See DESIGN.md. Known findings: known_findings.json.",
    }
    json.dump(man, open(os.path.join(HERE, "MANIFEST.json"), "w"), indent=1)

if __name__ == "__main__":
    main()
