#!/usr/bin/env python3
"""Regenerates MANIFEST.json from the table below (keeps it valid at all times)."""
import json, os
HERE = os.path.dirname(os.path.abspath(__file__))
props = [json.loads(l) for l in open(os.path.join(HERE, "properties.jsonl"))]
ids = [p["id"] for p in props]

# per property: (technique, level text, level note, design ref)
CLAIMED = {
 "C09": ("Coq proof (the bridge-shuffle sampler draws every compatible order with probability exactly 1/count and nothing else; enumeration sound, complete and duplicate-free; count = number of orders) + exact-enumeration correspondence model vs implementation",
         "Theorems over all trees/forests with distinct data points: every permutation of the data points that places each clone's points after its descendants' (outliers anywhere) is drawn with probability exactly 1/fcount, every other list with probability 0, fcount = number of such orders, total mass 1. Tie: for every tree over <= 4 points (all outlier subsets) and random larger ones, the exact outcome distribution of RootPermutationDistribution.sample (all shuffles enumerated), log_pdf and a brute-force enumeration are compared with the model evaluated by vm_compute.",
         "Urn model of rng.shuffle on sentinels is a modelling step (validated exhaustively on the enumerated trees); numpy semantics trusted.",
         "DESIGN.md section 6 C09"),
 "C01": ("Coq proof (conditional SMC with adaptive multinomial resampling leaves the path target invariant, for every proposal, particle count, schedule and symmetric resampling criterion; auxiliary-variable lemma for the data order; i-SIR) + exact transition matrices of the real particle-Gibbs update (every random outcome enumerated) checked for pi P = pi + vm_compute correspondence of the Coq sampler model with the real ConditionalSMCSampler",
         "Theorem C01_csmc_invariant (induction over the schedule via exchangeability of the unconditional sampler, a change of measure and slot averaging; closed under the global context) plus C01_aux_variable_invariant for the random data order. The implementation is decided by computing, for every start tree over 1-2 (thorough: 3) data points, the EXACT outcome distribution of ParticleGibbsTreeSampler.sample_tree under both wirings (run.py and library), all three proposals, outliers on/off, alpha/particles/threshold grids, and testing max|pi P - pi| <= 1e-9 against exp(log_p_one); the Coq model of the sampler, fed with proposal/weight tables read off the real kernel, reproduces the real sampler's outcome distribution row by row for fixed data orders.",
         "The theorem's premises for PhyClone (positive weights, proposal mass one, weights telescoping to gamma_one*pdf) are C08/C09 theorems plus validation; multinomial layout modelled as iid categorical draws (validated by the correspondence); enumerating RNG assumes numpy's laws.",
         "DESIGN.md section 6 C01"),
 "C04": ("Coq proof (Gibbs-on-fibers invariance, auxiliary-mixture and composition lemmas, closed candidate set of the data-point move, refutation witnesses) + exact transition matrices of the three real moves checked for pi P = pi",
         "Theorems for every finite state space: a Gibbs redraw on a partition into fibers with state-independent candidate lists leaves the target invariant; mixtures over an independent auxiliary choice and compositions of invariant kernels are invariant; the data-point move's candidate list is closed. The real DataPointSampler / PruneRegraphSampler / ParticleGibbsSubtreeSampler are decided by exact transition matrices from every start tree over 2-3 (thorough: 4) data points.",
         "Subtree move: no theorem beyond the whole-tree case (C01); its state-dependent subtree choice is a recorded known finding (3+ data points). Tree-level candidate enumeration of prune-regraft is validated, not proved.",
         "DESIGN.md section 6 C04"),
 "C08": ("Coq proof (each proposal's sampler equals its density-weighted sum over ALL placements, mass one, subset counting, weight telescoping) + exact enumeration of every proposal draw against an independent placement oracle and against the Coq model",
         "Theorems for every number of top-level clones, outlier setting, target values and test function: bootstrap / semi-adapted / fully-adapted samplers are exactly their reported densities over the list of all placements (faithful, normalised, complete), total mass 1, |k-subsets| = C(R,k), incremental weights telescope to target(T)/target(0). Tie: for every parent state over <= 3 (thorough: 4) data points incl. none and outliers-only, the exact outcome distribution of proposal.sample(), log_p on every outcome and create_particle's log_w are compared with an independent enumeration of placements, the target ratio, and the Coq model (vm_compute).",
         "rng.choice(roots, k, replace=False) modelled as a uniform k-subset; the target values gam are inputs of the adapted models (their correctness is C02/C03); NoDup of the placement list not proved.",
         "DESIGN.md section 6 C08"),
 "C02": ("Coq proof by nested induction over rose forests (root_R entry k = brute-force constrained sum; per-clone version; positivity; sibling-order invariance; floor monotonicity) + vm_compute correspondence and an independent Fraction brute force over all G^clones assignments; FFT stream with an exact integer oracle; floor stream with exact interval bounds",
         "Theorems for every forest, child count, grid size, data and number of samples: the virtual root's vector equals the constrained sum of the statement, all entries positive, invariant under sibling reordering at any depth, and monotone under raising any convolution entry. Tie: real trees (built directly and through from_dict) over all shapes up to 5 (thorough 7) nodes against the model and the brute force; FFT path and extreme-range floor window checked with exact oracles.",
         "Exact rational model; float rounding, the 1e-100 floor and FFT round-off are validated, not proved; the FFT window is read relative to the untruncated convolution row (DESIGN.md records the alternative literal reading as an observation).",
         "DESIGN.md section 6 C02"),
 "C03": ("Coq proof over an executable Qc model of the FS-CRP density (spec written from the statement + transliteration of the three code paths; clade/equality characterisation) + vm_compute correspondence + exact-Fraction differential oracle over exhaustively enumerated trees x construction histories",
         "Theorems: the three code paths equal the independent spec for all forests/alpha/root vectors; fused = separate; outlier marginal = single-clone marginal; invariance under sibling/point/outlier permutations; same clades and outliers iff equal up to sibling permutation. Tie: every tree over <= 4 points x outlier subsets x 9 build histories (from_dict, prune-regraft, relabel, label clashes), Tree.__eq__/__hash__ on all pairs.",
         "The per-sample root vector is an input of the density model (C02 models it). Premises: c > 1, 0 <= p < 1, size >= 1, non-empty clones (outlier prior p = 1 is outside). Floats compared at 1e-9.",
         "DESIGN.md section 6 C03"),
 "C05": ("Coq proof over Qc (binomial theorem, Chu-Vandermonde for rising factorials, genotype/evaf bounds, mixture normalisation, cluster product, outlier terms) + correspondence of the real load_data with the Coq model (vm_compute) and an independent exact-rational model + implementation-only sum-over-alternate-counts oracle",
         "Theorems for every depth, copy-number state, purity, error rate and grid: binomial and beta-binomial pmfs sum to one, the genotype mixture sums to one over alternate counts, expected VAF stays inside (0,1), a cluster is the product of its members, outlier terms scale with cluster size. Tie: generated TSV files through the real loader (both densities, precisions, grids 2..101, clustered/unclustered, depths up to 1e4).",
         "lgamma ratio = rising factorial and float rounding validated at 1e-9, not proved; the guard normal_cn >= 1 is explicit (normal_cn = 0 with f = 0 divides by zero in the code and is outside the quantifier); 'cluster size' read as number of loaded members.",
         "DESIGN.md section 6 C05"),
 "C10": ("Coq proof (max-plus table invariants, chain upper bound, traceback realises the table entry) over an integer-score model of map.py + vm_compute correspondence + brute-force maximum",
         "Theorems for every forest, grid size and integer score grid, per sample: the traced assignment is on the grid, feasible (clone >= sum of children, top level <= 1) and maximal over all feasible assignments; prevalences are non-negative. Tie: get_map_node_ccfs_and_clonal_prev_dicts on forests <= 6 nodes, 1-3 samples, integer-valued grids; indices compared exactly where the maximiser is unique, otherwise by score and feasibility.",
         "Integer-score model (the constant log prior is omitted); float ties and prevalence >= -1e-12 validated only; trees with at least one clone (the all-outlier tree is C12).",
         "DESIGN.md section 6 C10"),
 "C13": ("Coq proof (Reals) of the density algebra of the Escobar-West update + executable Qc parameter model + recording fakes for beta/bernoulli/gamma.rvs and exhaustive update_concentration_value runs",
         "Theorems: the two-component Gamma mixture with the code's weight is proportional to x^(a+K-2)(x+n)exp(-x(b - log eta)); the joint has exactly the two conditionals the code samples; K and n exclude outliers; the Qc parameter model denotes the real-valued parameters. Tie: parameters passed to scipy's samplers for grids of (a,b,alpha,K,n,eta) incl. K = 0; update_concentration_value on every tree over <= 4 points.",
         "Partial: invariance of a two-block Gibbs sweep on a continuous space and the normalisation integrals are not formalised (no measure theory installed); the Gamma function is a section premise (Gam(s+1) = s Gam(s), Gam > 0, witness given); stdlib real axioms + classic + functional extensionality.",
         "DESIGN.md section 6 C13"),
 "C17": ("Coq proof of permutation invariance, kept-set characterisation under the two stated exclusions, numbering, defaults, reject and no-crash for an executable loader model + generated TSV/CSV tables loaded by the real load_data in several row orders, compared with each other, an independent oracle and the Coq model",
         "Theorems for every table: any permutation of the rows gives the same result; under the statement's exclusions a mutation is kept iff every sample has exactly one usable row; data points are numbered in sorted id order with rows in sorted sample order; defaults; major < minor rejected. Tie: generated tables with controlled defects, tab/comma separated, with/without cluster file, awkward identifiers.",
         "pandas/CSV parsing is outside the model (identifiers are taken as the loader presents them); all-dropped tables are not compared.",
         "DESIGN.md section 6 C17"),
}
NOT_YET = "check not built yet in this round (work in progress; see DESIGN.md section 9 build order)"

def main():
    checks = []
    for pid in ids:
        if pid not in CLAIMED:
            continue
        tech, text, note, ref = CLAIMED[pid]
        checks.append({
            "property_id": pid,
            "quick_cmd": "./check %s --tier quick" % pid,
            "thorough_cmd": "./check %s --tier thorough" % pid,
            "evidence_file": "/verif/evidence/%s.json" % pid,
            "replay_cmd_template": "./check %s --replay {path}" % pid,
            "engine": "coq+harness",
            "level_claimed": {"category": "proof", "text": text, "design_ref": ref},
            "level_note": note,
            "technique": tech,
        })
    man = {
        "version": 1,
        "setup_cmd": "./setup.sh",
        "hooks": {
            "guard": "PHYCLONE_VERIF",
            "enable": "export PHYCLONE_VERIF=1 (set by ./check); no build step: the harness imports /repo's working tree afresh in a new process",
            "baseline_off_cmd": "cd /repo && env -u PHYCLONE_VERIF /venv/bin/python -m pytest -ra -q -p no:cacheprovider --timeout=900 --continue-on-collection-errors",
            "source_commits": ["4bd5f68"],
            "add_only": True,
        },
        "engines": [{"name": "coq+harness", "path": "/verif/check", "serves_properties": [c["property_id"] for c in checks],
                     "kind_free_text": "Coq 8.16.1 development (/verif/coq) + Python harness (/verif/harness/pv) doing exact-enumeration correspondence and property search"}],
        "checks": checks,
        "not_applicable": [{"property_id": pid, "reason": NOT_YET} for pid in ids if pid not in CLAIMED],
        "notes": "See DESIGN.md. Known findings: known_findings.json.",
    }
    json.dump(man, open(os.path.join(HERE, "MANIFEST.json"), "w"), indent=1)

if __name__ == "__main__":
    main()
