#!/bin/sh
# Offline build of the whole Coq development (full .vo build, no -vos).
set -e
HERE="$(cd "$(dirname "$0")" && pwd)"
mkdir -p "$HERE/coq/Gen" "$HERE/.cache" "$HERE/replays" "$HERE/evidence"
cd "$HERE"
PYTHONPATH="$HERE/harness" /venv/bin/python -c "
from pv import coq
ok, out = coq.ensure_built()
print(out[-3000:])
raise SystemExit(0 if ok else 1)
"
echo "setup ok"
