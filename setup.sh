#!/bin/sh
# Offline build of the Coq development (full .vo build) and numba cache warm-up.
set -e
HERE="$(cd "$(dirname "$0")" && pwd)"
cd "$HERE/coq"
coq_makefile -f _CoqProject -o Makefile
timeout 3000 make -j16
mkdir -p "$HERE/coq/Gen" "$HERE/.cache" "$HERE/replays" "$HERE/evidence"
echo "setup ok"
