(* Finite weighted lists as (sub-)probability distributions over Qc.
   A Python exception in the implementation is modelled as lost mass (the empty
   distribution), so "never crashes" is "total mass = 1". *)
From PV Require Export Base.QcTac.

Definition dist (X : Type) := list (X * Qc).

Fixpoint E {X} (d : dist X) (f : X -> Qc) : Qc :=
  match d with [] => 0 | (a, w) :: r => w * f a + E r f end.

Definition mass {X} (d : dist X) : Qc := E d (fun _ => 1).
Definition ret {X} (x : X) : dist X := [(x, 1)].
Definition scale {X} (c : Qc) (d : dist X) : dist X := map (fun p => (fst p, c * snd p)) d.
Fixpoint bind {X Y} (d : dist X) (k : X -> dist Y) : dist Y :=
  match d with [] => [] | (a, w) :: r => scale w (k a) ++ bind r k end.
Definition dmap {X Y} (g : X -> Y) (d : dist X) : dist Y := map (fun p => (g (fst p), snd p)) d.
(* unnormalised measure from a weight function on a list of states *)
Definition wlist {X} (g : X -> Qc) (l : list X) : dist X := map (fun a => (a, g a)) l.
(* uniform distribution on a non-empty list *)
Definition uniform {X} (l : list X) : dist X := wlist (fun _ => / qn (length l)) l.

Fixpoint sumq (l : list Qc) : Qc := match l with [] => 0 | x :: r => x + sumq r end.

Section Lemmas.
Context {X : Type}.
Implicit Types (d : dist X) (f g : X -> Qc).

Lemma E_ext d f g : (forall a, f a = g a) -> E d f = E d g.
Proof. intros H; induction d as [|[a w] d IH]; cbn [E]; [reflexivity| now rewrite H, IH]. Qed.
Lemma E_ext_in d f g : (forall a, In a (map fst d) -> f a = g a) -> E d f = E d g.
Proof.
  induction d as [|[a w] d IH]; cbn [E map fst]; intros H; [reflexivity|].
  rewrite (H a) by (left; reflexivity). rewrite IH; [reflexivity|].
  intros b Hb. apply H. right. exact Hb.
Qed.
Lemma E_app d1 d2 f : E (d1 ++ d2) f = E d1 f + E d2 f.
Proof. induction d1 as [|[a w] d IH]; cbn [E app]; [ring| rewrite IH; ring]. Qed.
Lemma E_plus d f g : E d (fun a => f a + g a) = E d f + E d g.
Proof. induction d as [|[a w] d IH]; cbn [E]; [ring| rewrite IH; ring]. Qed.
Lemma E_scale_r d f c : E d (fun a => c * f a) = c * E d f.
Proof. induction d as [|[a w] d IH]; cbn [E]; [ring| rewrite IH; ring]. Qed.
Lemma E_zero d : E d (fun _ => 0) = 0.
Proof. induction d as [|[a w] d IH]; cbn [E]; [ring| rewrite IH; ring]. Qed.
Lemma E_const d c : E d (fun _ => c) = c * mass d.
Proof. unfold mass. rewrite <- E_scale_r. apply E_ext. intros; ring. Qed.
Lemma E_scale c d f : E (scale c d) f = c * E d f.
Proof. unfold scale. induction d as [|[a w] d IH]; cbn [E map fst snd]; [ring| rewrite IH; ring]. Qed.
Lemma E_ret (x : X) f : E (ret x) f = f x.
Proof. unfold ret; cbn [E]. ring. Qed.
Lemma E_wlist g l f : E (wlist g l) f = sumq (map (fun a => g a * f a) l).
Proof. unfold wlist. induction l as [|a l IH]; cbn [E map sumq]; [reflexivity| now rewrite IH]. Qed.
Lemma E_nonneg d f : (forall a w, In (a, w) d -> 0 <= w) -> (forall a, 0 <= f a) -> 0 <= E d f.
Proof.
  intros Hw Hf. induction d as [|[a w] d IH]; cbn [E]; [apply Qcle_refl|].
  apply Qc_add_nonneg.
  - apply Qc_mul_nonneg; [apply (Hw a); left; reflexivity| apply Hf].
  - apply IH. intros b v Hb. apply (Hw b). right. exact Hb.
Qed.
End Lemmas.

Lemma E_bind {X Y} (d : dist X) (k : X -> dist Y) (f : Y -> Qc) :
  E (bind d k) f = E d (fun a => E (k a) f).
Proof. induction d as [|[a w] d IH]; cbn [E bind]; [reflexivity|]. rewrite E_app, E_scale, IH. reflexivity. Qed.
Lemma E_dmap {X Y} (g : X -> Y) (d : dist X) (f : Y -> Qc) : E (dmap g d) f = E d (fun a => f (g a)).
Proof. unfold dmap. induction d as [|[a w] d IH]; cbn [E map fst snd]; [reflexivity| now rewrite IH]. Qed.
Lemma fubini {X Y} (d : dist X) (e : dist Y) h :
  E d (fun a => E e (fun b => h a b)) = E e (fun b => E d (fun a => h a b)).
Proof.
  induction d as [|[a w] d IH]; cbn [E].
  - now rewrite E_zero.
  - rewrite IH. rewrite <- E_scale_r, <- E_plus. apply E_ext; intros; ring.
Qed.

Lemma sumq_app l1 l2 : sumq (l1 ++ l2) = sumq l1 + sumq l2.
Proof. induction l1 as [|x l IH]; cbn [sumq app]; [ring| rewrite IH; ring]. Qed.
Lemma sumq_map_scale {X} (f : X -> Qc) c l : sumq (map (fun a => c * f a) l) = c * sumq (map f l).
Proof. induction l as [|x l IH]; cbn [sumq map]; [ring| rewrite IH; ring]. Qed.
Lemma sumq_map_plus {X} (f g : X -> Qc) l :
  sumq (map (fun a => f a + g a) l) = sumq (map f l) + sumq (map g l).
Proof. induction l as [|x l IH]; cbn [sumq map]; [ring| rewrite IH; ring]. Qed.
Lemma sumq_map_ext {X} (f g : X -> Qc) l : (forall a, In a l -> f a = g a) -> sumq (map f l) = sumq (map g l).
Proof.
  induction l as [|x l IH]; cbn [sumq map]; intros H; [reflexivity|].
  rewrite (H x) by (left; reflexivity). rewrite IH; [reflexivity|]. intros a Ha; apply H; right; exact Ha.
Qed.
Lemma sumq_map_const {X} (c : Qc) (l : list X) : sumq (map (fun _ => c) l) = qn (length l) * c.
Proof. induction l as [|x l IH]; cbn [sumq map length]; [rewrite qn_0; ring| rewrite qn_S, IH; ring]. Qed.
Lemma sumq_nonneg l : (forall x, In x l -> 0 <= x) -> 0 <= sumq l.
Proof.
  induction l as [|x l IH]; cbn [sumq]; intros H; [apply Qcle_refl|].
  apply Qc_add_nonneg; [apply H; left; reflexivity| apply IH; intros y Hy; apply H; right; exact Hy].
Qed.
Lemma sumq_flat_map {X} (k : X -> list Qc) l : sumq (flat_map k l) = sumq (map (fun a => sumq (k a)) l).
Proof. induction l as [|x l IH]; cbn [flat_map sumq map]; [reflexivity| rewrite sumq_app, IH; reflexivity]. Qed.

(* expectation under the uniform law on a list = arithmetic mean *)
Lemma E_uniform {X} (l : list X) f : l <> [] -> E (uniform l) f = sumq (map f l) / qn (length l).
Proof.
  intros Hl. unfold uniform. rewrite E_wlist, sumq_map_scale.
  unfold Qcdiv. ring.
Qed.
Lemma mass_uniform {X} (l : list X) : l <> [] -> mass (uniform l) = 1.
Proof.
  intros Hl. unfold mass. rewrite E_uniform by exact Hl. rewrite sumq_map_const.
  field. apply Qc_pos_neq0, qn_pos. destruct l; [congruence| cbn; lia].
Qed.

(* invariance of an unnormalised finite measure under a kernel *)
Definition invariant {X} (pi : dist X) (K : X -> dist X) : Prop :=
  forall f, E pi (fun x => E (K x) f) = E pi f.
Lemma invariant_compose {X} (pi : dist X) K1 K2 :
  invariant pi K1 -> invariant pi K2 -> invariant pi (fun x => bind (K1 x) K2).
Proof.
  intros H1 H2 f. rewrite (E_ext _ _ (fun x => E (K1 x) (fun y => E (K2 y) f))).
  - rewrite H1. apply H2.
  - intros a. apply E_bind.
Qed.
