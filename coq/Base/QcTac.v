(* Order reasoning on canonical rationals.  Never [simpl] a Qc goal. *)
From Coq Require Export QArith Qcanon List Lia Lqa.
Export ListNotations.
Open Scope Qc_scope.

Ltac qc_lra :=
  unfold Qclt, Qcle, Qcplus, Qcmult, Qcopp, Qcminus, Q2Qc in *; cbn [this] in *;
  repeat match goal with
         | H : context [Qred ?q] |- _ => rewrite (Qred_correct q) in H
         | |- context [Qred ?q] => rewrite (Qred_correct q)
         end; lra.

Lemma Qc_add_pos a b : 0 < a -> 0 <= b -> 0 < a + b.
Proof. intros. qc_lra. Qed.
Lemma Qc_add_nonneg a b : 0 <= a -> 0 <= b -> 0 <= a + b.
Proof. intros. qc_lra. Qed.
Lemma Qc_add_pos_pos a b : 0 < a -> 0 < b -> 0 < a + b.
Proof. intros. qc_lra. Qed.
Lemma Qc_mul_pos a b : 0 < a -> 0 < b -> 0 < a * b.
Proof.
  intros Ha Hb. replace 0 with (0 * b) by ring. apply Qcmult_lt_compat_r; assumption.
Qed.
Lemma Qc_mul_nonneg a b : 0 <= a -> 0 <= b -> 0 <= a * b.
Proof.
  intros Ha Hb. replace 0 with (0 * b) by ring. apply Qcmult_le_compat_r; assumption.
Qed.
Lemma Qc_pos_neq0 a : 0 < a -> a <> 0.
Proof. intros H E. apply Qclt_not_eq in H. congruence. Qed.
Lemma Qc_lt_le a b : a < b -> a <= b.
Proof. apply Qclt_le_weak. Qed.
Lemma Qc_inv_pos a : 0 < a -> 0 < / a.
Proof.
  intros Ha. destruct (Qclt_le_dec 0 (/ a)) as [H|H]; [exact H|exfalso].
  assert (Hn : a <> 0) by (apply Qc_pos_neq0; exact Ha).
  assert (H1 : a * / a = 1) by (apply Qcmult_inv_r; exact Hn).
  assert (H2 : a * / a <= 0).
  { replace 0 with (a * 0) by ring. rewrite (Qcmult_comm a (/ a)), (Qcmult_comm a 0).
    apply Qcmult_le_compat_r; [exact H| apply Qclt_le_weak; exact Ha]. }
  rewrite H1 in H2. revert H2. apply Qclt_not_le. reflexivity.
Qed.
Lemma Qc_div_pos a b : 0 < a -> 0 < b -> 0 < a / b.
Proof. intros. unfold Qcdiv. apply Qc_mul_pos; [assumption| apply Qc_inv_pos; assumption]. Qed.

(* naturals as rationals *)
Definition qn (n : nat) : Qc := Q2Qc (inject_Z (Z.of_nat n)).
Lemma qn_0 : qn 0 = 0. Proof. reflexivity. Qed.
Lemma qn_S n : qn (S n) = qn n + 1.
Proof.
  unfold qn. apply Qc_is_canon. unfold Qcplus, Q2Qc; cbn [this].
  rewrite !Qred_correct. rewrite Nat2Z.inj_succ. unfold Z.succ.
  rewrite inject_Z_plus. reflexivity.
Qed.
Lemma qn_add n m : qn (n + m) = qn n + qn m.
Proof. induction n as [|n IH]; cbn [Nat.add]; [rewrite qn_0; ring| rewrite !qn_S, IH; ring]. Qed.
Lemma qn_mul n m : qn (n * m) = qn n * qn m.
Proof. induction n as [|n IH]; cbn [Nat.mul]; [rewrite qn_0; ring| rewrite qn_add, qn_S, IH; ring]. Qed.
Lemma qn_nonneg n : 0 <= qn n.
Proof. induction n as [|n IH]; [rewrite qn_0; apply Qcle_refl| rewrite qn_S; qc_lra]. Qed.
Lemma qn_pos n : (0 < n)%nat -> 0 < qn n.
Proof. destruct n as [|n]; [lia|]. intros _. rewrite qn_S. pose proof (qn_nonneg n). qc_lra. Qed.
Lemma qn_inj n m : qn n = qn m -> n = m.
Proof.
  unfold qn. intros H. apply (f_equal this) in H. cbn [Q2Qc this] in H.
  assert (H' : (inject_Z (Z.of_nat n) == inject_Z (Z.of_nat m))%Q).
  { rewrite <- (Qred_correct (inject_Z (Z.of_nat n))), <- (Qred_correct (inject_Z (Z.of_nat m))), H. reflexivity. }
  unfold Qeq in H'. cbn in H'. lia.
Qed.
