(* C16 model: the consensus tree of phyclone/process_trace/consensus.py (clade_probabilities,
   key_above_threshold, consensus, find_smallest_superset, relabel, clean_tree) and its conversion to a
   tree (process_trace.py: get_tree_from_consensus_graph).

   A clade is a finite set of data indices, represented by its strictly increasing list (so list equality
   is set equality, as for Python frozensets); an input tree is the list of its clades (Tree/get_clades);
   weights are exact rationals.  Python sets are iterated in an unspecified order: every function below
   takes the iteration order as the order of its argument list, and the theorems hold for every order.
   Definitions only; proofs live in Proofs/Consensus*.v. *)
From PV Require Export Base.Dist.
From Coq Require Export Bool.

Definition clade := list nat.
Definition ctree := list clade.

Fixpoint clade_eqb (a b : clade) : bool :=
  match a, b with
  | [], [] => true
  | x :: a', y :: b' => Nat.eqb x y && clade_eqb a' b'
  | _, _ => false
  end.
Definition memb (x : nat) (c : clade) : bool := existsb (Nat.eqb x) c.
Definition subset (a b : clade) : bool := forallb (fun x => memb x b) a.   (* a <= b *)
Definition has (c : clade) (t : ctree) : bool := existsb (clade_eqb c) t.

Fixpoint dedup (l : list clade) : list clade :=
  match l with [] => [] | c :: r => if has c r then dedup r else c :: dedup r end.
Definition all_clades (trees : list ctree) : list clade := dedup (concat trees).

(* ---- clade_probabilities ---- *)
Definition Qc_ltb (a b : Qc) : bool := negb (Qle_bool (this b) (this a)).   (* a < b *)
(* unweighted: (number of trees holding the clade) / len(trees) *)
Definition support_counts (trees : list ctree) (c : clade) : Qc :=
  qn (length (filter (has c) trees)) / qn (length trees).
(* weighted: sum of the (already normalised) weights of the trees holding the clade *)
Definition support_weighted (wt : list (ctree * Qc)) (c : clade) : Qc :=
  sumq (map snd (filter (fun p => has c (fst p)) wt)).

(* ---- key_above_threshold: strictly above ---- *)
Definition retained (thr : Qc) (sup : clade -> Qc) (cl : list clade) : list clade :=
  filter (fun c => Qc_ltb thr (sup c)) cl.
Definition retained_counts (thr : Qc) (trees : list ctree) : list clade :=
  retained thr (support_counts trees) (all_clades trees).
Definition retained_weighted (thr : Qc) (wt : list (ctree * Qc)) : list clade :=
  retained thr (support_weighted wt) (all_clades (map fst wt)).

(* ---- find_smallest_superset: None = raise Exception("Inconsistent set of clades") ---- *)
Fixpoint fss_loop (cands : list clade) (q : clade) (best : option clade) : option (option clade) :=
  match cands with
  | [] => Some best
  | c :: r =>
      if subset q c then
        match best with
        | None => fss_loop r q (Some c)                        (* size < inf *)
        | Some b => if Nat.eqb (length c) (length b) then None
                    else if Nat.ltb (length c) (length b) then fss_loop r q (Some c)
                    else fss_loop r q best
        end
      else fss_loop r q best
  end.
Definition find_smallest_superset (F : list clade) (q : clade) : option (option clade) :=
  fss_loop (filter (fun c => negb (clade_eqb c q)) F) q None.          (* set_of_sets.discard(query_set) *)

(* ---- consensus: (parent or None, clade) for every clade; None = the exception ---- *)
Fixpoint consensus_loop (F todo : list clade) : option (list (option clade * clade)) :=
  match todo with
  | [] => Some []
  | c :: r => match find_smallest_superset F c, consensus_loop F r with
              | Some p, Some es => Some ((p, c) :: es)
              | _, _ => None
              end
  end.
Definition consensus (F : list clade) := consensus_loop F F.

(* ---- relabel: a node becomes its own mutations (clade minus the children clades).  The networkx graph
   is keyed by that frozenset, so two clades with equal own sets become ONE node. ---- *)
Definition children (E : list (option clade * clade)) (c : clade) : list clade :=
  map snd (filter (fun e => match fst e with Some p => clade_eqb p c | None => false end) E).
Definition own (E : list (option clade * clade)) (c : clade) : clade :=
  filter (fun x => negb (existsb (memb x) (children E c))) c.
Definition pair_eqb (a b : clade * clade) : bool := clade_eqb (fst a) (fst b) && clade_eqb (snd a) (snd b).
Fixpoint dedup_pairs (l : list (clade * clade)) : list (clade * clade) :=
  match l with [] => [] | e :: r => if existsb (pair_eqb e) r then dedup_pairs r else e :: dedup_pairs r end.
Definition rnodes (E : list (option clade * clade)) : list clade := dedup (map (fun e => own E (snd e)) E).
Definition redges (E : list (option clade * clade)) : list (clade * clade) :=
  dedup_pairs (flat_map (fun e => match fst e with Some p => [(own E p, own E (snd e))] | None => [] end) E).

(* ---- the clades of the tree built from the relabelled graph: own mutations plus everything reachable *)
Definition succs (R : list (clade * clade)) (k : clade) : list clade :=
  map snd (filter (fun e => clade_eqb (fst e) k) R).
Fixpoint out_clade (fuel : nat) (R : list (clade * clade)) (k : clade) : list nat :=
  match fuel with
  | O => k
  | S f => k ++ flat_map (out_clade f R) (succs R k)
  end.
Definition fuel_of (F : list clade) : nat := list_sum (map (@length nat) F).
Definition out_clades (F : list clade) (E : list (option clade * clade)) : list (list nat) :=
  map (out_clade (fuel_of F) (redges E)) (rnodes E).

(* ---- get_tree_from_consensus_graph: a data point is labelled by the node whose idxs hold it, the
   others by the outlier node (-1, here None) ---- *)
Definition assign (nodes : list clade) (x : nat) : option clade := find (memb x) nodes.

(* ---- the whole pipeline: (nodes, edges) of the relabelled graph; None = exception ---- *)
Definition consensus_graph (F : list clade) : option (list clade * list (clade * clade)) :=
  match consensus F with None => None | Some E => Some (rnodes E, redges E) end.
Definition consensus_clades (F : list clade) : option (list (list nat)) :=
  match consensus F with None => None | Some E => Some (out_clades F E) end.

(* normal form of a finite set of naturals, for executable comparisons *)
Fixpoint insert_nat (x : nat) (l : list nat) : list nat :=
  match l with [] => [x] | y :: r => if Nat.ltb x y then x :: l else if Nat.eqb x y then l else y :: insert_nat x r end.
Definition norm (l : list nat) : clade := fold_right insert_nat [] l.

(* ---- the candidate repair: nodes keyed by the clade itself, own mutations kept as an attribute ---- *)
Definition fnodes (E : list (option clade * clade)) : list (clade * clade) := map (fun e => (snd e, own E (snd e))) E.
Definition fedges (E : list (option clade * clade)) : list (clade * clade) :=
  flat_map (fun e => match fst e with Some p => [(p, snd e)] | None => [] end) E.
Fixpoint out_clade_fixed (fuel : nat) (E : list (option clade * clade)) (c : clade) : list nat :=
  match fuel with
  | O => own E c
  | S f => own E c ++ flat_map (out_clade_fixed f E) (children E c)
  end.

(* statement helpers *)
Definition seteq (a b : list nat) : Prop := forall x, In x a <-> In x b.
Definition disjointb (a b : clade) : bool := forallb (fun x => negb (memb x b)) a.
Definition laminar (F : list clade) : Prop :=
  forall a b, In a F -> In b F -> subset a b = true \/ subset b a = true \/ disjointb a b = true.

(* ---- an input tree as a rose forest (own data indices, children): its clade list ---- *)
Inductive rtree : Type := RN (rown : list nat) (rkids : list rtree).
Fixpoint rpoints (t : rtree) : list nat := match t with RN o ks => o ++ flat_map rpoints ks end.
Fixpoint rclades (t : rtree) : list (list nat) := match t with RN o ks => rpoints t :: flat_map rclades ks end.
Definition forest_points (roots : list rtree) : list nat := flat_map rpoints roots.
Definition forest_clades (roots : list rtree) : list (list nat) := flat_map rclades roots.
Definition ctree_of (roots : list rtree) : ctree := map norm (forest_clades roots).
(* every clone holds at least one data point (what the samplers maintain) *)
Fixpoint rnonempty (t : rtree) : Prop :=
  match t with
  | RN o ks => o <> [] /\ (fix all (l : list rtree) : Prop := match l with [] => True | k :: r => rnonempty k /\ all r end) ks
  end.
(* a recorded tree: pairwise distinct data points, no empty clone *)
Definition wf_forest (roots : list rtree) : Prop := NoDup (forest_points roots) /\ Forall rnonempty roots.
