(* Table-driven instance of the generic conditional-SMC model, used by the generated C01 correspondence files:
   particles are paths of tree ids (newest first); the proposal and incremental-weight tables are read off the
   real kernel (C08 validates them); the algorithm (retained path in slot 0, adaptive multinomial resampling,
   weight bookkeeping, final draw) is Model/Csmc.v and is what this correspondence ties to
   phyclone/smc/samplers/{base,conditional}.py and phyclone/mcmc/particle_gibbs.py. *)
From PV Require Export Model.Csmc Model.CaseUtil.

Definition qtab := list (option nat * list (nat * Q)).      (* head tree id (None = empty) -> proposal over child ids *)
Definition omtab := list (option nat * nat * Q).            (* (parent id, child id) -> incremental weight *)

Definition onat_eqb (a b : option nat) : bool :=
  match a, b with Some x, Some y => Nat.eqb x y | None, None => true | _, _ => false end.
Fixpoint lookq (t : qtab) (k : option nat) : dist nat :=
  match t with [] => [] | (k', d) :: r => if onat_eqb k k' then map (fun p => (fst p, Q2Qc (snd p))) d else lookq r k end.
Fixpoint lookom (t : omtab) (k : option nat) (c : nat) : Qc :=
  match t with [] => 0 | (k', c', v) :: r => if onat_eqb k k' && Nat.eqb c c' then Q2Qc v else lookom r k c end.
Definition tq (t : qtab) (p : list nat) : dist nat := lookq t (match p with [] => None | h :: _ => Some h end).
Definition tom (t : omtab) (p : list nat) : Qc :=
  match p with [] => 0 | [c] => lookom t None c | c :: h :: _ => lookom t (Some h) c end.

(* relative ESS <= thr, i.e. (sum w)^2 <= thr * N * sum w^2 *)
Definition sumw2 {A} (s : @swarm A) : Qc := sumq (map (fun pw => snd pw * snd pw) s).
Definition ess_rs {A} (thr : Q) (s : @swarm A) : bool :=
  Qle_bool (this (sumw s * sumw s)) (thr * this (qn (length s) * sumw2 s))%Q.

(* PhyClone's schedule for T data points: init, Res, then (Upd, Res) ... Upd *)
Fixpoint sched (t : nat) : list op :=
  match t with O => [] | S O => [Upd] | S t' => Upd :: Res :: sched t' end.
Definition schedule (T : nat) : list op := Res :: sched (T - 1).

Definition head_is (i : nat) (p : list nat) : bool := match p with h :: _ => Nat.eqb h i | [] => false end.
Definition chk_pg (qt : qtab) (ot : omtab) (thr : Q) (n : nat) (path : list nat) (obs : list (nat * Q)) : bool :=
  let d := pg_kernel (tq qt) (tom ot) (ess_rs thr) n (schedule (length path)) path in
  forallb (fun o => qcclose (1 # 100000000) (pmass (head_is (fst o)) d) (snd o)) obs
  && qcclose (1 # 100000000) (mass d) 1.
