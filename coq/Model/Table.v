(* C12 model: the results table and the Newick tree written by the map / consensus / topology-report
   commands.  Mirrors phyclone/process_trace/process_trace.py (get_labels_table, get_clone_table,
   _create_results_output_files), process_trace/utils.py (convert_rustworkx_to_networkx),
   process_trace/map.py (get_map_node_ccfs_and_clonal_prev_dicts, as far as its *keys* go) and
   tree/visitors.py (GraphToNewickVisitor).

   Inputs:
     data     : list nat        DataPoint.name at position idx (mutation id, or cluster id when clustered)
     clusters : list (nat*nat)  (mutation_id, cluster_id) rows of the "clusters" frame (drop_duplicates'ed)
     samples  : list nat        sample ids
     t        : tree            labelled forest (node label, own data indices, children) + outlier indices
     vals     : nat -> list Qc * list Qc   per-sample CCF / clonal prevalence of a clone as computed by the
                MAP recursion of map.py (that recursion is property C10's subject; here only which clones
                get a value matters)
   Clone ids are integers: a node label, or -1 for the outlier "node".
   The model is total except where the pinned code raises on inputs a run can record: the graph
   conversion (KeyError 'root' when the tree has no edge).  Mis-shaped inputs (data index out of range,
   cluster id absent from the clusters frame) are excluded by well-formedness premises instead.
   Definitions only; proofs live in Proofs/Table*.v. *)
From PV Require Export Base.Dist.
From Coq Require Export ZArith Bool.
Local Open Scope Z_scope.

Inductive ltree : Type := LNode (lbl : nat) (own : list nat) (kids : list ltree).
Record tree : Type := mkT { troots : list ltree; toutl : list nat }.
Definition lbl (n : ltree) := match n with LNode l _ _ => l end.
Definition own (n : ltree) := match n with LNode _ o _ => o end.
Definition kids (n : ltree) := match n with LNode _ _ k => k end.

Fixpoint nodes_of (n : ltree) : list ltree :=
  match n with LNode _ _ ks => n :: flat_map nodes_of ks end.
Definition all_nodes (t : tree) : list ltree := flat_map nodes_of (troots t).
Definition node_labels (t : tree) : list nat := map lbl (all_nodes t).
Definition tree_points (t : tree) : list nat := flat_map own (all_nodes t) ++ toutl t.

(* Tree.labels: {idx: node} over node_data, the outlier key -1 included *)
Definition labels (t : tree) : list (nat * Z) :=
  flat_map (fun n => map (fun i => (i, Z.of_nat (lbl n))) (own n)) (all_nodes t)
  ++ map (fun i => (i, -1)) (toutl t).

(* ---- get_labels_table ---- *)
Record lrow := mkL { l_mut : nat; l_clone : Z; l_cluster : option nat }.
Definition memn (x : nat) (l : list nat) : bool := existsb (Nat.eqb x) l.

Definition labels_unclustered (data : list nat) (t : tree) : list lrow :=
  let rows1 := map (fun p => mkL (nth (fst p) data 0%nat) (snd p) None) (labels t) in
  let seen := map l_mut rows1 in
  rows1 ++ map (fun m => mkL m (-1) None) (filter (fun m => negb (memn m seen)) data).

(* clusters_grouped.get_group(cluster_id)["mutation_id"].unique() *)
Definition cluster_muts (clusters : list (nat * nat)) (cid : nat) : list nat :=
  nodup Nat.eq_dec (map fst (filter (fun r => Nat.eqb (snd r) cid) clusters)).

Definition labels_clustered (data : list nat) (clusters : list (nat * nat)) (t : tree) : list lrow :=
  let rows1 := flat_map (fun p => let cid := nth (fst p) data 0%nat in
                                  map (fun m => mkL m (snd p) (Some cid)) (cluster_muts clusters cid))
                        (labels t) in
  let seen := map l_mut rows1 in
  rows1 ++ map (fun r => mkL (fst r) (-1) (Some (snd r)))
               (filter (fun r => negb (memn (fst r) seen)) clusters).

Definition labels_table (data : list nat) (clusters : option (list (nat * nat))) (t : tree) : list lrow :=
  match clusters with None => labels_unclustered data t | Some cl => labels_clustered data cl t end.

(* ---- convert_rustworkx_to_networkx + get_map_node_ccfs_and_clonal_prev_dicts (keys) ----
   graph node names: None = 'root', Some l = clone l.  nx.DiGraph(edge_list) has exactly the end points
   of the edges as nodes; then `nx_graph.nodes[node_id]` is looked up for EVERY rustworkx node (the
   virtual root included) and raises KeyError when it is not there. *)
Definition gname := option nat.
Fixpoint edges_from (p : gname) (n : ltree) : list (gname * gname) :=
  match n with LNode l _ ks => (p, Some l) :: flat_map (edges_from (Some l)) ks end.
Definition edge_list (t : tree) : list (gname * gname) := flat_map (edges_from None) (troots t).
Definition gname_eqb (a b : gname) : bool :=
  match a, b with None, None => true | Some x, Some y => Nat.eqb x y | _, _ => false end.
Definition nx_nodes (t : tree) : list gname := flat_map (fun e => [fst e; snd e]) (edge_list t).
Definition rx_nodes (t : tree) : list gname := None :: map (fun l => Some l) (node_labels t).
Definition convert_ok (t : tree) : bool :=
  forallb (fun n => existsb (gname_eqb n) (nx_nodes t)) (rx_nodes t).

Definition vals_t := nat -> list Qc * list Qc.
(* ccf_dict / clonal_prev_dict with the root entry deleted: one entry per clone; None = KeyError *)
Definition ccf_dicts (vals : vals_t) (t : tree) : option (list (nat * (list Qc * list Qc))) :=
  if convert_ok t then Some (map (fun l => (l, vals l)) (node_labels t)) else None.

(* ---- get_clone_table: explode by sample, join the values, -1 for rows whose clone has no value ---- *)
Record crow := mkC { c_mut : nat; c_clone : Z; c_cluster : option nat; c_sample : nat; c_ccf : Qc; c_prev : Qc }.
Fixpoint lookup {V} (k : Z) (d : list (nat * V)) : option V :=
  match d with [] => None | (l, v) :: r => if Z.eqb (Z.of_nat l) k then Some v else lookup k r end.
Fixpoint index_from {A} (i : nat) (l : list A) : list (nat * A) :=
  match l with [] => [] | x :: r => (i, x) :: index_from (S i) r end.
Definition minus_one : Qc := Q2Qc (-1 # 1).
Definition clone_row (d : list (nat * (list Qc * list Qc))) (r : lrow) (js : nat * nat) : crow :=
  match lookup (l_clone r) d with
  | Some v => mkC (l_mut r) (l_clone r) (l_cluster r) (snd js) (nth (fst js) (fst v) 0%Qc) (nth (fst js) (snd v) 0%Qc)
  | None => mkC (l_mut r) (l_clone r) (l_cluster r) (snd js) minus_one minus_one
  end.
Definition clone_table (d : list (nat * (list Qc * list Qc))) (samples : list nat) (lt : list lrow) : list crow :=
  flat_map (fun r => map (clone_row d r) (index_from 0%nat samples)) lt.

(* ---- GraphToNewickVisitor: the labelled structure "(kids)label", root label 'root' = None ---- *)
Inductive nwk : Type := NW (l : gname) (ks : list nwk).
Fixpoint nw_of (n : ltree) : nwk := match n with LNode l _ ks => NW (Some l) (map nw_of ks) end.
Definition newick (t : tree) : nwk := NW None (map nw_of (troots t)).
Fixpoint nw_labels (n : nwk) : list gname := match n with NW l ks => l :: flat_map nw_labels ks end.
Fixpoint nw_edges (n : nwk) : list (gname * gname) :=
  match n with NW l ks => flat_map (fun k => (l, match k with NW m _ => m end) :: nw_edges k) ks end.

(* ---- what a command writes: None when it raises ---- *)
Definition result (data : list nat) (clusters : option (list (nat * nat))) (samples : list nat)
                  (vals : vals_t) (t : tree) : option (list crow * nwk) :=
  match ccf_dicts vals t with
  | None => None
  | Some d => Some (clone_table d samples (labels_table data clusters t), newick t)
  end.

(* ---- the same with the candidate fix (nodes added independently of the edge list) ---- *)
Definition ccf_dicts_fixed (vals : vals_t) (t : tree) : list (nat * (list Qc * list Qc)) :=
  map (fun l => (l, vals l)) (node_labels t).
Definition result_fixed data clusters samples vals t : list crow * nwk :=
  (clone_table (ccf_dicts_fixed vals t) samples (labels_table data clusters t), newick t).

(* counting rows for "exactly once" *)
Definition count_rows (m s : nat) (tb : list crow) : nat :=
  length (filter (fun r => Nat.eqb (c_mut r) m && Nat.eqb (c_sample r) s) tb).
