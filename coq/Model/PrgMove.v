(* The prune-regraft Gibbs move on a parent-function model: the clones (node ids) and their data are fixed, a state
   maps every node to its parent (None = top level).  Mirrors PruneRegraphSampler.sample_tree (repaired commit): a node
   v is drawn uniformly, the subtree rooted at v is pruned, and re-attached below every node outside that subtree or
   at the top level, drawn in proportion to the target.  Regrafting only changes parent(v). *)
From PV Require Export Model.DpMove.

(* does u reach v by following parents? (fuel = number of nodes suffices on a forest) *)
Fixpoint reach (s : state) (v : nat) (fuel : nat) (u : nat) : bool :=
  match fuel with
  | O => false
  | S f => match lookup s u with
           | None => false
           | Some p => Nat.eqb p v || reach s v f p
           end
  end.
Definition outside (s : state) (v : nat) (u : nat) : bool := negb (Nat.eqb u v) && negb (reach s v (length s) u).
Definition attach_points (s : state) (v : nat) : list holder :=
  None :: map Some (filter (outside s v) (map fst s)).
Definition prg_cand (v : nat) (s : state) : list state := map (set_pt s v) (attach_points s v).

Section Move.
Variable gamma : state -> Qc.
Definition prg_move (s : state) : dist state :=
  bind (uniform (map fst s)) (fun v => gibbs gamma (prg_cand v s)).
End Move.
