(* C18 model: a multi-chain run (phyclone/run.py: run).
   The seeded generator is spawned into one child stream per chain; each chain is submitted to a worker pool; the
   futures are consumed in COMPLETION order (as_completed) and each result is stored in a dictionary under the chain
   number it carries: results[result["chain_num"]] = result.
   A schedule is therefore just the order in which the per-chain results arrive.  What the model cannot exhibit by
   construction - and what the harness therefore tests on the real program - is any dependence of run_chain itself on
   the interpreter's hash seed, the CPU affinity, numba/BLAS threading or the other worker processes. *)
From PV Require Export Base.Dist.
From Coq Require Export Bool Arith Permutation.
Open Scope nat_scope.

Section Chains.
Variable I : Type.    (* shared inputs: data, options *)
Variable St : Type.    (* a child random stream *)
Variable Tr : Type.   (* a chain's trace *)
Variable run_chain : I -> nat -> St -> Tr.     (* run_phyclone_chain(..., rng, ..., chain_num) *)

Definition results : Type := nat -> option Tr.                 (* the dictionary keyed by chain number *)
Definition empty : results := fun _ => None.
Definition store (m : results) (r : nat * Tr) : results :=
  fun k => if k =? fst r then Some (snd r) else m k.
(* the as_completed loop over the arrival order *)
Definition assemble (arrivals : list (nat * Tr)) : results := fold_left store arrivals empty.

(* what the chains produce: chain i runs on stream i *)
Definition chain_results (inp : I) (streams : list St) : list (nat * Tr) :=
  map (fun p => (fst p, run_chain inp (fst p) (snd p))) (combine (seq 0 (length streams)) streams).

(* the finite view of the dictionary for chain numbers 0 .. n-1 *)
Definition view (n : nat) (m : results) : list (option Tr) := map m (seq 0 n).
End Chains.
Arguments empty {Tr}. Arguments store {Tr}. Arguments assemble {Tr}. Arguments view {Tr}.
