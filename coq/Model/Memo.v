(* C14 model: a memo table around a function, as built by functools.lru_cache and the two wrappers of
   phyclone/utils/utils.py (list_of_np_cache, two_np_arr_cache).
     - f : Env -> A -> V is the wrapped function; Env is whatever mutable state it reads besides its arguments
       (for the proposal caches: the concentration alpha and the kernel constants);
     - key : Env -> A -> K is what the cache is keyed by (it may or may not include parts of Env);
     - the table is a most-recent-first association list with capacity cap (LRU: a hit moves the entry to the
       front, a miss inserts at the front and drops the entries beyond cap);
     - a history is any interleaving of calls, cache_clear() and arbitrary extra evictions (Drop i removes the
       i-th entry: this covers every eviction policy, not just LRU).
   Definitions only. *)
From PV Require Export Base.Dist.
From Coq Require Export Bool Arith Permutation.
Open Scope nat_scope.

Section Memo.
Variables Env A K V : Type.
Variable f : Env -> A -> V.
Variable key : Env -> A -> K.
Variable keqb : K -> K -> bool.

Definition table := list (K * V).

Fixpoint lookup (k : K) (t : table) : option V :=
  match t with
  | [] => None
  | (k', v) :: r => if keqb k k' then Some v else lookup k r
  end.
Fixpoint remove_key (k : K) (t : table) : table :=
  match t with
  | [] => []
  | (k', v) :: r => if keqb k k' then r else (k', v) :: remove_key k r
  end.
Fixpoint drop_nth {X} (i : nat) (l : list X) : list X :=
  match l, i with
  | [], _ => []
  | _ :: r, O => r
  | x :: r, S j => x :: drop_nth j r
  end.

(* one call of the memoised function: (returned value, was it a hit, new table) *)
Definition call (cap : nat) (e : Env) (a : A) (t : table) : V * bool * table :=
  let k := key e a in
  match lookup k t with
  | Some v => (v, true, (k, v) :: remove_key k t)
  | None => let v := f e a in (v, false, firstn cap ((k, v) :: t))
  end.

Inductive event : Type :=
| Call (e : Env) (a : A)     (* a call made while the environment is e *)
| Clear                      (* cache_clear() *)
| Drop (i : nat).            (* an eviction of the i-th entry, for whatever reason *)

(* the values returned by the memoised function along a history *)
Fixpoint run (cap : nat) (h : list event) (t : table) : list V :=
  match h with
  | [] => []
  | Call e a :: r => let '(v, _, t') := call cap e a t in v :: run cap r t'
  | Clear :: r => run cap r []
  | Drop i :: r => run cap r (drop_nth i t)
  end.
(* ... and what the unmemoised function returns for the same arguments at the same moments *)
Fixpoint spec (h : list event) : list V :=
  match h with
  | [] => []
  | Call e a :: r => f e a :: spec r
  | _ :: r => spec r
  end.
Fixpoint hits (cap : nat) (h : list event) (t : table) : nat :=
  match h with
  | [] => 0
  | Call e a :: r => let '(_, b, t') := call cap e a t in (if b then 1 else 0) + hits cap r t'
  | Clear :: r => hits cap r []
  | Drop i :: r => hits cap r (drop_nth i t)
  end.

(* which calls were hits (what cache_info().hits counts), in order *)
Fixpoint hit_flags (cap : nat) (h : list event) (t : table) : list bool :=
  match h with
  | [] => []
  | Call e a :: r => let '(_, b, t') := call cap e a t in b :: hit_flags cap r t'
  | Clear :: r => hit_flags cap r []
  | Drop i :: r => hit_flags cap r (drop_nth i t)
  end.

Definition key_sound : Prop := forall e a e' b, key e a = key e' b -> f e a = f e' b.
End Memo.
Arguments Call {Env A}. Arguments Clear {Env A}. Arguments Drop {Env A}.

(* ---- the keys of the PhyClone caches ---------------------------------------------------------------- *)
(* insertion sort of digests (NumpyArrayListHasher: tuple(sorted(digests))) *)
Fixpoint insert (x : nat) (l : list nat) : list nat :=
  match l with
  | [] => [x]
  | y :: r => if x <=? y then x :: l else y :: insert x r
  end.
Fixpoint isort (l : list nat) : list nat :=
  match l with [] => [] | x :: r => insert x (isort r) end.

Section Keys.
Variable Arr : Type.                 (* a numpy array (its bytes) *)
Variable digest : Arr -> nat.        (* xxh3_64 of the bytes *)

(* compute_log_S: keyed by the sorted multiset of the children's digests *)
Definition logS_key (children : list Arr) : list nat := isort (map digest children).
(* _convolve_two_children: keyed by frozenset({digest a, digest b}) *)
Definition conv_key (p : Arr * Arr) : list nat :=
  let (a, b) := p in
  if digest a =? digest b then [digest a]
  else if digest a <? digest b then [digest a; digest b] else [digest b; digest a].
End Keys.

(* the proposal caches: keyed by (data point, kernel, parent particle, outlier proposal probability, alpha);
   the environment the proposal reads is alpha (tree_dist.prior.alpha), passed in the key *)
Record pargs (D Kn P : Type) : Type := mkPA { pa_dp : D; pa_kernel : Kn; pa_parent : option P; pa_op : Qc }.
Arguments mkPA {D Kn P}. Arguments pa_dp {D Kn P}. Arguments pa_kernel {D Kn P}. Arguments pa_parent {D Kn P}. Arguments pa_op {D Kn P}.
Definition proposal_key {D Kn P} (alpha : Qc) (a : pargs D Kn P) : pargs D Kn P * Qc := (a, alpha).
(* a (wrong) key that forgets alpha *)
Definition proposal_key_no_alpha {D Kn P} (alpha : Qc) (a : pargs D Kn P) : pargs D Kn P := a.
