(* The trace loop of phyclone/run.py (_run_main_sampler, setup_trace, append_to_trace) as a function of
   (num_iters, thin, stop predicate).

     trace = []; append_to_trace(0, ...)                       # setup_trace: the post-burn-in state, iter 0
     for i in range(num_iters):
         tree = sweep_i(tree); relabel; optional concentration update       # [sweep i]
         if i % thin == 0: append_to_trace(i, ...)                          # records the state AFTER sweep i
         if timer.elapsed >= max_time: break                                # [stop i]

   The chain state (tree, alpha, generator, clock) is an abstract type; an entry stores, read from ONE state at
   ONE time: iter, alpha, log_p_one computed under that alpha, the tree.  thin >= 1 (the CLI clamps it; with
   thin = 0 Python raises ZeroDivisionError while Coq's i mod 0 = i). *)
From PV Require Export Base.Dist.
From Coq Require Export Bool PeanoNat.
Open Scope nat_scope.

Section Trace.
Variable St : Type.
Variable Tree : Type.
Variable sweep : nat -> St -> St.        (* the sampler moves of iteration i, relabel_nodes, concentration update *)
Variable stop : nat -> St -> bool.       (* timer.elapsed >= max_time, evaluated at the end of iteration i *)
Variable alpha_of : St -> Qc.            (* tree_dist.prior.alpha *)
Variable tree_of : St -> Tree.
Variable lp1 : Qc -> Tree -> Qc.         (* tree_dist.log_p_one(tree) under a given alpha *)
Variable thin : nat.

Record entry : Type := mkE { e_iter : nat; e_alpha : Qc; e_lp1 : Qc; e_tree : Tree }.
Definition record (i : nat) (s : St) : entry := mkE i (alpha_of s) (lp1 (alpha_of s) (tree_of s)) (tree_of s).

Fixpoint loop (fuel i : nat) (s : St) : list entry :=
  match fuel with
  | O => []
  | S f =>
      let s' := sweep i s in
      (if i mod thin =? 0 then [record i s'] else [])
      ++ (if stop i s' then [] else loop f (S i) s')
  end.
Definition trace (num_iters : nat) (s0 : St) : list entry := record 0 s0 :: loop num_iters 0 s0.

(* number of iterations actually run, and the chain state after k sweeps *)
Fixpoint executed (fuel i : nat) (s : St) : nat :=
  match fuel with O => 0 | S f => let s' := sweep i s in S (if stop i s' then 0 else executed f (S i) s') end.
Fixpoint state_after (s0 : St) (k : nat) : St :=
  match k with O => s0 | S j => sweep j (state_after s0 j) end.
End Trace.
