(* Gibbs move on a fiber: draw the next state from the target restricted to a candidate list.
   Models DataPointSampler._sample_tree (candidates = the data point placed in every clone / the outlier set)
   and PruneRegraphSampler.sample_tree (candidates = the pruned subtree attached to every remaining clone / the root). *)
From PV Require Export Base.Dist.
Section Gibbs.
Context {A : Type} (gamma : A -> Qc).
Definition total (cs : list A) : Qc := sumq (map gamma cs).
Definition gibbs (cs : list A) : dist A := map (fun a => (a, gamma a / total cs)) cs.
(* the unnormalised target restricted to a fiber *)
Definition pi_fiber (cs : list A) : dist A := wlist gamma cs.
(* a move whose candidate list is chosen by an auxiliary draw (which data point / which subtree) *)
Definition aux_move {I : Type} (aux : dist I) (cand : I -> A -> list A) (x : A) : dist A :=
  bind aux (fun i => gibbs (cand i x)).
(* candidate weights with an extra state-dependent factor, as the pinned prune-regraft move has (n + 1) *)
Definition gibbs_extra (extra : A -> Qc) (cs : list A) : dist A :=
  map (fun a => (a, extra a * gamma a / sumq (map (fun b => extra b * gamma b) cs))) cs.
End Gibbs.
