(* C13 model: the Escobar-West auxiliary-variable update of the CRP concentration.
   Anchors: phyclone/mcmc/concentration.py (GammaPriorConcentrationSampler.sample),
   phyclone/run.py (update_concentration_value).

   Part 1: the parameters the code passes to beta.rvs / bernoulli.rvs / gamma.rvs, over Qc (executable).
           The auxiliary draw eta enters through L = -log eta (a positive rational), so rate = b + L.
   Part 2: the densities over the classical reals (Coq Reals); the Gamma function is a parameter [Gam]. *)
From PV Require Export Base.Dist Model.Perm Model.Density.
From Coq Require Export Reals.

(* ---------------------------------------------------------------- Part 1: parameters (Qc) *)
Definition beta_a (alpha : Qc) : Qc := alpha + 1.
Definition beta_b (n : nat) : Qc := qn n.
Definition shape0 (a : Qc) (K : nat) : Qc := a + qn K - 1.
Definition rate (b L : Qc) : Qc := b + L.
Definition xval (a b : Qc) (K n : nat) (L : Qc) : Qc := shape0 a K / (qn n * rate b L).
Definition pi_mix (a b : Qc) (K n : nat) (L : Qc) : Qc := xval a b K n L / (1 + xval a b K n L).
Definition shape1 (a : Qc) (K : nat) (z : bool) : Qc := shape0 a K + (if z then 1 else 0).
Definition scale (b L : Qc) : Qc := 1 / rate b L.
Definition floor_val : Qc := Q2Qc (1 # 10000000000).
(* max(new_value, 1e-10) *)
Definition floored (v : Qc) : Qc := if Qclt_le_dec v floor_val then floor_val else v.

Inductive call : Type :=
| Beta (a b : Qc)            (* beta.rvs(a=, b=) *)
| Bern (p : Qc)              (* bernoulli.rvs(p) *)
| Gamma (shape scale : Qc).  (* gamma.rvs(shape, scale=) *)

(* the calls made by sample(old_value = alpha, num_clusters = K, num_data_points = n) when the beta draw
   is exp(-L) and the bernoulli draw is z *)
Definition sample_calls (a b alpha : Qc) (K n : nat) (L : Qc) (z : bool) : list call :=
  match K with
  | O => [Gamma a (1 / b)]
  | _ => [Beta (beta_a alpha) (beta_b n); Bern (pi_mix a b K n L); Gamma (shape1 a K z) (scale b L)]
  end.
(* the numeric arguments of a call as plain rationals (for comparisons by computation) *)
Definition call_q (c : call) : list Q :=
  match c with Beta a b => [this a; this b] | Bern p => [this p] | Gamma s sc => [this s; this sc] end.
(* the returned value when the gamma draw is g: the floor is applied after either branch
   (since /repo 322b9c9; before it the K = 0 branch returned g unfloored - the property does not depend on it) *)
Definition sample_value (K : nat) (g : Qc) : Qc := floored g.

(* run.update_concentration_value: node sizes of every key of node_data except the outlier key *)
Definition K_n_of_tree (F : forest) : nat * nat :=
  let node_sizes := map (fun kv => length (snd kv)) (filter (fun kv => negb (fst kv)) (node_data F)) in
  (length node_sizes, list_sum node_sizes).

(* ---------------------------------------------------------------- Part 2: densities (R) *)
Section Densities.
Local Open Scope R_scope.
Variable Gam : R -> R.

(* Gamma(shape s, rate r) density at x > 0 *)
Definition gamma_dens (s r x : R) : R := Rpower r s / Gam s * Rpower x (s - 1) * exp (- (r * x)).
(* Beta(p, q) density at 0 < x < 1 *)
Definition beta_dens (p q x : R) : R := Gam (p + q) / (Gam p * Gam q) * Rpower x (p - 1) * Rpower (1 - x) (q - 1).

(* the code's mixture weight and the density of its two-stage draw (bernoulli, then gamma) *)
Definition pi_R (a : R) (K n : nat) (r : R) : R :=
  let x := (a + INR K - 1) / (INR n * r) in x / (1 + x).
Definition mixture (a : R) (K n : nat) (r x : R) : R :=
  pi_R a K n r * gamma_dens (a + INR K - 1 + 1) r x + (1 - pi_R a K n r) * gamma_dens (a + INR K - 1) r x.
(* the statement's target *)
Definition target (a : R) (K n : nat) (r x : R) : R :=
  Rpower x (a + INR K - 2) * (x + INR n) * exp (- (x * r)).

(* the augmented joint of (alpha, eta) given K, n under a Gamma(a, b) prior *)
Definition joint (a b : R) (K n : nat) (alpha eta : R) : R :=
  gamma_dens a b alpha * Rpower alpha (INR K - 1) * (alpha + INR n) * Rpower eta alpha * Rpower (1 - eta) (INR n - 1).
(* the CRP likelihood of K clusters among n points: alpha^K Gamma(alpha) / Gamma(alpha + n) *)
Definition crp_lik (K n : nat) (alpha : R) : R := Rpower alpha (INR K) * Gam alpha / Gam (alpha + INR n).
(* the unnormalised posterior of alpha given K, n, times the constant Gamma(n) *)
Definition posterior_unnorm (a b : R) (K n : nat) (alpha : R) : R :=
  Gam (INR n) * (gamma_dens a b alpha * crp_lik K n alpha).
(* what is assumed of the Gamma function *)
Definition Gamma_like : Prop :=
  (forall s, 0 < s -> Gam (s + 1) = s * Gam s) /\ (forall s, 0 < s -> 0 < Gam s).
End Densities.
