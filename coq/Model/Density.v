(* C03 model: the FS-CRP joint density (linear domain) and the three code paths computing it.
   Anchors: phyclone/tree/distributions.py (FSCRPDistribution, TreeJointDistribution),
   phyclone/tree/tree.py (multiplicity, get_number_of_nodes, node_data, roots, get_clades, __eq__),
   phyclone/data/base.py (DataPoint.__init__), phyclone/data/pyclone.py (compute_outlier_prob).

   Part 1 (SPEC) is written from the property statement by structural recursion over the forest.
   Part 2 (IMPL) transliterates the code: flat iteration over the graph nodes / the node_data dictionary,
   the closed-form geometric normaliser, the falsy-zero fall-through of the optional arguments, the
   "log value == 0" sentinel of the outlier prior, the running sum of DataPoint.__init__.
   Linear domain: a log value v is represented by exp v, so log-add = *, logaddexp = +, "log value is 0" = 1.

   Trees are Perm.tree (own data indices, children) / Perm.forest (top-level clones, outliers); the model
   has no node labels.  Well-formed trees have non-empty clones (for an empty clone the code evaluates
   log_factorial(-1) = +inf or skips the node, depending on whether its key was ever touched in the
   defaultdict; the model's nat subtraction gives (0-1)! = 1 - outside the property's quantifier). *)
From PV Require Export Base.Dist Model.Perm.
From Coq Require Export Permutation.

(* a data point: prior outlier probability, cluster size, per-sample likelihood grid *)
Record dpoint : Type := mkDP { dp_p : Qc; dp_size : nat; dp_val : list (list Qc) }.

(* ======================================================================= *)
(* 1. SPEC                                                                  *)
(* ======================================================================= *)

Fixpoint nclones (t : tree) : nat :=
  match t with Node _ ks => S (list_sum (map nclones ks)) end.
Definition fclones (F : forest) : nat := list_sum (map nclones (roots F)).

(* CRP: alpha^K * prod over clones (size - 1)! *)
Fixpoint crp_tree (t : tree) : Qc :=
  match t with Node o ks => qfact (length o - 1) * prodq (map crp_tree ks) end.
Definition spec_crp (alpha : Qc) (F : forest) : Qc :=
  alpha ^ fclones F * prodq (map crp_tree (roots F)).

(* uniform topology, marginal form: (K+1)^-(K-1) *)
Definition spec_topo_marg (F : forest) : Qc := / (qn (fclones F + 1) ^ (fclones F - 1)).

(* fixed-root form: prod over top-level clones m^-(m-1), and the penalty
   c^-(R-1) / sum_{r=1..R} c^-(r-1)  (R = 0 gives 1) *)
Fixpoint geom (c : Qc) (R : nat) : Qc :=
  match R with O => 0 | S r => geom c r + / (c ^ r) end.
Definition root_penalty (c : Qc) (R : nat) : Qc :=
  match R with O => 1 | S r => / (c ^ r) / geom c R end.
Definition spec_topo_one (c : Qc) (F : forest) : Qc :=
  prodq (map (fun t => / (qn (nclones t) ^ (nclones t - 1))) (roots F)) * root_penalty c (length (roots F)).

(* multiplicity: prod over all nodes, virtual root included, of 1/(child count)! *)
Fixpoint mult_tree (t : tree) : Qc :=
  match t with Node _ ks => qfact (length ks) * prodq (map mult_tree ks) end.
Definition spec_mult (F : forest) : Qc :=
  / (qfact (length (roots F)) * prodq (map mult_tree (roots F))).

(* outlier prior: only for points with non-zero prior *)
Definition prior_out (d : dpoint) : Qc := if Qc_eq_dec (dp_p d) 0 then 1 else dp_p d ^ dp_size d.
Definition prior_in (d : dpoint) : Qc := if Qc_eq_dec (dp_p d) 0 then 1 else (1 - dp_p d) ^ dp_size d.
Definition spec_outlier_prior (D : nat -> dpoint) (F : forest) : Qc :=
  prodq (map (fun i => prior_in (D i)) (flat_map points (roots F)))
  * prodq (map (fun i => prior_out (D i)) (outl F)).

(* data term from the per-sample root vector (an input: the recursion producing it is C02's model).
   A forest without clones has no data term. *)
Definition spec_data_marg (F : forest) (rootR : list (list Qc)) : Qc :=
  match roots F with [] => 1 | _ => prodq (map sumq rootR) end.
Definition spec_data_one (F : forest) (rootR : list (list Qc)) : Qc :=
  match roots F with [] => 1 | _ => prodq (map (fun v => last v 0) rootR) end.

(* the root vector of the tree consisting of one clone holding one point with grid v (one sample):
   clone r[j] = v[j]/G (uniform prior over the G grid points, no children);
   virtual root R[k] = (1/G) * sum_{j<=k} r[j]  (its CCF bounds the clone's CCF) *)
Definition single_clone_rootR (v : list Qc) : list Qc :=
  let G := qn (length v) in
  map (fun k => / G * sumq (map (fun x => / G * x) (firstn (S k) v))) (seq 0 (length v)).
(* outlier marginal likelihood: the marginal data term of that point alone in a single-clone tree *)
Definition spec_outlier_marg (val : list (list Qc)) : Qc :=
  spec_data_marg (mkF [Node [0%nat] []] []) (map single_clone_rootR val).
Definition spec_outliers (D : nat -> dpoint) (F : forest) : Qc :=
  prodq (map (fun i => spec_outlier_marg (dp_val (D i))) (outl F)).

Definition spec_log_p (alpha : Qc) (D : nat -> dpoint) (F : forest) (rootR : list (list Qc)) : Qc :=
  spec_crp alpha F * spec_topo_marg F * spec_mult F * spec_outlier_prior D F
  * spec_data_marg F rootR * spec_outliers D F.
Definition spec_log_p_one (alpha c : Qc) (D : nat -> dpoint) (F : forest) (rootR : list (list Qc)) : Qc :=
  spec_crp alpha F * spec_topo_one c F * spec_mult F * spec_outlier_prior D F
  * spec_data_one F rootR * spec_outliers D F.

(* ---- "the same tree": siblings permuted at any depth, points of a clone in any order ---- *)
Inductive teq : tree -> tree -> Prop :=
| teq_node o o' ks ks1 ks' :
    Permutation o o' -> Forall2 teq ks ks1 -> Permutation ks1 ks' -> teq (Node o ks) (Node o' ks').
Definition leq (l l' : list tree) : Prop := exists l1, Forall2 teq l l1 /\ Permutation l1 l'.
Definition feq (F F' : forest) : Prop := leq (roots F) (roots F') /\ Permutation (outl F) (outl F').

(* ---- clades (Tree.get_clades / GraphToCladesVisitor): one set of data indices per clone ---- *)
Fixpoint clades_t (t : tree) : list (list nat) :=
  match t with Node o ks => points t :: flat_map clades_t ks end.
Definition clades (F : forest) : list (list nat) := flat_map clades_t (roots F).
(* frozenset equality of data-index lists / of families of them *)
Definition same_set (a b : list nat) : Prop := forall x, In x a <-> In x b.
Definition same_family (A B : list (list nat)) : Prop :=
  (forall a, In a A -> exists b, In b B /\ same_set a b) /\ (forall b, In b B -> exists a, In a A /\ same_set a b).
(* Tree.__eq__ *)
Definition tree_eq (F F' : forest) : Prop := same_family (clades F) (clades F') /\ same_set (outl F) (outl F').
(* well-formed: every data index once, every clone non-empty *)
Fixpoint nonempty (t : tree) : Prop :=
  match t with Node o ks => o <> [] /\ (fix all (l : list tree) : Prop := match l with [] => True | k :: r => nonempty k /\ all r end) ks end.
Definition wf (F : forest) : Prop := NoDup (fpoints F) /\ Forall nonempty (roots F).

(* ======================================================================= *)
(* 2. IMPL: transliteration of the code paths                               *)
(* ======================================================================= *)

(* graph nodes other than the virtual root, in DFS order *)
Fixpoint flat (t : tree) : list tree :=
  match t with Node o ks => Node o ks :: flat_map flat ks end.
Definition nodes (F : forest) : list tree := flat_map flat (roots F).
(* Tree.get_number_of_nodes: graph.num_nodes() - 1 *)
Definition get_number_of_nodes (F : forest) : nat := length (nodes F).
(* Tree.get_number_of_descendants(node) *)
Definition get_number_of_descendants (t : tree) : nat := (length (flat t) - 1)%nat.
(* Tree.multiplicity: sum over graph.node_indices() (virtual root included) of log_factorial(out_degree) *)
Definition multiplicity (F : forest) : Qc :=
  qfact (length (roots F)) * prodq (map (fun n => qfact (length (kids n))) (nodes F)).
(* Tree.node_data: dictionary node -> data list; the bool marks the outlier key (-1) *)
Definition node_data (F : forest) : list (bool * list nat) :=
  map (fun n => (false, own n)) (nodes F) ++ [(true, outl F)].

(* FSCRPDistribution._alpha_and_CRP_prior_log_p_compute *)
Definition alpha_crp (alpha : Qc) (F : forest) : Qc * nat :=
  let num_nodes := get_number_of_nodes F in
  (alpha ^ num_nodes
   * prodq (map (fun kv => qfact (length (snd kv) - 1)) (filter (fun kv => negb (fst kv)) (node_data F))),
   num_nodes).

(* Python truthiness of an optional float / int argument: None, a log value of exactly 0.0 (linear 1), and 0 are falsy *)
Definition falsyQ (o : option Qc) : bool :=
  match o with None => true | Some v => if Qc_eq_dec v 1 then true else false end.
Definition falsyN (o : option nat) : bool :=
  match o with None => true | Some n => Nat.eqb n 0 end.

(* `if not log_p or not num_nodes: recompute` *)
Definition start_values (alpha : Qc) (F : forest) (log_p : option Qc) (num_nodes : option nat) : Qc * nat :=
  match log_p, num_nodes with
  | Some l, Some n => if falsyQ log_p || falsyN num_nodes then alpha_crp alpha F else (l, n)
  | _, _ => alpha_crp alpha F
  end.
(* `if not multiplicity: multiplicity = tree.multiplicity` *)
Definition mult_value (F : forest) (mu : option Qc) : Qc :=
  match mu with Some m => if falsyQ mu then multiplicity F else m | None => multiplicity F end.

(* FSCRPDistribution.log_p;  (num_nodes - 1) * log(num_nodes + 1) is -0.0 for num_nodes = 0, as is the nat power *)
Definition prior_log_p (alpha : Qc) (F : forest) (log_p : option Qc) (num_nodes : option nat) (mu : option Qc) : Qc :=
  let '(lp, nn) := start_values alpha F log_p num_nodes in
  let m := mult_value F mu in
  lp * / (qn (nn + 1) ^ (nn - 1)) * / m.

(* FSCRPDistribution._compute_z_term, line by line *)
Definition z_term (c : Qc) (num_roots num_nodes : nat) : Qc :=
  let log_one : Qc := 1 in
  let a_term := log_one ^ num_nodes in
  let la := log_one in
  match num_roots with
  | O => a_term
  | _ =>
      let r_num := log_one / (c ^ num_roots) in
      let r_den := log_one / (c ^ 1) in
      let r_num := la * (1 - r_num / la) in
      let r_den := la * (1 - r_den / la) in
      a_term * (r_num / r_den)
  end.
(* FSCRPDistribution._compute_r_term *)
Definition r_term (c : Qc) (num_roots num_nodes : nat) : Qc :=
  let z := z_term c num_roots num_nodes in
  let num_roots := match num_roots with O => 1%nat | _ => num_roots end in
  1 / (z * c ^ (num_roots - 1)).

(* FSCRPDistribution.log_p_one *)
Definition prior_log_p_one (alpha c : Qc) (F : forest) (log_p : option Qc) (num_nodes : option nat) (mu : option Qc) : Qc :=
  let '(lp, nn) := start_values alpha F log_p num_nodes in
  let m := mult_value F mu in
  let tree_roots := roots F in
  let r := r_term c (length tree_roots) nn in
  let num_ways :=
    fold_left (fun acc root => let cur := (get_number_of_descendants root + 1)%nat in acc * qn cur ^ (cur - 1))
              tree_roots 1 in
  lp * (/ num_ways * r) * / m.

(* FSCRPDistribution.compute_both_log_p_and_log_p_one_priors *)
Definition prior_both (alpha c : Qc) (F : forest) : Qc * Qc :=
  let '(start, nn) := alpha_crp alpha F in
  let m := multiplicity F in
  (prior_log_p alpha F (Some start) (Some nn) (Some m), prior_log_p_one alpha c F (Some start) (Some nn) (Some m)).

(* phyclone.data.pyclone.compute_outlier_prob: p == 0 returns the log-domain sentinel 0 (linear 1) *)
Definition compute_outlier_prob (p : Qc) (size : nat) : Qc * Qc :=
  if Qc_eq_dec p 0 then (1, 1) else (p ^ size, (1 - p) ^ size).

(* np.logaddexp.accumulate *)
Fixpoint accum_from (acc : Qc) (l : list Qc) : list Qc :=
  match l with [] => [] | x :: r => (acc + x) :: accum_from (acc + x) r end.
Definition accumulate (l : list Qc) : list Qc :=
  match l with [] => [] | x :: r => x :: accum_from x r end.
(* DataPoint.__init__: log_prior = -log G; tmp = value + log_prior; sub = accumulate(tmp);
   sum over samples of logsumexp(sub + log_prior) *)
Definition outlier_marginal_prob (val : list (list Qc)) : Qc :=
  prodq (map (fun v => let prior := / qn (length v) in
                       sumq (map (fun s => s * prior) (accumulate (map (fun x => x * prior) v)))) val).

(* the DataPoint attributes read by the densities (linear domain) *)
Record idp : Type := mkIDP { i_op : Qc; i_opn : Qc; i_omarg : Qc }.
Definition data_point (d : dpoint) : idp :=
  let '(op, opn) := compute_outlier_prob (dp_p d) (dp_size d) in
  mkIDP op opn (outlier_marginal_prob (dp_val d)).

(* TreeJointDistribution.outlier_prior: `if data_point.outlier_prob != 0` tests the LOG value *)
Definition outlier_prior (P : nat -> idp) (nd : list (bool * list nat)) : Qc :=
  fold_left (fun (acc : Qc) (kv : bool * list nat) =>
    fold_left (fun (acc : Qc) (i : nat) =>
      if Qc_eq_dec (i_op (P i)) 1 then acc
      else if fst kv then acc * i_op (P i) else acc * i_opn (P i)) (snd kv) acc) nd 1.

Definition has_children (F : forest) : bool := Nat.ltb 0 (length (roots F)).

(* TreeJointDistribution.log_p *)
Definition impl_log_p (alpha : Qc) (D : nat -> dpoint) (F : forest) (rootR : list (list Qc)) : Qc :=
  let P := fun i => data_point (D i) in
  let nd := node_data F in
  let lp := prior_log_p alpha F None None None in
  let lp := lp * outlier_prior P nd in
  let lp := if has_children F then fold_left (fun acc row => acc * sumq row) rootR lp else lp in
  fold_left (fun acc i => acc * i_omarg (P i)) (outl F) lp.

(* TreeJointDistribution.log_p_one *)
Definition impl_log_p_one (alpha c : Qc) (D : nat -> dpoint) (F : forest) (rootR : list (list Qc)) : Qc :=
  let P := fun i => data_point (D i) in
  let nd := node_data F in
  let lp := prior_log_p_one alpha c F None None None in
  let lp := lp * outlier_prior P nd in
  let lp := if has_children F then fold_left (fun acc row => acc * last row 0) rootR lp else lp in
  fold_left (fun acc i => acc * i_omarg (P i)) (outl F) lp.

(* TreeJointDistribution.compute_both_log_p_and_log_p_one *)
Definition impl_both (alpha c : Qc) (D : nat -> dpoint) (F : forest) (rootR : list (list Qc)) : Qc * Qc :=
  let P := fun i => data_point (D i) in
  let nd := node_data F in
  let '(lp, lp1) := prior_both alpha c F in
  let op := outlier_prior P nd in
  let lp := lp * op in
  let lp1 := lp1 * op in
  let both : Qc * Qc :=
    if has_children F
    then fold_left (fun acc row => (fst acc * sumq row, snd acc * last row 0)) rootR (lp, lp1)
    else (lp, lp1) in
  fold_left (fun acc i => (fst acc * i_omarg (P i), snd acc * i_omarg (P i))) (outl F) both.

(* the default c_const *)
Definition c_default : Qc := Q2Qc 1000.
(* precondition on the data points of a forest: 0 <= p < 1, cluster size >= 1 *)
Definition dp_ok (d : dpoint) : Prop := 0 <= dp_p d /\ dp_p d < 1 /\ (1 <= dp_size d)%nat.

(* ---- a concrete instance used by the non-vacuity examples of Properties/C03.v ---- *)
Definition exD (i : nat) : dpoint := mkDP (Q2Qc (1#10)) (1 + i mod 2) [[Q2Qc (1#2); Q2Qc (1#4); Q2Qc (3#4)]].
Definition exF : forest := mkF [Node [0] [Node [1;2] []; Node [3] []]; Node [4] []]%nat [5%nat].
Definition exF' : forest := mkF [Node [4] []; Node [0] [Node [3] []; Node [2;1] []]]%nat [5%nat].
Definition exR : list (list Qc) := [[Q2Qc (1#20); Q2Qc (1#30); Q2Qc (1#40)]].
