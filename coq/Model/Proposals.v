(* C08 model: the three SMC proposals as distributions over placements of the next data point.
   Mirrors phyclone/smc/kernels/{bootstrap,semi_adapted,fully_adapted}.py (sample() and log_p()) at the
   repaired commit; the pinned bootstrap density for an outliers-only parent is kept as [boot_dens_pinned].

   A parent state is summarised by: first (no parent particle), R = number of top-level clones, has_clones
   (the parent tree has at least one clone; with R = 0 and a parent this means "outliers only").
   A placement: into top-level clone i, a new clone above the subset S of top-level clones, or the outlier set.

   Modelling step (validated by the exact-enumeration correspondence): `rng.choice(roots, k, replace=False)` is
   modelled as a uniform k-subset (the code only uses the set of drawn children). *)
From PV Require Export Model.Gibbs.
From Coq Require Import Bool.

Definition half : Qc := Q2Qc (1 # 2).

Inductive place := Existing (i : nat) | NewOver (sub : list nat) | Outlier.

Fixpoint subsets_k {A} (k : nat) (l : list A) : list (list A) :=
  match k, l with
  | O, _ => [[]]
  | S k', [] => []
  | S k', x :: r => map (cons x) (subsets_k k' r) ++ subsets_k (S k') r
  end.
Fixpoint C (n k : nat) : nat :=
  match k, n with
  | O, _ => 1
  | S k', O => 0
  | S k', S n' => C n' k' + C n' (S k')
  end.

Definition roots_of (R : nat) : list nat := seq 0 R.
(* all placements: the independent description of the support *)
Definition new_places (R : nat) : list place :=
  flat_map (fun k => map NewOver (subsets_k k (roots_of R))) (seq 0 (S R)).
Definition all_places (R : nat) (outliers_on : bool) : list place :=
  map Existing (roots_of R) ++ new_places R ++ (if outliers_on then [Outlier] else []).

(* uniform new-clone draw: k uniform in 0..R, then a uniform k-subset of the top-level clones *)
Definition new_draw (R : nat) : dist place :=
  bind (uniform (seq 0 (S R))) (fun k => dmap NewOver (uniform (subsets_k k (roots_of R)))).

Section Boot.
Variable op : Qc.          (* outlier proposal probability, 0 <= op < 1 *)
(* u ~ U(0,1) compared against thresholds: a three-way split with the given probabilities *)
Definition boot_sample (first : bool) (R : nat) : dist place :=
  if first || Nat.eqb R 0 then [(NewOver [], 1 - op); (Outlier, op)]
  else scale ((1 - op) * half) (dmap Existing (uniform (roots_of R)))
       ++ scale ((1 - op) * half) (new_draw R)
       ++ [(Outlier, op)].
Definition boot_dens (first : bool) (R : nat) (p : place) : Qc :=
  match p with
  | Outlier => op
  | Existing _ => (1 - op) * half / qn R
  | NewOver sub =>
      if first || Nat.eqb R 0 then 1 - op
      else (1 - op) * half / (qn (S R) * qn (C R (length sub)))
  end.
(* pinned commit: the outliers-only parent (not first, R = 0) reported (1 - op) / 2 *)
Definition boot_dens_pinned (first : bool) (R : nat) (p : place) : Qc :=
  match p with
  | NewOver sub => if first then 1 - op else if Nat.eqb R 0 then (1 - op) * half
                 else (1 - op) * half / (qn (S R) * qn (C R (length sub)))
  | _ => boot_dens first R p
  end.
End Boot.

Section Adapted.
Variable gam : place -> Qc.    (* target value of the tree obtained by each placement *)
(* fully adapted: every placement, weighted by the target *)
Definition full_sample (R : nat) (on : bool) : dist place := gibbs gam (all_places R on).
Definition full_dens (R : nat) (on : bool) (p : place) : Qc := gam p / total gam (all_places R on).
(* semi adapted *)
Definition semi_exist (R : nat) (on : bool) : list place :=
  map Existing (roots_of R) ++ (if on then [Outlier] else []).
Definition semi_sample (R : nat) (on : bool) : dist place :=
  if Nat.eqb R 0 then gibbs gam ((if on then [Outlier] else []) ++ [NewOver []])
  else scale half (gibbs gam (semi_exist R on)) ++ scale half (new_draw R).
Definition semi_dens (R : nat) (on : bool) (p : place) : Qc :=
  if Nat.eqb R 0 then gam p / total gam ((if on then [Outlier] else []) ++ [NewOver []])
  else match p with
       | NewOver sub => half / (qn (S R) * qn (C R (length sub)))
       | _ => half * (gam p / total gam (semi_exist R on))
       end.
End Adapted.

(* incremental weights along a path: targets g_0 .. g_T (with g_0 the empty-tree value), proposal probabilities q_1..q_T *)
Fixpoint path_weights (g0 : Qc) (gs qs : list Qc) : list Qc :=
  match gs, qs with
  | g :: gs', q :: qs' => (g / g0 / q) :: path_weights g gs' qs'
  | _, _ => []
  end.
Fixpoint prodq (l : list Qc) : Qc := match l with [] => 1 | x :: r => x * prodq r end.
