(* C17 model: the input loader of phyclone/data/pyclone.py (load_pyclone_data and the cluster grouping of
   load_data / _create_clustered_data_arr), on tables as pandas presents them.

   Identifiers are lists of naturals compared lexicographically: a string identifier is its list of code
   points (Python's str order); an identifier column that pandas parses as integers is the one-element
   list [k] (numeric order).  sample_id is always a string (the code forces `astype(str)`).

   _remove_cn_zero_mutations                          -> [cn_pos]
   samples = sorted(df["sample_id"].unique())         -> [samples_of] (of what remains)
   _remove_duplicated_and_partially_absent_mutations  -> [complete]  (a COUNT test: rows per mutation = #samples)
   _process_required_cols_on_df                       -> [tc_of], [er_of] (column-level defaults)
   _create_loaded_pyclone_data_dict                   -> [load_muts], [load_samples], [cell]
        (sort by mutation id; per sample in sorted sample order; group.at[sample, col] needs exactly one row:
         none -> KeyError, several -> a Series and then ValueError; both are [Crash])
   get_major_cn_prior's MajorCopyNumberError          -> [Reject]
   load_data (enumerate -> idx; clusters sorted)      -> [load], [cluster_points]
   Definitions only. *)
From PV Require Export Base.Dist.

Definition ident : Type := list nat.

Fixpoint id_cmp (a b : ident) : comparison :=
  match a, b with
  | [], [] => Eq
  | [], _ :: _ => Lt
  | _ :: _, [] => Gt
  | x :: a', y :: b' => match Nat.compare x y with Eq => id_cmp a' b' | c => c end
  end.
Definition id_eqb (a b : ident) : bool := match id_cmp a b with Eq => true | _ => false end.
Definition id_ltb (a b : ident) : bool := match id_cmp a b with Lt => true | _ => false end.

(* sorted list of the distinct elements: sorted(set(...)) *)
Fixpoint insert_u (x : ident) (l : list ident) : list ident :=
  match l with
  | [] => [x]
  | y :: r => match id_cmp x y with Lt => x :: l | Eq => l | Gt => y :: insert_u x r end
  end.
Definition sort_u (l : list ident) : list ident := fold_right insert_u [] l.

Record row : Type := mkRow {
  r_mid : ident; r_sid : ident; r_ref : nat; r_alt : nat;
  r_major : nat; r_minor : nat; r_normal : nat;
  r_tc : Qc;   (* tumour_content cell, ignored when the column is absent *)
  r_er : Qc    (* error_rate cell, ignored when the column is absent *)
}.
Record table : Type := mkTable { rows : list row; has_tc : bool; has_er : bool }.

(* what is stored per (mutation, sample) *)
Record lrec : Type := mkL {
  l_ref : nat; l_alt : nat; l_major : nat; l_minor : nat; l_normal : nat; l_t : Qc; l_err : Qc
}.

Inductive outcome (A : Type) : Type :=
  | Ok (a : A)
  | Reject      (* MajorCopyNumberError *)
  | Crash.      (* KeyError / ValueError on the degenerate duplicate-plus-missing mix *)
Arguments Ok {A} a.
Arguments Reject {A}.
Arguments Crash {A}.

Definition cn_pos (l : list row) : list row := filter (fun r => (0 <? r_major r)%nat) l.
Definition samples_of (l : list row) : list ident := sort_u (map r_sid l).
Definition is_mut (m : ident) (r : row) : bool := id_eqb (r_mid r) m.
Definition is_cell (m s : ident) (r : row) : bool := id_eqb (r_mid r) m && id_eqb (r_sid r) s.
Definition count_mut (m : ident) (l : list row) : nat := length (filter (is_mut m) l).
Definition count_cell (m s : ident) (l : list row) : nat := length (filter (is_cell m s) l).
Definition complete (l : list row) : list row :=
  filter (fun r => Nat.eqb (count_mut (r_mid r) l) (length (samples_of l))) l.

Definition kept_rows (tb : table) : list row := complete (cn_pos (rows tb)).
Definition samples (tb : table) : list ident := samples_of (cn_pos (rows tb)).
Definition kept (tb : table) : list ident := sort_u (map r_mid (kept_rows tb)).

Definition tc_of (tb : table) (r : row) : Qc := if has_tc tb then r_tc r else 1.
Definition er_of (tb : table) (r : row) : Qc := if has_er tb then r_er r else Q2Qc (1 # 1000).
Definition rec_of (tb : table) (r : row) : lrec :=
  mkL (r_ref r) (r_alt r) (r_major r) (r_minor r) (r_normal r) (tc_of tb r) (er_of tb r).

(* group.at[sample, col]: defined when the group has exactly one row for that sample *)
Definition cell (m s : ident) (l : list row) : option row :=
  match filter (is_cell m s) l with [r] => Some r | _ => None end.

Fixpoint load_samples (tb : table) (l : list row) (m : ident) (ss : list ident) : outcome (list lrec) :=
  match ss with
  | [] => Ok []
  | s :: ss' =>
      match cell m s l with
      | None => Crash
      | Some r =>
          if (r_major r <? r_minor r)%nat then Reject
          else match load_samples tb l m ss' with
               | Ok recs => Ok (rec_of tb r :: recs)
               | Reject => Reject
               | Crash => Crash
               end
      end
  end.

Fixpoint load_muts (tb : table) (l : list row) (ss : list ident) (ms : list ident)
  : outcome (list (ident * list lrec)) :=
  match ms with
  | [] => Ok []
  | m :: ms' =>
      match load_samples tb l m ss with
      | Ok recs => match load_muts tb l ss ms' with
                   | Ok d => Ok ((m, recs) :: d)
                   | Reject => Reject
                   | Crash => Crash
                   end
      | Reject => Reject
      | Crash => Crash
      end
  end.

(* (sorted samples, data points in order: position = idx) *)
Definition load (tb : table) : outcome (list ident * list (ident * list lrec)) :=
  match load_muts tb (kept_rows tb) (samples tb) (kept tb) with
  | Ok d => Ok (samples tb, d)
  | Reject => Reject
  | Crash => Crash
  end.

(* ---- pre-clustered loading: data points are the clusters that have at least one loaded mutation, in
   sorted cluster-id order; members in loaded (sorted mutation) order.  None = KeyError (a loaded mutation
   is missing from the cluster file). *)
Fixpoint cluster_of (cl : list (ident * ident)) (m : ident) : option ident :=
  match cl with
  | [] => None
  | (m', c) :: r => if id_eqb m' m then Some c else cluster_of r m
  end.
Fixpoint assign_all (cl : list (ident * ident)) (ms : list ident) : option (list (ident * ident)) :=
  match ms with
  | [] => Some []
  | m :: r => match cluster_of cl m, assign_all cl r with
              | Some c, Some a => Some ((m, c) :: a)
              | _, _ => None
              end
  end.
Definition cluster_points (cl : list (ident * ident)) (ms : list ident) : option (list (ident * list ident)) :=
  match assign_all cl ms with
  | None => None
  | Some a =>
      Some (map (fun c => (c, map fst (filter (fun mc => id_eqb (snd mc) c) a))) (sort_u (map snd a)))
  end.
