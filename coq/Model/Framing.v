(* C20 model: the framing of a trace file = gzip member around one pickle stream.

   Pickle (phyclone/process_trace/process_trace.py: pickle.dump(results, fh) / pickle.load(fh)): a stack machine.
   Every opcode of the stream is abstracted to its stack effect (the classes below are derived from
   pickletools' own opcode table by the harness, so every opcode that occurs in a real trace is mapped):
     KNop          PROTO, FRAME                          no effect
     KPeek         MEMOIZE, BINPUT                       needs a value on top, leaves the stack unchanged
     KMark         MARK                                  pushes a mark
     KPopPush n    NONE, BININT, BINFLOAT, SHORT_BINUNICODE, BINBYTES, EMPTY_DICT, BINGET ... (n = 0),
                   TUPLE1/2/3, REDUCE, NEWOBJ, STACK_GLOBAL, BUILD, SETITEM, APPEND ...     pops n values, pushes one
     KPopMarkPush  TUPLE, LIST, DICT, FROZENSET          pops to the mark, pushes one
     KPopMarkKeep  APPENDS, SETITEMS, ADDITEMS           pops to the mark, extends the value below
     KStop         STOP                                  the value on top is the result; the ONLY way to produce one
   A stream is a list of symbols: an opcode byte carrying the length of its argument, followed by that many
   argument bytes - so a cut can fall inside an opcode's argument as well as between opcodes.

   Gzip: header ++ deflate body ++ 8-byte trailer (CRC32, ISIZE).  The decompressor is a parameter. *)
From PV Require Export Base.Dist.
From Coq Require Export Bool Arith.
Open Scope nat_scope.

Inductive kind : Type :=
| KNop | KPeek | KMark | KPopPush (n : nat) | KPopMarkPush | KPopMarkKeep | KStop.

Inductive sym : Type := Op (k : kind) (arglen : nat) | Arg.

Definition tok := (kind * nat)%type.
Definition enc_tok (o : tok) : list sym := Op (fst o) (snd o) :: repeat Arg (snd o).
Definition encode (ops : list tok) : list sym := flat_map enc_tok ops.

(* values: constructor tag and components (the content of scalars is irrelevant to framing) *)
Inductive val : Type := V (tag : nat) (kids : list val).
Inductive item : Type := IV (v : val) | IMark.

Inductive result : Type :=
| Ok (v : val)      (* STOP reached: pickle.load returns *)
| Eof               (* input exhausted before STOP: EOFError / UnpicklingError("pickle data was truncated") *)
| Bad.              (* malformed stream: UnpicklingError *)

Fixpoint pop_n (n : nat) (st : list item) : option (list val * list item) :=
  match n with
  | O => Some ([], st)
  | S m => match st with
           | IV v :: st' => match pop_n m st' with Some (vs, s) => Some (vs ++ [v], s) | None => None end
           | _ => None
           end
  end.

Fixpoint pop_to_mark (st : list item) : option (list val * list item) :=
  match st with
  | [] => None
  | IMark :: st' => Some ([], st')
  | IV v :: st' => match pop_to_mark st' with Some (vs, s) => Some (vs ++ [v], s) | None => None end
  end.

Definition step (k : kind) (st : list item) : option (list item) :=
  match k with
  | KNop => Some st
  | KPeek => match st with IV _ :: _ => Some st | _ => None end
  | KMark => Some (IMark :: st)
  | KPopPush n => match pop_n n st with Some (vs, s) => Some (IV (V 1 vs) :: s) | None => None end
  | KPopMarkPush => match pop_to_mark st with Some (vs, s) => Some (IV (V 2 vs) :: s) | None => None end
  | KPopMarkKeep => match pop_to_mark st with
                    | Some (vs, IV (V t ks) :: s) => Some (IV (V t (ks ++ vs)) :: s)
                    | _ => None
                    end
  | KStop => None
  end.

(* execute a complete opcode: STOP returns, anything else continues *)
Definition exec (k : kind) (st : list item) : result + list item :=
  match k with
  | KStop => inl (match st with IV v :: _ => Ok v | _ => Bad end)
  | _ => match step k st with Some st' => inr st' | None => inl Bad end
  end.

(* the unpickler, one symbol at a time.  need = Some (k, m): opcode k read, m argument bytes still to come *)
Fixpoint feed (l : list sym) (need : option (kind * nat)) (st : list item) : result :=
  match l with
  | [] => Eof
  | s :: rest =>
      match need, s with
      | None, Arg => Bad
      | None, Op k O => match exec k st with inl r => r | inr st' => feed rest None st' end
      | None, Op k (S m) => feed rest (Some (k, S m)) st
      | Some (k, S O), Arg => match exec k st with inl r => r | inr st' => feed rest None st' end
      | Some (k, S (S m)), Arg => feed rest (Some (k, S m)) st
      | Some _, _ => Bad
      end
  end.
Definition unpickle (l : list sym) : result := feed l None [].

(* number of complete opcodes in a stream (what pickletools.genops yields before it runs out of input) *)
Fixpoint complete_ops (l : list sym) (need : nat) (acc : nat) : nat :=
  match l with
  | [] => acc
  | Op _ O :: rest => complete_ops rest 0 (S acc)
  | Op _ (S m) :: rest => complete_ops rest (S m) acc
  | Arg :: rest => match need with
                   | S O => complete_ops rest 0 (S acc)
                   | S (S m) => complete_ops rest (S m) acc
                   | O => acc
                   end
  end.

Definition is_ok (r : result) : bool := match r with Ok _ => true | _ => false end.
Definition is_eof (r : result) : bool := match r with Eof => true | _ => false end.
Definition has_stop (ops : list tok) : bool := existsb (fun o => match fst o with KStop => true | _ => false end) ops.

(* ---- the gzip member ---------------------------------------------------------------------------- *)
Inductive outcome : Type := Value (v : val) | Error.

Section Gzip.
Variable byte : Type.
(* zlib's inflate on (a prefix of) the deflate body: the payload bytes it can produce, or a data error *)
Variable inflate : list byte -> option (list sym).

Record gzfile := mkGz { hdr : list byte; body : list byte; trailer : list byte }.
Definition file_bytes (f : gzfile) : list byte := hdr f ++ body f ++ trailer f.

(* gzip.GzipFile + pickle.load on the first n bytes of the file.
   - cut inside the header: error;
   - otherwise inflate what is there of the body and run the unpickler on the produced payload: it returns at STOP
     without asking for more bytes (the trailer is then never looked at); if it asks for more, the gzip reader
     raises (truncated body / truncated trailer) or, for the complete file, reports end of file and the unpickler
     raises "Ran out of input". *)
Definition read_prefix (f : gzfile) (n : nat) : outcome :=
  if n <? length (hdr f) then Error
  else match inflate (firstn (n - length (hdr f)) (body f)) with
       | None => Error
       | Some payload => match unpickle payload with Ok v => Value v | _ => Error end
       end.
Definition read_file (f : gzfile) : outcome := read_prefix f (length (file_bytes f)).
End Gzip.
Arguments mkGz {byte}. Arguments hdr {byte}. Arguments body {byte}. Arguments trailer {byte}.

(* ---- instances used by the examples in Properties/C20.v ------------------------------------------------ *)
(* PROTO 4, FRAME, EMPTY_DICT, MEMOIZE, BININT1 0, EMPTY_DICT, MEMOIZE, SHORT_BINUNICODE "trace", MEMOIZE,
   EMPTY_LIST, MEMOIZE, MARK, BINFLOAT, BINFLOAT, APPENDS, SETITEM, SETITEM, STOP *)
Definition demo_ops : list tok :=
  [(KNop, 1); (KNop, 8); (KPopPush 0, 0); (KPeek, 0); (KPopPush 0, 1); (KPopPush 0, 0); (KPeek, 0);
   (KPopPush 0, 6); (KPeek, 0); (KPopPush 0, 0); (KPeek, 0); (KMark, 0); (KPopPush 0, 8); (KPopPush 0, 8);
   (KPopMarkKeep, 0); (KPopPush 3, 0); (KPopPush 3, 0)].
Definition stop_tok : tok := (KStop, 0).
Definition demo_file : gzfile sym :=
  mkGz (repeat Arg 10) (encode (demo_ops ++ [stop_tok])) (repeat Arg 8).
(* a decoder WITHOUT an end marker: accepts the value on top of the stack at end of input *)
Fixpoint lenient (l : list tok) (st : list item) : result :=
  match l with
  | [] => match st with IV v :: _ => Ok v | _ => Eof end
  | (k, _) :: rest => match exec k st with inl r => r | inr st' => lenient rest st' end
  end.
