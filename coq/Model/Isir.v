(* Iterated sampling-importance-resampling over whole paths: the particle-Gibbs update when no
   resampling happens (threshold 0).  Slot 0 holds the retained path, N-1 fresh paths are drawn i.i.d. from the
   path proposal Q, the outcome is drawn in proportion to the path weights w = gamma / Q. *)
From PV Require Export Base.Dist.

Section ISIR.
Context {A : Type}.
Variable Q : dist A.
Variable w : A -> Qc.

Fixpoint iid (n : nat) : dist (list A) :=
  match n with O => ret [] | S k => bind Q (fun a => dmap (cons a) (iid k)) end.
Fixpoint sumw (l : list A) : Qc := match l with [] => 0 | x :: r => w x + sumw r end.
Definition select (l : list A) : dist A := map (fun a => (a, w a / sumw l)) l.
Definition isir (n : nat) (xstar : A) : dist A := bind (iid n) (fun l => select (xstar :: l)).
(* the unnormalised target gamma = w * Q as a measure *)
Definition gamma_eff : dist A := map (fun p => (fst p, snd p * w (fst p))) Q.
End ISIR.
