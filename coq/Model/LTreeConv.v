(* Concrete, executable instance of the abstract recursion of Model/LTree.v and helpers for the generated
   correspondence cases (C06/C07/C15).

   [Sconv NS G]: phyclone/tree/utils.py compute_log_S in the linear domain, on flat vectors holding NS rows
   of G grid values: per row, D = truncated polynomial product of the children's r rows
   (np.convolve(a, b)[:G], folded as the code folds: conv(c0, c1), then conv(cj, acc)); S = running sum of D
   (np.logaddexp.accumulate).  One child: D is that child's row.  The 1e-100 floor and float rounding are
   not modelled (values are kept in a narrow range by the harness). *)
From PV Require Export Model.LTree Model.CaseUtil.
Open Scope Qc_scope.

Fixpoint padd (a b : vec) : vec :=
  match a, b with [], _ => b | _, [] => a | x :: a', y :: b' => (x + y) :: padd a' b' end.
Fixpoint pmul (a b : vec) : vec :=
  match a with [] => [] | x :: a' => padd (map (Qcmult x) b) (0 :: pmul a' b) end.
Definition convG (G : nat) (a b : vec) : vec := firstn G (pmul a b).
Fixpoint psums (acc : Qc) (v : vec) : vec :=
  match v with [] => [] | x :: r => (acc + x) :: psums (acc + x) r end.
Definition row (G i : nat) (v : vec) : vec := firstn G (skipn (i * G) v).
Definition Drow (G : nat) (rows : list vec) : vec :=
  match rows with [] => [] | c0 :: rest => fold_left (fun acc c => convG G c acc) rest c0 end.
Definition Sconv (NS G : nat) (rs : list vec) : vec :=
  flat_map (fun i => psums 0 (Drow G (map (row G i) rs))) (seq 0 NS).
Definition cprior (NS G : nat) : vec := repeat (/ qn G) (NS * G).
Definition cone (NS G : nat) : vec := repeat 1 (NS * G).

Open Scope nat_scope.

(* ---- building a tree from a shape, children first, as pv.trees.build_tree does --------------------- *)
Inductive spec : Type := SNode (sown : list dp) (skids : list spec).

Section Conc.
Variables NS G : nat.
Let Sf := Sconv NS G.
Let prior := cprior NS G.
Let vone := cone NS G.

Fixpoint build_n (s : spec) (t : ltree) : option (nat * ltree) :=
  match s with
  | SNode o ks =>
      match (fix go (ks : list spec) (t : ltree) : option (list nat * ltree) :=
               match ks with [] => Some ([], t) | k :: rest =>
                 match build_n k t with
                 | Some (l, t1) => match go rest t1 with Some (ls, t2) => Some (l :: ls, t2) | None => None end
                 | None => None end end) ks t with
      | Some (ls, t1) =>
          match create_root_node Sf prior ls o t1 with Some t2 => Some (num_nodes t1, t2) | None => None end
      | None => None end
  end.
Fixpoint build_f (ss : list spec) (t : ltree) : option ltree :=
  match ss with [] => Some t | s :: rest =>
    match build_n s t with Some (_, t1) => build_f rest t1 | None => None end end.
Definition build (ss : list spec) (outliers : list dp) : option ltree :=
  match build_f ss (empty_tree vone) with
  | Some t => hand_over Sf prior outliers t
  | None => None end.

(* ---- edits addressed by data-point handles ----------------------------------------------------------
   Node names are arbitrary; the harness names a clone by (any) data index it owns. *)
Fixpoint lbl_of_point_n (i : nat) (n : lnode) : option nat :=
  match n with LNode l o _ _ ks =>
    if has_idx i o then Some l
    else (fix go (ks : list lnode) := match ks with [] => None | k :: rest =>
            match lbl_of_point_n i k with Some y => Some y | None => go rest end end) ks end.
Fixpoint lbl_of_point_f (i : nat) (ns : list lnode) : option nat :=
  match ns with [] => None | k :: rest =>
    match lbl_of_point_n i k with Some y => Some y | None => lbl_of_point_f i rest end end.
Definition hlbl (h : nat) (t : ltree) : option nat := lbl_of_point_f h (troots t).
(* handle of a place: None = outliers / virtual root *)
Definition hplace (h : option nat) (t : ltree) : option (option nat) :=
  match h with None => Some None | Some i => option_map Some (hlbl i t) end.
Fixpoint hlbls (hs : list nat) (t : ltree) : option (list nat) :=
  match hs with [] => Some [] | h :: rest =>
    match hlbl h t, hlbls rest t with Some l, Some ls => Some (l :: ls) | _, _ => None end end.

Inductive hedit : Type :=
| HNewClone (kids : list nat) (data : list dp)       (* create_root_node(children, data) *)
| HNewCloneAdd (kids : list nat) (d : dp)            (* n = create_root_node(children); add_data_point_to_node(d, n) *)
| HAddPoint (d : dp) (h : option nat)
| HMovePoint (i : nat) (dst : option nat)            (* source = wherever i currently is *)
| HPruneRegraft (x : nat) (parent : option nat)
| HSubtreeResample (x : option nat) (ss : list spec) (outliers : list dp)
| HRelabel | HCopy | HToFromDict | HUpdate.

Definition where_is (i : nat) (t : ltree) : option (option nat) :=
  if has_idx i (outl t) then Some None else option_map Some (hlbl i t).

Definition resolve (e : hedit) (t : ltree) : option (list edit) :=
  match e with
  | HNewClone ks data => option_map (fun ls => [NewClone ls data]) (hlbls ks t)
  | HNewCloneAdd ks d => option_map (fun ls => [NewClone ls []; AddPoint d (Some (num_nodes t))]) (hlbls ks t)
  | HAddPoint d h => option_map (fun x => [AddPoint d x]) (hplace h t)
  | HMovePoint i dst =>
      match where_is i t, hplace dst t with Some s, Some d => Some [MovePoint i s d] | _, _ => None end
  | HPruneRegraft x par =>
      match hlbl x t, hplace par t with Some l, Some p => Some [PruneRegraft l p] | _, _ => None end
  | HSubtreeResample x ss outliers =>
      match hplace x t, build ss outliers with Some l, Some s => Some [SubtreeResample l s] | _, _ => None end
  | HRelabel => Some [Relabel] | HCopy => Some [Copy] | HToFromDict => Some [ToFromDict] | HUpdate => Some [Update]
  end.
Definition hstep (e : hedit) (t : ltree) : option ltree :=
  match resolve e t with Some es => run Sf prior vone es t | None => None end.
Fixpoint hrun (es : list hedit) (t : ltree) : option ltree :=
  match es with [] => Some t | e :: rest => match hstep e t with Some t' => hrun rest t' | None => None end end.
(* the states after every edit (for per-step comparison) *)
Fixpoint htrace (es : list hedit) (t : ltree) : list (option ltree) :=
  match es with [] => [] | e :: rest =>
    match hstep e t with Some t' => Some t' :: htrace rest t' | None => [None] end end.

(* ---- comparing a model tree with an observation of the real Tree ------------------------------------
   one record per clone: (handle, parent handle, own indices, exp(log_p), exp(log_r)); o_names: the real name of
   the clone owning each handle.

   Node names are arbitrary: WHICH clone gets which name in relabel_nodes / in the graft renaming depends on
   rustworkx' traversal order, which the model does not reproduce.  The SET of names after an edit is
   determined by the names before it, so the comparison checks the name set after every edit and then renames
   the model's clones as the real tree named them ([resync]) before the next edit. *)
Definition obsnode : Type := (nat * option nat * list nat * list Q * list Q)%type.
Record obs : Type := mkObs { o_nodes : list obsnode; o_outl : list nat; o_rootr : list Q; o_labels : list nat;
                             o_names : list (nat * nat) }.

Fixpoint resync_n (names : list (nat * nat)) (n : lnode) : lnode :=
  match n with LNode l o p r ks =>
    LNode (match find (fun hn => has_idx (fst hn) o) names with Some hn => snd hn | None => l end) o p r
          (map (resync_n names) ks) end.
Definition resync (names : list (nat * nat)) (t : ltree) : ltree :=
  mkT (map (resync_n names) (troots t)) (rootr t) (outl t) (LTree.last t).

Definition tol : Q := (1 # 100000000)%Q.
Fixpoint vclose (a : vec) (b : list Q) : bool :=
  match a, b with [], [] => true | x :: a', y :: b' => qcclose tol x y && vclose a' b' | _, _ => false end.
Definition chk_node (t : ltree) (o : obsnode) : bool :=
  match o with (h, par, ownI, p, r) =>
    match hlbl h t with
    | Some l =>
        match find_f l (troots t), parent_of l t, hplace par t with
        | Some n, Some mp, Some ip =>
            set_eqb Nat.eqb (idxs (own n)) ownI && vclose (pp n) p && vclose (rr n) r
            && match mp, ip with None, None => true | Some a, Some b => a =? b | _, _ => false end
        | _, _, _ => false end
    | None => false end end.
Definition chk_tree (t : ltree) (o : obs) : bool :=
  (length (labels t) =? length (o_nodes o))
  && forallb (chk_node t) (o_nodes o)
  && set_eqb Nat.eqb (idxs (outl t)) (o_outl o)
  && (length (outl t) =? length (o_outl o))
  && match troots t with [] => true | _ => vclose (rootr t) (o_rootr o) end
  && set_eqb Nat.eqb (labels t) (o_labels o).
(* run a history, comparing after every edit; the model raises exactly when the implementation does *)
Fixpoint hcheck (es : list hedit) (os : list (option obs)) (t : ltree) : bool :=
  match es, os with
  | [], [] => true
  | e :: es', o :: os' =>
      match hstep e t, o with
      | Some t', Some ob => chk_tree t' ob && hcheck es' os' (resync (o_names ob) t')
      | None, None => true
      | _, _ => false end
  | _, _ => false
  end.
(* per-step verdicts, for diagnosis *)
Fixpoint hcheck_steps (es : list hedit) (os : list (option obs)) (t : ltree) : list bool :=
  match es, os with
  | e :: es', o :: os' =>
      match hstep e t, o with
      | Some t', Some ob => chk_tree t' ob :: hcheck_steps es' os' (resync (o_names ob) t')
      | None, None => [true]
      | _, _ => [false] end
  | _, _ => []
  end.
End Conc.

(* a deliberately wrong variant of TreeNode.add_data_point (p is multiplied, r is not), used only by the
   sensitivity example in Properties/C06.v: with it the node's own r is stale, because
   _update_path_to_root starts at the parent *)
Definition node_add_stale (d : dp) (n : lnode) : lnode :=
  match n with LNode l o p r ks => LNode l (o ++ [d]) (vmul p (dp_val d)) r ks end.

Fixpoint nodupb (l : list nat) : bool :=
  match l with [] => true | x :: r => negb (existsb (Nat.eqb x) r) && nodupb r end.
