(* The data-point Gibbs move on an assignment model: the tree shape (list of clone ids) is fixed, a state
   assigns every data point to Some clone or to None (the outlier set).  Mirrors DataPointSampler.sample_tree:
   a point is resampled only if its current holder keeps at least one point; candidates = the point placed in
   every clone, plus the outlier set when the option is on; weights = the target. *)
From PV Require Export Model.Gibbs.
From Coq Require Import Bool.

Definition holder := option nat.
Definition hold_eqb (a b : holder) : bool :=
  match a, b with Some x, Some y => Nat.eqb x y | None, None => true | _, _ => false end.
Definition state := list (nat * holder).   (* data point -> holder, fixed key order *)

Fixpoint lookup (s : state) (x : nat) : holder :=
  match s with [] => None | (y, h) :: r => if Nat.eqb x y then h else lookup r x end.
Fixpoint set_pt (s : state) (x : nat) (h : holder) : state :=
  match s with [] => [] | (y, h') :: r => if Nat.eqb x y then (y, h) :: r else (y, h') :: set_pt r x h end.
Definition members (s : state) (h : holder) : nat := length (filter (fun p => hold_eqb (snd p) h) s).

Section Move.
Variable clones : list nat.        (* the clones of the (fixed) tree *)
Variable outliers_on : bool.
Variable gamma : state -> Qc.
(* pinned_guard = true models the pinned commit (the "keeps a point" rule is also applied to the outlier set);
   false models the repaired rule (outliers are exempt) *)
Variable pinned_guard : bool.

Definition holders : list holder := map Some clones ++ (if outliers_on then [None] else []).
Definition cand (x : nat) (s : state) : list state := map (set_pt s x) holders.
Definition movable (x : nat) (s : state) : bool :=
  match lookup s x with
  | None => if pinned_guard then Nat.ltb 1 (members s None) else true
  | Some c => Nat.ltb 1 (members s (Some c))
  end.
Definition dp_step (x : nat) (s : state) : dist state :=
  if movable x s then gibbs gamma (cand x s) else ret s.
End Move.
