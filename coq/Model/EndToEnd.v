(* End-to-end target of the particle-Gibbs theorem: the state space of C01's assembled theorem is the list of relation
   tables [forests n on] (Proofs/GrammarPG.v); the FS-CRP density of C03 (Model/Density.v: spec_log_p_one) is defined on
   rose forests (Model/Perm.v) with the data term read off the root vector of C02's recursion (Model/Marginal.v).
   This file connects the three:

     fstep / frun      the placement grammar executed on ROSE forests (same letters, same indexing of the top-level clones
                       as Model/Grammar.v's gstep: root i of the forest is the clone represented by [nth i groots]);
     forest_of_table   a rose forest for a table: run the table's own word (genc) along its first compatible order;
     mtree_of, rootR_of  the forest with its data as C02's multi-sample tree, and the per-sample root vectors;
     gam_fscrp         exp(log_p_one) of the table's forest: C03's specification on C02's root vectors.

   Everything is executable (the harness compares gam_fscrp with the real TreeJointDistribution.log_p_one on every
   enumerated forest).  Proofs are in Proofs/EndToEnd*.v. *)
From PV Require Export Model.Perm Model.Density Model.Grammar Proofs.GrammarTable Proofs.GrammarPG Proofs.GrammarPerm.
From PV Require Model.Marginal.
From Coq Require Import Bool.

(* ---- the grammar on rose forests ---------------------------------------------------------------------------- *)
Definition add_own (x : nat) (t : tree) : tree := match t with Node o ks => Node (o ++ [x]) ks end.

Fixpoint upd_nth {A} (i : nat) (f : A -> A) (l : list A) : list A :=
  match l, i with
  | [], _ => []
  | a :: r, O => f a :: r
  | a :: r, S j => a :: upd_nth j f r
  end.

(* the trees at the positions listed in idx, and the trees at the other positions (both in list order; the order of a
   clone's children is immaterial for every quantity defined on forests here) *)
Fixpoint pickt_from (k : nat) (l : list tree) (idx : list nat) : list tree :=
  match l with
  | [] => []
  | t :: r => if memb k idx then t :: pickt_from (S k) r idx else pickt_from (S k) r idx
  end.
Fixpoint dropt_from (k : nat) (l : list tree) (idx : list nat) : list tree :=
  match l with
  | [] => []
  | t :: r => if memb k idx then dropt_from (S k) r idx else t :: dropt_from (S k) r idx
  end.
Definition pickt (l : list tree) (idx : list nat) : list tree := pickt_from 0 l idx.
Definition dropt (l : list tree) (idx : list nat) : list tree := dropt_from 0 l idx.

Definition fstep (F : forest) (x : nat) (a : place) : forest :=
  match a with
  | Existing i => mkF (upd_nth i (add_own x) (roots F)) (outl F)
  | NewOver sub => mkF (Node [x] (pickt (roots F) sub) :: dropt (roots F) sub) (outl F)
  | Outlier => mkF (roots F) (outl F ++ [x])
  end.

Definition f0 : forest := mkF [] [].
Fixpoint frun (F : forest) (sig : list nat) (w : list place) : forest :=
  match sig, w with
  | x :: sig', a :: w' => frun (fstep F x a) sig' w'
  | _, _ => F
  end.

(* ---- a rose forest for a table -------------------------------------------------------------------------------- *)
Definition first_order (n : nat) (t : list (list bool)) : list nat :=
  match filter (fun sg => cb sg t) (gorders n) with sg :: _ => sg | [] => seq 0 n end.
Definition forest_of_table (n : nat) (on : bool) (t : list (list bool)) : forest :=
  let sg := first_order n t in frun f0 sg (genc n on sg t).

(* ---- the data: C02's multi-sample tree of a forest, its root vectors ------------------------------------------- *)
Fixpoint mtree_of (D : nat -> dpoint) (t : tree) : Marginal.mtree :=
  match t with Node o ks => Marginal.Node (map (fun i => dp_val (D i)) o) (map (mtree_of D) ks) end.
Definition rootR_of (G nsamp : nat) (D : nat -> dpoint) (F : forest) : list (list Qc) :=
  Marginal.root_R_multi G nsamp (map (mtree_of D) (roots F)).

(* exp(log_p_one) of a rose forest / of a table *)
Definition dens_one (alpha c : Qc) (G nsamp : nat) (D : nat -> dpoint) (F : forest) : Qc :=
  spec_log_p_one alpha c D F (rootR_of G nsamp D F).
Definition dens_marg (alpha : Qc) (G nsamp : nat) (D : nat -> dpoint) (F : forest) : Qc :=
  spec_log_p alpha D F (rootR_of G nsamp D F).
Definition gam_fscrp (alpha c : Qc) (G nsamp : nat) (D : nat -> dpoint) (n : nat) (on : bool) (t : list (list bool)) : Qc :=
  dens_one alpha c G nsamp D (forest_of_table n on t).

(* the data are usable: positive grid likelihoods of the right shape, priors in [0, 1) *)
Definition data_ok (G nsamp : nat) (D : nat -> dpoint) : Prop :=
  forall i, dp_ok (D i) /\ length (dp_val (D i)) = nsamp
            /\ (forall v, In v (dp_val (D i)) -> length v = G /\ forall x, In x v -> 0 < x).
