(* C10 model: the max-product recursion with back-pointers and the traceback of phyclone/process_trace/map.py,
   per sample, over INTEGER scores (order and addition are all the argument uses; the harness feeds the
   implementation integer-valued log-likelihood grids, so float ties cannot interfere).

   Code -> model
     _compute_log_D_n : result[i] = max_{j<=i} child[j] + prev[i-j], scanning j upwards and accepting on `>=`
                        (so the LARGEST maximising j wins)                                   -> [dn_entry], [dn]
     compute_log_D    : starts from the ALL-ZERO vector and folds the children in order;
                        hence D[i] is the best total with children indices summing to AT MOST i
                        (the slack is absorbed by the zero start vector)                      -> [dchain], [compute_D]
     compute_log_S    : running maximum accepting on `>` (so the SMALLEST maximising index wins) -> [s_entry], [compute_S]
     compute_max_likelihood : R = log_p + S ; a leaf has S = zeros (the uniform definition below gives exactly
                        that for an empty child list)                                          -> [Rmax]
     set_max_assignment / _set_max_assignment : root fixed at the last grid index; children's total read from
                        log_S_choice; children visited last to first, each reading its index from its own
                        log_D_choice at the remaining total                                    -> [back], [child_idx], [trace]
     get_map_ccfs : idx / (G-1) ; get_map_clonal_prev : ccf minus the children's ccfs         -> [ccf], [prevs]
   The constant log_prior added to every entry of every log_p shifts all assignments' totals equally and is left out.
   Definitions only; proofs are in Proofs/MapDP*.v. *)
From PV Require Export Model.Marginal.
From Coq Require Export ZArith.
Local Open Scope Z_scope.

Definition zvec := list Z.
Definition zget (v : zvec) (i : nat) : Z := nth i v 0.
Definition zvec_of (G : nat) (f : nat -> Z) : zvec := map f (seq 0 G).
Definition zsum (l : list Z) : Z := fold_right Z.add 0 l.
(* a clone's payload: its integer log-likelihood grid (this sample's row of log_p) *)
Definition ztree := tree zvec.

(* _compute_log_D_n, entry i: (choice, value).  The code starts from -inf and accepts j = 0 unconditionally. *)
Definition dn_entry (r d : zvec) (i : nat) : nat * Z :=
  fold_left (fun cb j => let v := zget r j + zget d (i - j)%nat in if v >=? snd cb then (j, v) else cb)
            (seq 1 i) (0%nat, zget r 0 + zget d i).
Definition dn (G : nat) (r d : zvec) : list nat * zvec :=
  (map (fun i => fst (dn_entry r d i)) (seq 0 G), map (fun i => snd (dn_entry r d i)) (seq 0 G)).

(* compute_log_D: per-child choice tables and the final vector *)
Fixpoint dchain (G : nat) (rs : list zvec) (acc : zvec) : list (list nat) * zvec :=
  match rs with
  | [] => ([], acc)
  | r :: rest => let cd := dn G r acc in let res := dchain G rest (snd cd) in (fst cd :: fst res, snd res)
  end.
Definition compute_D (G : nat) (rs : list zvec) : list (list nat) * zvec := dchain G rs (zvec_of G (fun _ => 0)).

(* compute_log_S: entry j from entry j-1 *)
Fixpoint s_entry (d : zvec) (j : nat) : nat * Z :=
  match j with
  | O => (0%nat, zget d 0)
  | S j' => let p := s_entry d j' in if zget d j >? snd p then (j, zget d j) else p
  end.
Definition compute_S (G : nat) (d : zvec) : list nat * zvec :=
  (map (fun j => fst (s_entry d j)) (seq 0 G), map (fun j => snd (s_entry d j)) (seq 0 G)).

(* compute_max_likelihood *)
Fixpoint Rmax (G : nat) (t : ztree) : zvec :=
  match t with
  | Node lp ks =>
      let S := snd (compute_S G (snd (compute_D G (map (Rmax G) ks)))) in
      zvec_of G (fun x => zget lp x + zget S x)
  end.

(* _set_max_assignment, the loop over the children from the last to the first: returns the children's indices
   (in child order) and the unused remainder of the total *)
Fixpoint back (cs : list (list nat)) (t : nat) : list nat * nat :=
  match cs with
  | [] => ([], t)
  | c :: rest => let r := back rest t in let j := nth (snd r) c 0%nat in (j :: fst r, (snd r - j)%nat)
  end.
Definition child_idx (G : nat) (rs : list zvec) (x : nat) : list nat :=
  let cd := compute_D G rs in
  let t := nth x (fst (compute_S G (snd cd))) 0%nat in
  fst (back (fst cd) t).

Section Zip.
Context {A B : Type} (f : tree A -> nat -> B).
Fixpoint zipmap (ks : list (tree A)) (js : list nat) : list B :=
  match ks, js with
  | k :: r, j :: s => f k j :: zipmap r s
  | _, _ => []
  end.
End Zip.

(* the traced assignment of a subtree whose root sits at index x, in pre-order layout *)
Fixpoint trace (G : nat) (t : ztree) (x : nat) : list nat :=
  match t with
  | Node lp ks => x :: concat (zipmap (trace G) ks (child_idx G (map (Rmax G) ks) x))
  end.

(* get_map_node_ccfs_and_clonal_prev_dicts: the virtual root (constant log_p) fixed at the last grid index;
   the result lists the clones' indices in pre-order *)
Definition map_assign (G : nat) (f : list ztree) : list nat := tl (trace G (Node [] f) (G - 1)%nat).

(* ---- what is reported ---- *)
Definition ccf (G : nat) (i : nat) : Qc := (qn i / qn (G - 1)%nat)%Qc.
Fixpoint prevs (G : nat) (t : ztree) (v : list nat) : list Qc :=
  match t with
  | Node _ ks => (ccf G (hd 0%nat v) - sumq (map (ccf G) (tops ks (tl v))))%Qc :: concat (segmap (prevs G) ks (tl v))
  end.
Definition fprevs (G : nat) (f : list ztree) (w : list nat) : list Qc := concat (segmap (prevs G) f w).

(* ---- the specification: total score of an assignment (sum over clones of log_p at the assigned index) ---- *)
Fixpoint score (t : ztree) (v : list nat) : Z :=
  match t with
  | Node lp ks => zget lp (hd 0%nat v) + zsum (segmap score ks (tl v))
  end.
Definition fscore (f : list ztree) (w : list nat) : Z := zsum (segmap score f w).
