(* C01 model: conditional SMC with adaptive multinomial resampling, as ConditionalSMCSampler runs it
   (repaired commit: first-step weights applied, retained particle re-inserted in slot 0 at every resampling),
   and the unconditional sampler it is compared with in the proof.

   A particle is the whole path so far (newest element first); PhyClone particles carry their whole tree, which
   determines the path once the data order is fixed.  [q p] proposes the next element given the path p,
   [om p'] is the incremental weight of the extended path p' (PhyClone: target ratio x permutation-density
   ratio / proposal probability; the last step includes the log_p_one correction).  Weights are kept
   unnormalised; after a resampling they are reset to 1 (the code resets to 1/N: only ratios matter).
   [rs] is the resampling criterion on the weighted swarm (relative ESS <= threshold): any symmetric predicate.

   Modelling step (validated by the exact-enumeration correspondence): the multinomial count vector laid out in
   particle order is modelled as i.i.d. categorical draws laid out in draw order; the slots other than slot 0
   are treated symmetrically by everything that follows. *)
From PV Require Export Base.Dist.
From Coq Require Import Bool.

Section CSMC.
Context {A : Type}.
Notation P := (list A).
Definition wp := (P * Qc)%type.           (* weighted particle *)
Definition swarm := list wp.

Variable q : P -> dist A.
Variable om : P -> Qc.
Variable rs : swarm -> bool.

Fixpoint seqdist {X} (ds : list (dist X)) : dist (list X) :=
  match ds with [] => ret [] | d :: r => bind d (fun x => dmap (cons x) (seqdist r)) end.
Fixpoint iidn {X} (k : nat) (d : dist X) : dist (list X) :=
  match k with O => ret [] | S k' => bind d (fun x => dmap (cons x) (iidn k' d)) end.

(* extend one weighted particle by a proposed element *)
Definition ext_w (pw : wp) : dist wp :=
  dmap (fun a => (a :: fst pw, snd pw * om (a :: fst pw))) (q (fst pw)).
Fixpoint sumw (s : swarm) : Qc := match s with [] => 0 | pw :: r => snd pw + sumw r end.
(* categorical draw of a particle in proportion to the weights *)
Definition cat (s : swarm) : dist P := map (fun pw => (fst pw, snd pw / sumw s)) s.
Definition fresh (l : list P) : swarm := map (fun p => (p, 1)) l.

(* ---- unconditional sampler; state = (product of mean weights at resampling times, swarm) ---- *)
Definition ustate := (Qc * swarm)%type.
Definition updU (zs : ustate) : dist ustate := dmap (fun s' => (fst zs, s')) (seqdist (map ext_w (snd zs))).
Definition resU (zs : ustate) : dist ustate :=
  if rs (snd zs)
  then dmap (fun l => (fst zs * (sumw (snd zs) / qn (length (snd zs))), fresh l)) (iidn (length (snd zs)) (cat (snd zs)))
  else ret zs.

(* ---- conditional sampler; state = (retained path so far, its weight, the other slots) ---- *)
Definition cstate := (P * Qc * swarm)%type.
Definition cswarm (st : cstate) : swarm := (fst (fst st), snd (fst st)) :: snd st.
Definition updC (a : A) (st : cstate) : dist cstate :=
  let x := a :: fst (fst st) in
  dmap (fun rest' => (x, snd (fst st) * om x, rest')) (seqdist (map ext_w (snd st))).
Definition resC (st : cstate) : dist cstate :=
  if rs (cswarm st)
  then dmap (fun l => (fst (fst st), 1, fresh l)) (iidn (length (snd st)) (cat (cswarm st)))
  else ret st.

Inductive op := Upd | Res.

(* run the remaining schedule; [rem] = the retained elements still to be added (oldest first) *)
Fixpoint runC (ops : list op) (st : cstate) (rem : list A) : dist cstate :=
  match ops with
  | [] => ret st
  | Res :: ops' => bind (resC st) (fun st' => runC ops' st' rem)
  | Upd :: ops' =>
      match rem with
      | [] => []                                   (* schedule longer than the retained path: lost mass *)
      | a :: rem' => bind (updC a st) (fun st' => runC ops' st' rem')
      end
  end.
Fixpoint runU (ops : list op) (zs : ustate) : dist ustate :=
  match ops with
  | [] => ret zs
  | Res :: ops' => bind (resU zs) (runU ops')
  | Upd :: ops' => bind (updU zs) (runU ops')
  end.

(* final draw in proportion to the weights *)
Definition select (s : swarm) : dist P := cat s.

(* first step *)
Definition init_d : dist wp := ext_w ([], 1).
(* the particle-Gibbs kernel for a retained path given oldest-first as a1 :: rem, with n other particles *)
Definition pg_kernel (n : nat) (ops : list op) (path : list A) : dist P :=
  match path with
  | [] => []
  | a1 :: rem =>
      bind (iidn n init_d) (fun rest =>
      bind (runC ops ([a1], om [a1], rest) rem) (fun st => select (cswarm st)))
  end.

(* the target as a measure on continuations: sum over the next k elements, weighted by q * om *)
Fixpoint Ggam (k : nat) (x : P) (F : list A -> Qc) : Qc :=
  match k with
  | O => F []
  | S k' => E (q x) (fun a => om (a :: x) * Ggam k' (a :: x) (fun rem => F (a :: rem)))
  end.
Fixpoint count_upd (ops : list op) : nat :=
  match ops with [] => O | Upd :: r => S (count_upd r) | Res :: r => count_upd r end.
End CSMC.
