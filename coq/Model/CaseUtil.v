(* Helpers for the generated correspondence files (coq/Gen/*.v): boolean comparisons evaluated by vm_compute. *)
From PV Require Export Base.Dist.
From Coq Require Export Bool.

Fixpoint list_eqb {A} (eqb : A -> A -> bool) (a b : list A) : bool :=
  match a, b with
  | [], [] => true
  | x :: a', y :: b' => eqb x y && list_eqb eqb a' b'
  | _, _ => false
  end.
Definition lnat_eqb := list_eqb Nat.eqb.
Definition mem {A} (eqb : A -> A -> bool) (x : A) (l : list A) : bool := existsb (eqb x) l.
Definition subset {A} (eqb : A -> A -> bool) (a b : list A) : bool := forallb (fun x => mem eqb x b) a.
Definition set_eqb {A} (eqb : A -> A -> bool) (a b : list A) : bool := subset eqb a b && subset eqb b a.

(* |a - b| <= tol * max(|b|, floor) on plain rationals *)
Definition qabs (x : Q) : Q := if Qle_bool 0 x then x else Qopp x.
Definition qclose (tol : Q) (a b : Q) : bool :=
  Qle_bool (qabs (a - b)) (tol * (qabs b + tol))%Q.
Definition qcclose (tol : Q) (a : Qc) (b : Q) : bool := qclose tol (this a) b.

(* probability mass a distribution puts on the outcomes selected by p *)
Definition pmass {X} (p : X -> bool) (d : dist X) : Qc :=
  E d (fun x => if p x then 1 else 0).

(* indices of the failing cases *)
Fixpoint failing_from (i : nat) (l : list bool) : list nat :=
  match l with [] => [] | b :: r => (if b then [] else [i]) ++ failing_from (S i) r end.
Definition failing := failing_from 0.
