(* Labelled layer: a model of phyclone.tree.Tree (tree.py, tree_node.py) with the cached recursion
   vectors as part of the state, so that staleness (C06) and well-formedness (C07) are expressible.

   Numbers are linear-domain rationals: log_p + value  ~  p * v,  log_p - value ~ p / v.
   A grid array of shape (samples, G) is one flat [vec] (row after row).  The recursion that turns the
   children's r vectors into the factor S (compute_log_S: truncated convolution + running sum) is the
   ABSTRACT section variable [Sf]; update_node_from_child_r_vals is
        r := p              when the node has no children   (np.copyto(log_r, log_p))
        r := p * S(rs)      otherwise                       (np.add(log_p, log_s, out=log_r)).
   A concrete executable S (truncated convolution) lives in Model/LTreeConv.v.

   Partiality: a function returns None exactly where the Python raises (KeyError on an unknown node name,
   ValueError of list.remove, the asserts, rustworkx NoEdgeBetweenNodes).  Conditions the code does NOT check
   but the samplers always meet are collected in [pre] (side conditions of the edit grammar).

   Modelling decisions (validated by the per-edit correspondence of harness/pv/props/C06.py, C07.py):
   - the four redundant views of the real Tree (graph payloads, two name<->index maps, _data) are one rose
     tree here; their mutual consistency is checked on the real object by pv.trees.abs_impl (C07);
   - sibling order and rustworkx' traversal order are not modelled: children are kept in the order in which
     the model attaches them, relabel_nodes / the graft renaming walk that order.  Which clone gets which
     name may therefore differ from the real tree; the SET of names after an edit does not;
   - the graft's clash test `node_name in self._data` is modelled as "is the name of a live clone (or was
     just given to a grafted one)": equal as long as every clone owns data (then every live name is a key of
     _data) and no stale key survives (remove_subtree / relabel_nodes delete them);
   - copy() is the identity: aliasing between a tree and its copy is tested on the real object, not modelled. *)
From PV Require Export Base.Dist.
From Coq Require Export Bool PeanoNat Permutation.
Open Scope nat_scope.

Definition vec := list Qc.
Fixpoint map2 {A B C} (f : A -> B -> C) (a : list A) (b : list B) : list C :=
  match a, b with x :: a', y :: b' => f x y :: map2 f a' b' | _, _ => [] end.
Definition vmul : vec -> vec -> vec := map2 Qcmult.
Definition vdiv : vec -> vec -> vec := map2 Qcdiv.

Record dp : Type := mkDP { dp_idx : nat; dp_val : vec }.

Inductive lnode : Type := LNode (lbl : nat) (own : list dp) (p r : vec) (kids : list lnode).
Definition lbl (n : lnode) := match n with LNode l _ _ _ _ => l end.
Definition own (n : lnode) := match n with LNode _ o _ _ _ => o end.
Definition pp (n : lnode) := match n with LNode _ _ p _ _ => p end.
Definition rr (n : lnode) := match n with LNode _ _ _ r _ => r end.
Definition kids (n : lnode) := match n with LNode _ _ _ _ k => k end.

(* _last_node_added_to: None | the outlier name -1 | a clone name *)
Inductive lastw : Type := WNone | WOut | WNode (x : nat).

(* troots: children of the virtual root; rootr: the virtual root's cached log_r (its log_p is the prior, no data
   is ever attached to it); outl: _data[-1]; last: _last_node_added_to *)
Record ltree : Type := mkT { troots : list lnode; rootr : vec; outl : list dp; last : lastw }.

(* ---- pre-order measures --------------------------------------------------- *)
Fixpoint labels_n (n : lnode) : list nat :=
  match n with LNode l _ _ _ ks => l :: flat_map labels_n ks end.
Fixpoint points_n (n : lnode) : list dp :=
  match n with LNode _ o _ _ ks => o ++ flat_map points_n ks end.
Fixpoint size_n (n : lnode) : nat :=
  match n with LNode _ _ _ _ ks => S (list_sum (map size_n ks)) end.
Definition labels_f (ns : list lnode) := flat_map labels_n ns.
Definition points_f (ns : list lnode) := flat_map points_n ns.
Definition size_f (ns : list lnode) := list_sum (map size_n ns).
Definition labels (t : ltree) := labels_f (troots t).
Definition points (t : ltree) : list dp := points_f (troots t) ++ outl t.   (* every data point held by the tree *)
Definition idxs (l : list dp) := map dp_idx l.
Definition num_nodes (t : ltree) := length (labels t).                      (* graph.num_nodes() - 1 *)

Fixpoint find_n (x : nat) (n : lnode) : option lnode :=
  match n with
  | LNode l _ _ _ ks =>
      if l =? x then Some n
      else (fix go (ks : list lnode) := match ks with [] => None | k :: rest =>
              match find_n x k with Some m => Some m | None => go rest end end) ks
  end.
Fixpoint find_f (x : nat) (ns : list lnode) : option lnode :=
  match ns with [] => None | k :: rest => match find_n x k with Some m => Some m | None => find_f x rest end end.

(* re-assign labels from a list, in pre-order (used by relabel_nodes and by the graft renaming) *)
Fixpoint set_labels_n (ls : list nat) (n : lnode) : lnode :=
  match n with
  | LNode l o p r ks =>
      LNode (hd l ls) o p r
        ((fix go (ls : list nat) (ks : list lnode) := match ks with [] => [] | k :: rest =>
            set_labels_n (firstn (size_n k) ls) k :: go (skipn (size_n k) ls) rest end) (tl ls) ks)
  end.
Fixpoint set_labels_f (ls : list nat) (ns : list lnode) : list lnode :=
  match ns with [] => [] | k :: rest =>
    set_labels_n (firstn (size_n k) ls) k :: set_labels_f (skipn (size_n k) ls) rest end.

Definition has_idx (i : nat) (l : list dp) : bool := existsb (fun d => dp_idx d =? i) l.
Fixpoint take_idx (i : nat) (l : list dp) : option (dp * list dp) :=       (* list.remove: first match *)
  match l with [] => None | d :: rest =>
    if dp_idx d =? i then Some (d, rest)
    else match take_idx i rest with Some (e, r') => Some (e, d :: r') | None => None end end.

Section Ops.
Variable Sf : list vec -> vec.    (* compute_log_S on the children's r vectors, linear domain *)
Variable prior : vec.            (* np.full(grid_size, -log G) *)
Variable vone : vec.             (* np.zeros(grid_size): log_r of a TreeNode straight from its constructor *)

Definition Fr (p : vec) (rs : list vec) : vec := match rs with [] => p | _ => vmul p (Sf rs) end.
(* p of a node holding the data list o: the prior times the values in insertion order (add_data_point[_list]) *)
Definition pfresh (o : list dp) : vec := fold_left (fun acc d => vmul acc (dp_val d)) o prior.
Definition set_root (t : ltree) (rs : list lnode) : ltree :=               (* new child list + _update_node(root) *)
  mkT rs (Fr prior (map rr rs)) (outl t) (last t).

(* ---- from-scratch values -------------------------------------------------- *)
(* Tree.update(): post-order _update_node everywhere (r only; p is left as it is) *)
Fixpoint update_n (n : lnode) : lnode :=
  match n with LNode l o p _ ks => let ks' := map update_n ks in LNode l o p (Fr p (map rr ks')) ks' end.
Definition update (t : ltree) : ltree := set_root t (map update_n (troots t)).
(* a freshly built tree of the same shape and assignment: p from the data, r bottom-up *)
Fixpoint fresh_n (n : lnode) : lnode :=
  match n with LNode l o _ _ ks =>
    let ks' := map fresh_n ks in LNode l o (pfresh o) (Fr (pfresh o) (map rr ks')) ks' end.
Definition fresh (t : ltree) : ltree := set_root t (map fresh_n (troots t)).

(* Tree(grid_size): the virtual root keeps the constructor's log_r = 0 (never updated) *)
Definition empty_tree : ltree := mkT [] vone [] WNone.

(* ---- the path-to-root traversal -------------------------------------------- *)
(* Replace the first (pre-order) node named x by the list [f n] inside its parent's child list and run
   _update_node on every proper ancestor, bottom-up.  None when x is not a node of the forest. *)
Section Mod.
Variable x : nat.
Variable f : lnode -> list lnode.
Fixpoint mod_n (n : lnode) : option (list lnode) :=
  match n with
  | LNode l o p r ks =>
      if l =? x then Some (f n)
      else match (fix go (ks : list lnode) : option (list lnode) := match ks with [] => None | k :: rest =>
                    match mod_n k with Some k' => Some (k' ++ rest)
                    | None => match go rest with Some r' => Some (k :: r') | None => None end end end) ks with
           | Some ks' => Some [LNode l o p (Fr p (map rr ks')) ks']
           | None => None
           end
  end.
Fixpoint mod_f (ns : list lnode) : option (list lnode) :=
  match ns with [] => None | k :: rest =>
    match mod_n k with Some k' => Some (k' ++ rest)
    | None => match mod_f rest with Some r' => Some (k :: r') | None => None end end end.
End Mod.
Definition mod_t (x : nat) (f : lnode -> list lnode) (t : ltree) : option ltree :=
  match mod_f x f (troots t) with Some rs => Some (set_root t rs) | None => None end.

(* ---- Tree methods ----------------------------------------------------------- *)
Definition in_tree (i : nat) (t : ltree) : bool := has_idx i (points t).    (* _is_data_point_in_tree *)

(* TreeNode.add_data_point: p and r are both multiplied in place; the node itself is NOT recomputed,
   _update_path_to_root starts at its parent *)
Definition node_add (d : dp) (n : lnode) : lnode :=
  match n with LNode l o p r ks => LNode l (o ++ [d]) (vmul p (dp_val d)) (vmul r (dp_val d)) ks end.
(* add_data_point_to_node(d, x): x = None is the outlier name -1 (add_data_point_to_outliers) *)
Definition add_data_point (d : dp) (x : option nat) (t : ltree) : option ltree :=
  if in_tree (dp_idx d) t then None            (* assert self._is_data_point_in_tree(data_point) == False *)
  else match x with
       | None => Some (mkT (troots t) (rootr t) (outl t ++ [d]) WOut)
       | Some y => match mod_t y (fun n => [node_add d n]) t with
                   | Some t' => Some (mkT (troots t') (rootr t') (outl t') (WNode y))
                   | None => None end
       end.

(* TreeNode.remove_data_point divides p only; _update_path_to_root starts at the node itself.
   [node_remove] is only applied to a node that holds the point (the caller checks through take_idx). *)
Definition node_remove (i : nat) (n : lnode) : lnode :=
  match n with LNode l o p r ks =>
    match take_idx i o with
    | Some (d, o') => let p' := vdiv p (dp_val d) in LNode l o' p' (Fr p' (map rr ks)) ks
    | None => n end end.
(* remove_data_point_from_node(d, x) with x = None the outlier name; returns the removed point too *)
Definition remove_data_point (i : nat) (x : option nat) (t : ltree) : option (dp * ltree) :=
  match x with
  | None => match take_idx i (outl t) with
            | Some (d, o') => Some (d, mkT (troots t) (rootr t) o' (last t)) | None => None end
  | Some y =>
      match find_f y (troots t) with
      | Some n => match take_idx i (own n) with
                  | Some (d, _) => option_map (fun t' => (d, t')) (mod_t y (fun n => [node_remove i n]) t)
                  | None => None end
      | None => None end
  end.

(* create_root_node(children, data): the new clone is named num_nodes - 1 (graph count minus the virtual
   root); each child must currently be a child of the virtual root (remove_edge raises otherwise, which also
   covers a repeated child); p from the data list, then _update_path_to_root(node).
   NOT checked by the code: that the name is unused and that the data points are new (see [pre]). *)
Fixpoint take_root (c : nat) (rs : list lnode) : option (lnode * list lnode) :=
  match rs with [] => None | k :: rest =>
    if lbl k =? c then Some (k, rest)
    else match take_root c rest with Some (m, r') => Some (m, k :: r') | None => None end end.
Fixpoint take_roots (cs : list nat) (rs : list lnode) : option (list lnode * list lnode) :=
  match cs with [] => Some ([], rs) | c :: cs' =>
    match take_root c rs with
    | Some (k, rs') => match take_roots cs' rs' with Some (sel, rem) => Some (k :: sel, rem) | None => None end
    | None => None end end.
Definition create_root_node (children : list nat) (data : list dp) (t : ltree) : option ltree :=
  match take_roots children (troots t) with
  | Some (sel, rem) =>
      let l := num_nodes t in
      let p' := pfresh data in
      let n := LNode l data p' (Fr p' (map rr sel)) sel in
      let t' := set_root t (rem ++ [n]) in
      Some (mkT (troots t') (rootr t') (outl t') (WNode l))
  | None => None end.

(* get_subtree(x): a new Tree holding a copy of the subtree, no outliers, last = None, then update().
   (get_subtree("root") is copy(): see [extract].) *)
Definition get_subtree (x : nat) (t : ltree) : option ltree :=
  match find_f x (troots t) with
  | Some n => Some (update (mkT [n] vone [] WNone))
  | None => None end.

(* Tree.__eq__: same clades and same outlier set *)
Definition clade_n (n : lnode) : list nat := idxs (points_n n).
Fixpoint clades_n (n : lnode) : list (list nat) :=
  match n with LNode _ _ _ _ ks => clade_n n :: flat_map clades_n ks end.
Definition clades (t : ltree) := flat_map clades_n (troots t).
Definition subsetb {A} (eqb : A -> A -> bool) (a b : list A) : bool := forallb (fun x => existsb (eqb x) b) a.
Definition seteqb {A} (eqb : A -> A -> bool) (a b : list A) : bool := subsetb eqb a b && subsetb eqb b a.
Definition tree_eqb (a b : ltree) : bool :=
  seteqb (seteqb Nat.eqb) (clades a) (clades b) && seteqb Nat.eqb (idxs (outl a)) (idxs (outl b)).

(* remove_subtree(sub): `if subtree == self: self.__init__(grid_size)` else the single root of sub names the
   node to cut (assert len(sub.roots) == 1); every name of sub is deleted from the maps, the node and its
   descendants leave the graph, _update_path_to_root(parent).  last is left as it is. *)
Definition remove_subtree (sub : ltree) (t : ltree) : option ltree :=
  if tree_eqb sub t then Some empty_tree
  else match troots sub with
       | [n] => mod_t (lbl n) (fun _ => []) t
       | _ => None end.

(* add_subtree(sub, parent): the roots of (a copy of) sub become children of parent (None = virtual root);
   a sub node whose name is already used gets max(all names)+1, +2, ...; last := sub.last (not renamed);
   sub's outliers are NOT taken over; _update_path_to_root(parent). *)
Fixpoint rename (used : list nat) (nx : nat) (ls : list nat) : list nat :=
  match ls with [] => [] | l :: rest =>
    if existsb (Nat.eqb l) used then S nx :: rename (S nx :: used) (S nx) rest
    else l :: rename (l :: used) nx rest end.
Definition first_label (a b : list nat) : nat := fold_right Nat.max 0 (a ++ b).
Definition graft_roots (t sub : ltree) : list lnode :=
  set_labels_f (rename (labels t) (first_label (labels t) (labels sub)) (labels sub)) (troots sub).
Definition node_graft (new : list lnode) (n : lnode) : lnode :=
  match n with LNode l o p r ks => let ks' := ks ++ new in LNode l o p (Fr p (map rr ks')) ks' end.
Definition add_subtree (sub : ltree) (parent : option nat) (t : ltree) : option ltree :=
  let new := graft_roots t sub in
  match (match parent with
         | None => Some (set_root t (troots t ++ new))
         | Some x => mod_t x (fun n => [node_graft new n]) t end) with
  | Some t' => Some (mkT (troots t') (rootr t') (outl t') (last sub))
  | None => None end.

(* relabel_nodes(): names 0,1,2,... in DFS pre-order; last is left as it is *)
Definition relabel_nodes (t : ltree) : ltree :=
  mkT (set_labels_f (seq 0 (size_f (troots t))) (troots t)) (rootr t) (outl t) (last t).

(* copy(): every container and every payload array is duplicated: the identity on values *)
Definition copy (t : ltree) : ltree := t.
(* Tree.from_dict(t.to_dict()) at the label level: payloads are rebuilt from the data lists
   (TreeNode + add_data_point_list), then update().  The index-level model is Model/DictForm.v. *)
Definition to_from_dict (t : ltree) : ltree := fresh t.

(* get_parent(x): Some None = the virtual root *)
Fixpoint parent_n (x : nat) (n : lnode) : option nat :=
  match n with LNode l _ _ _ ks =>
    if existsb (fun k => lbl k =? x) ks then Some l
    else (fix go (ks : list lnode) := match ks with [] => None | k :: rest =>
            match parent_n x k with Some y => Some y | None => go rest end end) ks end.
Fixpoint parent_f (x : nat) (ns : list lnode) : option nat :=
  match ns with [] => None | k :: rest => match parent_n x k with Some y => Some y | None => parent_f x rest end end.
Definition parent_of (x : nat) (t : ltree) : option (option nat) :=
  if existsb (fun k => lbl k =? x) (troots t) then Some None
  else option_map Some (parent_f x (troots t)).

(* ---- the edit grammar: what the samplers compose ------------------------------ *)
Inductive edit : Type :=
| NewClone (children : list nat) (data : list dp)   (* SMC proposals / retained path: create_root_node *)
| AddPoint (d : dp) (x : option nat)                (* add_data_point_to_node / _to_outliers (x = None) *)
| MovePoint (i : nat) (src dst : option nat)        (* DataPointSampler: copy; remove from src; add to dst (None = outliers) *)
| PruneRegraft (x : nat) (parent : option nat)      (* PruneRegraphSampler: copy; get_subtree; remove_subtree; copy; add_subtree; update *)
| SubtreeResample (x : option nat) (sub' : ltree)   (* ParticleGibbsSubtreeSampler, see subtree_resample *)
| Relabel | Copy | ToFromDict | Update.

Definition move_point (i : nat) (src dst : option nat) (t : ltree) : option ltree :=
  match remove_data_point i src (copy t) with
  | Some (d, t1) => add_data_point d dst t1 | None => None end.
Definition prune_regraft (x : nat) (parent : option nat) (t : ltree) : option ltree :=
  let t0 := copy t in
  match get_subtree x t0 with
  | Some sub => match remove_subtree sub t0 with
                | Some pruned => option_map update (add_subtree sub parent (copy pruned))
                | None => None end
  | None => None end.
(* data points appended to the outliers one by one (add_data_point_to_outliers) *)
Fixpoint hand_over (ds : list dp) (s : ltree) : option ltree :=
  match ds with [] => Some s | d :: rest =>
    match add_data_point d None s with Some s' => hand_over rest s' | None => None end end.
(* ParticleGibbsSubtreeSampler.sample_tree, first half: x = the subtree root (None = the virtual root:
   get_subtree("root") is a copy and remove_subtree then empties the tree); the remaining tree's outliers are
   handed to the subtree.  Result: (parent of x, subtree with all outliers, rest without outliers). *)
Definition extract (x : option nat) (t : ltree) : option (option nat * ltree * ltree) :=
  match x with
  | None => match remove_subtree (copy t) t with
            | Some rest => Some (None, copy t, rest) | None => None end
  | Some y =>
      match parent_of y t, get_subtree y t with
      | Some par, Some sub =>
          match remove_subtree sub t with
          | Some rest =>
              match hand_over (outl rest) sub with
              | Some sub1 => Some (par, sub1, mkT (troots rest) (rootr rest) [] (last rest))
              | None => None end
          | None => None end
      | _, _ => None end
  end.
(* second half (_correct_weights, for the particle that is returned): the conditional SMC has produced some
   tree sub' over the data of the extracted subtree (an arbitrary tree here; [pre] states what is assumed
   about it); sub' is grafted where the subtree was cut, its outliers are handed back, update(). *)
Definition subtree_resample (x : option nat) (sub' : ltree) (t : ltree) : option ltree :=
  match extract x t with
  | Some (par, _, rest) =>
      match add_subtree sub' par (copy rest) with
      | Some t1 => option_map update (hand_over (outl sub') t1)
      | None => None end
  | None => None end.

Definition step (e : edit) (t : ltree) : option ltree :=
  match e with
  | NewClone cs data => create_root_node cs data t
  | AddPoint d x => add_data_point d x t
  | MovePoint i s d => move_point i s d t
  | PruneRegraft x par => prune_regraft x par t
  | SubtreeResample x s => subtree_resample x s t
  | Relabel => Some (relabel_nodes t)
  | Copy => Some (copy t)
  | ToFromDict => Some (to_from_dict t)
  | Update => Some (update t)
  end.
(* a history: None as soon as one edit raises *)
Fixpoint run (es : list edit) (t : ltree) : option ltree :=
  match es with [] => Some t | e :: rest => match step e t with Some t' => run rest t' | None => None end end.

(* ---- invariants (statements; proofs in Proofs/LTree*.v) ------------------------- *)
(* C06: every cached vector equals the from-scratch value.  The virtual root's r is constrained only when
   it has children: Tree() leaves it at the constructor value while update() sets it to the prior, and no
   density reads it on a rootless tree. *)
Inductive okn : lnode -> Prop :=
| OkN l o p r ks : p = pfresh o -> r = Fr p (map rr ks) -> Forall okn ks -> okn (LNode l o p r ks).
Definition cache_ok (t : ltree) : Prop :=
  Forall okn (troots t) /\ (troots t <> [] -> rootr t = Fr prior (map rr (troots t))).
(* executable version of cache_ok (sound: Proofs/LTreeCache.v cache_okb_sound) *)
Definition qceqb (a b : Qc) : bool := Qeq_bool (this a) (this b).
Fixpoint veqb (a b : vec) : bool :=
  match a, b with [], [] => true | x :: a', y :: b' => qceqb x y && veqb a' b' | _, _ => false end.
Fixpoint oknb (n : lnode) : bool :=
  match n with LNode l o p r ks => veqb p (pfresh o) && veqb r (Fr p (map rr ks)) && forallb oknb ks end.
Definition cache_okb (t : ltree) : bool :=
  forallb oknb (troots t)
  && match troots t with [] => true | _ => veqb (rootr t) (Fr prior (map rr (troots t))) end.

(* what the joint densities read: the shape/assignment and, if the tree has clones, the root vector *)
Definition root_lik (t : ltree) : option vec := match troots t with [] => None | _ => Some (rootr t) end.

(* C07: names unique, every data point held exactly once (clones and outliers together) *)
Definition wf (t : ltree) : Prop := NoDup (labels t) /\ NoDup (idxs (points t)).

(* data values are positive grids of the right size (needed where the code subtracts a value) *)
Definition okd (N : nat) (d : dp) : Prop := length (dp_val d) = N /\ Forall (fun q => (0 < q)%Qc) (dp_val d).
Definition data_ok (N : nat) (t : ltree) : Prop := Forall (okd N) (points t).

(* side conditions of the grammar that the code does not check itself *)
Definition contiguous (t : ltree) : Prop := Forall (fun l => l < num_nodes t) (labels t).
Definition new_points (ds : list dp) (t : ltree) : Prop :=
  NoDup (idxs ds) /\ (forall i, In i (idxs ds) -> ~ In i (idxs (points t))).
(* what the grammar assumes about an edit in state t beyond what the code checks:
   - NewClone: names are 0..n-1 (true for every tree the SMC builds from scratch and after relabel_nodes),
     the data points are new;
   - SubtreeResample: the SMC result sub' is a sound tree over exactly the data of the extracted subtree. *)
Definition pre (e : edit) (t : ltree) : Prop :=
  match e with
  | NewClone _ data => contiguous t /\ new_points data t
  | SubtreeResample x s =>
      wf s /\ forall par s0 rest, extract x t = Some (par, s0, rest) -> Permutation (points s) (points s0)
  | _ => True
  end.
(* data introduced by an edit is positive and of the right size; a grafted SMC result has sound caches *)
Definition edit_ok (N : nat) (e : edit) : Prop :=
  match e with
  | NewClone _ data => Forall (okd N) data
  | AddPoint d _ => okd N d
  | SubtreeResample _ s => cache_ok s /\ data_ok N s
  | _ => True
  end.
(* the data points an edit is specified to add *)
Definition delta (e : edit) : list dp :=
  match e with NewClone _ data => data | AddPoint d _ => [d] | _ => [] end.
(* a history all of whose edits meet their side conditions when they are applied *)
Fixpoint pres (es : list edit) (t : ltree) : Prop :=
  match es with [] => True | e :: rest =>
    pre e t /\ forall t', step e t = Some t' -> pres rest t' end.
End Ops.
