(* C11 model: the MAP scan, the topology dictionary, ranking and the archive of
   phyclone/process_trace/process_trace.py (write_map_results, create_topology_dict_from_trace,
   count_topology, create_topology_dataframe, create_topologies_archive).

   A trace is the results dictionary in *insertion order* of its chain keys (run.py inserts chains in
   completion order): a list of (chain number, chain); a chain is the list of its entries
   (log_p_one, tree).  Trees are abstract keys with decidable equality (nat): the dictionary is keyed
   by Tree.__eq__/__hash__ = (clades, outliers), whose adequacy is property C03's business.
   Scores are integers (the harness writes integer-valued log_p_one, so no float ties by rounding).

   Definitions only; proofs live in Proofs/TraceSummary*.v. *)
From PV Require Export Base.Dist.
From Coq Require Export ZArith.
Local Open Scope Z_scope.

Definition entry := (Z * nat)%type.            (* (log_p_one, tree key) *)
Definition chain := list entry.
Definition trace := list (nat * chain).        (* (chain number, chain), dict insertion order *)

(* one visited entry: `for chain_num, chain in results.items(): for i, x in enumerate(chain["trace"])` *)
Record item := mkItem { ichain : nat; iidx : nat; iscore : Z; itree : nat }.

Fixpoint index_from {A} (i : nat) (l : list A) : list (nat * A) :=
  match l with [] => [] | x :: r => (i, x) :: index_from (S i) r end.
Definition chain_items (c : nat * chain) : list item :=
  map (fun p => mkItem (fst c) (fst p) (fst (snd p)) (snd (snd p))) (index_from 0%nat (snd c)).
(* the visiting order of both commands' double loop *)
Definition items (tr : trace) : list item := flat_map chain_items tr.

(* ---- write_map_results, map_type = joint-likelihood: strict `>`, so the first maximum wins.
   map_val starts at -inf: the first entry always replaces it.  No entry at all: the code indexes
   results[0]["trace"][0] and raises -> None. *)
Definition scan_step (st : option item) (x : item) : option item :=
  match st with
  | None => Some x
  | Some b => if iscore x >? iscore b then Some x else st
  end.
Definition map_scan (tr : trace) : option item := fold_left scan_step (items tr) None.

(* ---- count_topology: insertion-ordered dictionary keyed by tree *)
Record row := mkRow { rtree : nat; rcount : nat; rmax : Z; rchain : nat; riter : nat }.
Definition new_row (x : item) : row := mkRow (itree x) 1 (iscore x) (ichain x) (iidx x).
Definition upd_row (r : row) (x : item) : row :=
  if iscore x >? rmax r
  then mkRow (rtree r) (S (rcount r)) (iscore x) (ichain x) (iidx x)
  else mkRow (rtree r) (S (rcount r)) (rmax r) (rchain r) (riter r).
Fixpoint count_topology (rows : list row) (x : item) : list row :=
  match rows with
  | [] => [new_row x]
  | r :: rest => if Nat.eqb (rtree r) (itree x) then upd_row r x :: rest
                 else r :: count_topology rest x
  end.
Definition topologies (tr : trace) : list row := fold_left count_topology (items tr) [].

(* ---- create_topology_dataframe: sort_values(by=log_p_joint_max, ascending=False); ids t_0, t_1, ...
   Modelled as a stable insertion sort (pandas' order among equal keys is unspecified; the
   correspondence compares up to the order of tied rows). *)
Fixpoint insert_desc {A} (key : A -> Z) (r : A) (l : list A) : list A :=
  match l with
  | [] => [r]
  | h :: t => if key h <=? key r then r :: l else h :: insert_desc key r t
  end.
Definition sort_desc {A} (key : A -> Z) (l : list A) : list A := fold_right (insert_desc key) [] l.

Definition rank (rows : list row) : list row := sort_desc rmax rows.
Definition report (tr : trace) : list row := rank (topologies tr).

(* write_map_results, map_type = frequency: report sorted again by count, descending; first row *)
Definition freq_mode (tr : trace) : option row :=
  hd_error (sort_desc (fun r => Z.of_nat (rcount r)) (report tr)).

(* create_topologies_archive: a row is skipped iff its rank >= top_trees *)
Definition archive (k : nat) (tr : trace) : list row := firstn k (report tr).

(* helpers for statements *)
Definition class_count (t : nat) (l : list item) : nat := length (filter (fun x => Nat.eqb (itree x) t) l).
Fixpoint sum_counts (rows : list row) : nat := match rows with [] => 0%nat | r :: rest => (rcount r + sum_counts rest)%nat end.
(* what a row says, up to the pointer *)
Definition row_key (r : row) : nat * nat * Z := (rtree r, rcount r, rmax r).
