(* Index-level model of Tree.to_dict / Tree.from_dict (phyclone/tree/tree.py).

   The real Tree keeps a rustworkx graph whose node indices may have HOLES (indices freed by remove_subtree),
   two maps name <-> index, the per-name data lists and the name last added to.  to_dict keeps the edge list
   over graph indices, the two maps, the data lists and `last`; it drops the payloads (TreeNode objects with
   the cached arrays).  from_dict rebuilds:
     1. a new graph with the virtual root's payload at index 0;
     2. `if len(graph) > 0`: extend_from_edge_list creates every index 0..max mentioned by an edge (payload
        None), each data list (except the outlier / root keys) becomes a fresh TreeNode placed at
        node_idx[name] (KeyError if the name is unmapped, IndexError if the index does not exist), and every
        index that is not a key of node_idx_rev is removed again (with its edges);
     3. update().
   Steps 1-2 are [from_dict_graph].  Step 3 is rustworkx' DFS (outside the model, DESIGN 2.4): it is taken to
   be the label-level [update] of Model/LTree.v applied through the abstraction function [abs]
   (post-order _update_node on everything reachable from the root) - so [from_dict] returns the labelled tree.
   The harness ties this to the real from_dict on trees with holes and on outlier-only trees. *)
From PV Require Export Model.LTree.
Open Scope nat_scope.

Inductive name : Type := NRoot | NOut | NClone (l : nat).     (* "root", -1, clone names *)
Definition name_eqb (a b : name) : bool :=
  match a, b with NRoot, NRoot => true | NOut, NOut => true | NClone x, NClone y => x =? y | _, _ => false end.

Record payload : Type := mkPl { pl_name : name; pl_pts : list nat; pl_p : vec; pl_r : vec }.
(* graph index -> None (no such node) | Some None (node without payload) | Some (Some payload) *)
Definition nodemap := nat -> option (option payload).

Record gstate : Type := mkG {
  g_nodes : nodemap;
  g_edges : list (nat * nat);            (* (parent index, child index) *)
  g_n2i : list (name * nat);             (* _node_indices *)
  g_i2n : list (nat * name);             (* _node_indices_rev *)
  g_data : list (name * list dp);        (* _data *)
  g_last : lastw }.
Record tdict : Type := mkD {
  d_edges : list (nat * nat); d_n2i : list (name * nat); d_i2n : list (nat * name);
  d_data : list (name * list dp); d_last : lastw }.

Definition to_dict (g : gstate) : tdict := mkD (g_edges g) (g_n2i g) (g_i2n g) (g_data g) (g_last g).

Fixpoint lookup_n (nm : name) (m : list (name * nat)) : option nat :=
  match m with [] => None | (k, v) :: r => if name_eqb k nm then Some v else lookup_n nm r end.
Fixpoint lookup_i (i : nat) (m : list (nat * name)) : option name :=
  match m with [] => None | (k, v) :: r => if k =? i then Some v else lookup_i i r end.
Fixpoint data_of (nm : name) (m : list (name * list dp)) : list dp :=
  match m with [] => [] | (k, v) :: r => if name_eqb k nm then v else data_of nm r end.
Definition mapped (m : list (nat * name)) (i : nat) : bool := match lookup_i i m with Some _ => true | None => false end.
Definition children (edges : list (nat * nat)) (i : nat) : list nat :=
  map snd (filter (fun e => fst e =? i) edges).
Definition max_index (edges : list (nat * nat)) : nat :=
  fold_right (fun e m => Nat.max (Nat.max (fst e) (snd e)) m) 0 edges.
Fixpoint mapM {A B} (f : A -> option B) (l : list A) : option (list B) :=
  match l with [] => Some [] | a :: r =>
    match f a, mapM f r with Some b, Some bs => Some (b :: bs) | _, _ => None end end.

Section Dict.
Variable Sf : list vec -> vec.
Variable prior : vec.
Variable vone : vec.

(* a TreeNode straight from its constructor + add_data_point_list: p = prior * values, r = 1 * values *)
Definition rraw (o : list dp) : vec := fold_left (fun acc d => vmul acc (dp_val d)) o vone.
Definition new_payload (nm : name) (dl : list dp) : payload := mkPl nm (idxs dl) (pfresh prior dl) (rraw dl).
Definition root_payload : payload := mkPl NRoot [] prior vone.
Definition set_node (n : nodemap) (i : nat) (v : option payload) : nodemap := fun j => if j =? i then Some v else n j.

Definition attach (n2i : list (name * nat)) (acc : option nodemap) (e : name * list dp) : option nodemap :=
  match acc with
  | None => None
  | Some n =>
      match fst e with
      | NClone l =>
          match lookup_n (NClone l) n2i with
          | None => None                                   (* KeyError: node_idxs[node] *)
          | Some i => match n i with
                      | None => None                       (* IndexError: new_graph[node_idx] = ... *)
                      | Some _ => Some (set_node n i (Some (new_payload (NClone l) (snd e)))) end
          end
      | _ => Some n                                        (* outlier / root keys are skipped *)
      end
  end.

(* the `if len(tree_dict["graph"]) > 0` branch *)
Definition rebuild (d : tdict) : option gstate :=
  let M := max_index (d_edges d) in
  let n1 : nodemap := fun i => if i =? 0 then Some (Some root_payload) else if i <=? M then Some None else None in
  match fold_left (attach (d_n2i d)) (d_data d) (Some n1) with
  | None => None
  | Some n2 =>
      let keep := mapped (d_i2n d) in
      let n3 : nodemap := fun i => if keep i then n2 i else None in                   (* remove_nodes_from(holes) *)
      let es := filter (fun e => keep (fst e) && keep (snd e)) (d_edges d) in        (* ... takes their edges along *)
      Some (mkG n3 es (d_n2i d) (d_i2n d) (d_data d) (d_last d))
  end.
Definition bare_root (d : tdict) : gstate :=
  mkG (fun i => if i =? 0 then Some (Some root_payload) else None) [] (d_n2i d) (d_i2n d) (d_data d) (d_last d).
Definition from_dict_graph (d : tdict) : option gstate :=
  match d_edges d with [] => Some (bare_root d) | _ :: _ => rebuild d end.

(* ---- abstraction: the labelled tree a consistent index-level state denotes ---------------------------- *)
Fixpoint abs_n (fuel : nat) (g : gstate) (i : nat) : option lnode :=
  match fuel with
  | O => None
  | S f =>
      match g_nodes g i, lookup_i i (g_i2n g) with
      | Some (Some pl), Some (NClone l) =>
          match mapM (abs_n f g) (children (g_edges g) i) with
          | Some ks => Some (LNode l (data_of (NClone l) (g_data g)) (pl_p pl) (pl_r pl) ks)
          | None => None end
      | _, _ => None
      end
  end.
Definition fuel_of (g : gstate) : nat := S (length (g_edges g)).
Definition abs (g : gstate) : option ltree :=
  match lookup_n NRoot (g_n2i g) with
  | Some ri =>
      match g_nodes g ri, mapM (abs_n (fuel_of g) g) (children (g_edges g) ri) with
      | Some (Some pl), Some rs => Some (mkT rs (pl_r pl) (data_of NOut (g_data g)) (g_last g))
      | _, _ => None end
  | None => None
  end.

(* from_dict = rebuild the graph, then update() *)
Definition from_dict (d : tdict) : option ltree :=
  match from_dict_graph d with
  | Some g => option_map (update Sf prior) (abs g)
  | None => None end.

(* ---- well-formed index-level states (what pv.trees.abs_impl checks on the real Tree) ------------------- *)
Definition gwf (g : gstate) : Prop :=
  lookup_n NRoot (g_n2i g) = Some 0
  /\ NoDup (map fst (g_data g))
  (* every clone name with a data list is mapped to an index that is a child end of an edge, and back *)
  /\ (forall l dl, In (NClone l, dl) (g_data g) ->
        exists i, lookup_n (NClone l) (g_n2i g) = Some i /\ lookup_i i (g_i2n g) = Some (NClone l)
                  /\ In i (map snd (g_edges g)) /\ i <> 0)
  (* every mapped clone index has a data list and the maps are inverse there *)
  /\ (forall i l, lookup_i i (g_i2n g) = Some (NClone l) ->
        lookup_n (NClone l) (g_n2i g) = Some i /\ In (NClone l) (map fst (g_data g)))
  (* edges only join mapped indices (holes have no edges) *)
  /\ (forall e, In e (g_edges g) -> mapped (g_i2n g) (fst e) = true /\ mapped (g_i2n g) (snd e) = true)
  /\ lookup_i 0 (g_i2n g) = Some NRoot.
End Dict.

(* executable version of gwf (sound: Proofs/DictFormProofs.v gwfb_sound) *)
Definition opt_nat_eqb (a : option nat) (b : nat) : bool := match a with Some x => x =? b | None => false end.
Definition opt_name_eqb (a : option name) (b : name) : bool := match a with Some x => name_eqb x b | None => false end.
Fixpoint nodup_names (l : list name) : bool :=
  match l with [] => true | x :: r => negb (existsb (name_eqb x) r) && nodup_names r end.
Definition gwfb (g : gstate) : bool :=
  opt_nat_eqb (lookup_n NRoot (g_n2i g)) 0
  && nodup_names (map fst (g_data g))
  && forallb (fun e => match fst e with
                       | NClone l => match lookup_n (NClone l) (g_n2i g) with
                                     | Some i => opt_name_eqb (lookup_i i (g_i2n g)) (NClone l)
                                                 && existsb (Nat.eqb i) (map snd (g_edges g)) && negb (i =? 0)
                                     | None => false end
                       | _ => true end) (g_data g)
  && forallb (fun e => match snd e with
                       | NClone l => opt_nat_eqb (lookup_n (NClone l) (g_n2i g)) (fst e)
                                     && existsb (name_eqb (NClone l)) (map fst (g_data g))
                       | _ => true end) (g_i2n g)
  && forallb (fun e => mapped (g_i2n g) (fst e) && mapped (g_i2n g) (snd e)) (g_edges g)
  && opt_name_eqb (lookup_i 0 (g_i2n g)) NRoot.
