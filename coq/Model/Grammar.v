(* The constructive grammar of the SMC: a clone forest is built by placing the data points one by one, each either
   into a top-level clone, as a new clone above a subset of the top-level clones, or as an outlier
   (phyclone/smc/kernels/base.py: ProposalDistribution._get_existing_node_tree / _get_new_node_tree / _get_outlier_tree,
   TreeHolder / Tree.create_root_node, add_data_point_to_node, add_data_point_to_outliers).

   A forest over data points is represented WITHOUT labels, by the relation it induces on the points:
     le x y  <->  x and y are both in clones and the clone of x is an ancestor of, or equal to, the clone of y
   (an outlier is related to nothing, not even to itself).  Placing a point only extends the relation by the new
   point's row and column - nothing recorded earlier is rewritten - so the state after k placements is the restriction
   of the final forest to the first k points.  That is what makes "every forest compatible with the order is reached by
   exactly one path" provable by induction on the order (Proofs/Grammar*.v) and supplies premise (i) of
   C01_pg_update_invariant for the real alphabet [all_places] of C08. *)
From PV Require Export Model.Proposals.
From Coq Require Import Bool.

Definition rel := nat -> nat -> bool.

Record gst := mkG {
  gpl : list nat;        (* the points placed so far, newest first *)
  gle : rel;             (* ancestor-or-equal between placed clone points *)
  groots : list nat      (* one representative (the first point placed) of every top-level clone *)
}.
Definition g0 : gst := mkG [] (fun _ _ => false) [].

Definition pick (d : nat) (l : list nat) (idx : list nat) : list nat := map (fun i => nth i l d) idx.
Definition memb (x : nat) (l : list nat) : bool := existsb (Nat.eqb x) l.

(* place point x according to letter a (indices refer to [groots]) *)
Definition gstep (s : gst) (x : nat) (a : place) : gst :=
  match a with
  | Existing i =>
      let y := nth i (groots s) x in
      mkG (x :: gpl s)
          (fun a b => if a =? x then (if b =? x then true else gle s y b) else if b =? x then gle s a y else gle s a b)
          (groots s)
  | NewOver sub =>
      let S := pick x (groots s) sub in
      mkG (x :: gpl s)
          (fun a b => if a =? x then ((b =? x) || existsb (fun r => gle s r b) S) else if b =? x then false else gle s a b)
          (x :: filter (fun r => negb (memb r S)) (groots s))
  | Outlier => mkG (x :: gpl s) (gle s) (groots s)
  end.

(* the letters available in a state: exactly C08's placement list for the current number of top-level clones *)
Definition gsupp (on : bool) (s : gst) : list place := all_places (length (groots s)) on.

(* run a word of letters along an order (oldest first); stops at the shorter of the two *)
Fixpoint grun (s : gst) (sig : list nat) (w : list place) : gst :=
  match sig, w with
  | x :: sig', a :: w' => grun (gstep s x a) sig' w'
  | _, _ => s
  end.

(* a word is valid along an order if every letter is available when it is used *)
Fixpoint gvalid (on : bool) (s : gst) (sig : list nat) (w : list place) : Prop :=
  match sig, w with
  | x :: sig', a :: w' => In a (gsupp on s) /\ gvalid on (gstep s x a) sig' w'
  | [], [] => True
  | _, _ => False
  end.

(* ---- specification, independent of the grammar ----------------------------------------------------------- *)
(* r is the ancestor-or-equal relation of a forest of non-empty clones over (a subset of) the points pts *)
Record wf (pts : list nat) (r : rel) : Prop := mkWf {
  wf_dom : forall x y, r x y = true -> In x pts /\ In y pts;
  wf_refl : forall x y, r x y = true -> r x x = true /\ r y y = true;
  wf_trans : forall x y z, r x y = true -> r y z = true -> r x z = true;
  wf_chain : forall a b x, r a x = true -> r b x = true -> r a b = true \/ r b a = true   (* the ancestors of a clone form a chain *)
}.
(* with outlier modelling off every point is in a clone *)
Definition no_outliers (pts : list nat) (r : rel) : Prop := forall x, In x pts -> r x x = true.

(* the order (given newest first) is compatible with the forest: when a point is placed none of the older points is in
   a strict ancestor of its clone, i.e. every clone's points come after all points of its descendants *)
Fixpoint compat (pl : list nat) (r : rel) : Prop :=
  match pl with
  | [] => True
  | x :: older => (forall z, In z older -> r z x = true -> r x z = true) /\ compat older r
  end.

(* ---- finite tables: the Leibniz-comparable form of a relation on the points 0..n-1 ----------------------------- *)
Definition tab (n : nat) (r : rel) : list (list bool) := map (fun x => map (r x) (seq 0 n)) (seq 0 n).
Definition tget (t : list (list bool)) : rel := fun x y => nth y (nth x t []) false.
