(* Executable comparisons for the generated correspondence files: the grammar's placement step against the trees the
   real proposals build (C08), and the retained path of the real conditional sampler as a word of the grammar (C01). *)
From PV Require Export Model.Grammar Model.CaseUtil.

Definition teqb : list (list bool) -> list (list bool) -> bool := list_eqb (list_eqb Bool.eqb).
(* r1 and r2 name the same clones of the forest t *)
Definition same_roots (t : list (list bool)) (r1 r2 : list nat) : bool :=
  (length r1 =? length r2) && forallb (fun a => existsb (fun b => tget t a b && tget t b a) r2) r1.

(* parent state given by its table, its placed points and one representative per top-level clone; obs = for every tree the
   real proposal can return: its table and one representative per top-level clone.  The model's placements of x must be
   exactly those trees, with the same top-level clones. *)
Definition chk_grammar (n : nat) (on : bool) (pl roots : list nat) (pt : list (list bool)) (x : nat)
                       (obs : list (list (list bool) * list nat)) : bool :=
  let s := mkG pl (tget pt) roots in
  let model := map (fun a => let s' := gstep s x a in (tab n (gle s'), groots s')) (gsupp on s) in
  let hit (m o : list (list bool) * list nat) := teqb (fst m) (fst o) && same_roots (fst m) (snd m) (snd o) in
  (length model =? length obs) && forallb (fun m => existsb (hit m) obs) model && forallb (fun o => existsb (fun m => hit m o) model) obs.

(* the trees along the retained path of the real sampler are reached by exactly one letter each *)
Fixpoint chk_path (n : nat) (on : bool) (s : gst) (sig : list nat) (tabs : list (list (list bool))) : bool :=
  match sig, tabs with
  | [], [] => true
  | x :: sig', t :: tabs' =>
      match filter (fun a => teqb (tab n (gle (gstep s x a))) t) (gsupp on s) with
      | [a] => chk_path n on (gstep s x a) sig' tabs'
      | _ => false
      end
  | _, _ => false
  end.
(* ... and the last one is the start tree, which must be compatible with the order in the model's sense *)
Fixpoint compat_bb (pl : list nat) (r : rel) : bool :=
  match pl with
  | [] => true
  | x :: older => forallb (fun z => implb (r z x) (r x z)) older && compat_bb older r
  end.
Definition chk_retained (n : nat) (on : bool) (sig : list nat) (tabs : list (list (list bool))) (final : list (list bool)) : bool :=
  chk_path n on g0 sig tabs && teqb (last tabs []) final && compat_bb (rev sig) (tget final).
