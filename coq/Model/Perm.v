(* C09 model: data orders compatible with a tree; the bridge-shuffle sampler; its count.
   Mirrors phyclone/smc/utils.py (RootPermutationDistribution, interleave_lists).

   Modelling step (trusted, validated by the exact-enumeration correspondence): `rng.shuffle(sentinels)`
   followed by popping the list named by each sentinel is modelled as an urn: at each step list i is
   chosen with probability |l_i| / (total remaining) and its head is popped.  This is the law of the value
   sequence of a uniformly shuffled multiset.  `rng.shuffle(own)` is the same urn on singleton lists. *)
From PV Require Export Base.Dist.

Inductive tree : Type := Node : list nat -> list tree -> tree.
Record forest : Type := mkF { roots : list tree; outl : list nat }.

Definition own (t : tree) := match t with Node o _ => o end.
Definition kids (t : tree) := match t with Node _ k => k end.

Fixpoint size (t : tree) : nat :=
  match t with Node o ks => length o + list_sum (map size ks) end.

(* ---- k-way interleavings ------------------------------------------------ *)
Section Inter.
Context {A : Type}.

(* every way of popping the head of one non-empty list: (popped, length of that list, remaining lists) *)
Fixpoint pops (ls : list (list A)) : list (A * nat * list (list A)) :=
  match ls with
  | [] => []
  | l :: rest =>
      (match l with [] => [] | x :: r => [(x, length l, r :: rest)] end)
      ++ map (fun p => (fst (fst p), snd (fst p), l :: snd p)) (pops rest)
  end.

Definition total (ls : list (list A)) : nat := list_sum (map (@length A) ls).

Fixpoint inter (fuel : nat) (ls : list (list A)) : list (list A) :=
  match fuel with
  | O => [[]]
  | S n => flat_map (fun p => map (cons (fst (fst p))) (inter n (snd p))) (pops ls)
  end.
Definition interleavings (ls : list (list A)) := inter (total ls) ls.
Definition perms (l : list A) := interleavings (map (fun x => [x]) l).

(* the urn sampler *)
Fixpoint urn (fuel : nat) (ls : list (list A)) : dist (list A) :=
  match fuel with
  | O => ret []
  | S n => bind (map (fun p => (p, qn (snd (fst p)) / qn (S n))) (pops ls))
                (fun p => dmap (cons (fst (fst p))) (urn n (snd p)))
  end.
Definition interleave (ls : list (list A)) : dist (list A) := urn (total ls) ls.
Definition shuffle (l : list A) : dist (list A) := interleave (map (fun x => [x]) l).
End Inter.

(* ---- cartesian product of per-child alternatives ------------------------- *)
Fixpoint prodl {A} (ls : list (list A)) : list (list A) :=
  match ls with
  | [] => [[]]
  | l :: rest => flat_map (fun x => map (cons x) (prodl rest)) l
  end.
Fixpoint seqd {A} (ds : list (dist A)) : dist (list A) :=
  match ds with
  | [] => ret []
  | d :: rest => bind d (fun x => dmap (cons x) (seqd rest))
  end.

(* ---- orders of a clone subtree: children interleaved, then own points in any order ---------- *)
Fixpoint orders (t : tree) : list (list nat) :=
  match t with
  | Node o ks =>
      flat_map (fun cs => flat_map (fun s => map (fun p => s ++ p) (perms o)) (interleavings cs))
               (prodl (map orders ks))
  end.
Fixpoint sample (t : tree) : dist (list nat) :=
  match t with
  | Node o ks =>
      bind (seqd (map sample ks)) (fun cs =>
      bind (interleave cs) (fun s =>
      dmap (fun p => s ++ p) (shuffle o)))
  end.

Definition forders (f : forest) : list (list nat) :=
  flat_map (fun cs => flat_map (fun s => flat_map (fun o => interleavings [s; o]) (perms (outl f)))
                               (interleavings cs))
           (prodl (map orders (roots f))).
Definition fsample (f : forest) : dist (list nat) :=
  bind (seqd (map sample (roots f))) (fun cs =>
  bind (interleave cs) (fun s =>
  bind (shuffle (outl f)) (fun o => interleave [s; o]))).

(* ---- counts (linear domain of log_count) ---------------------------------- *)
Fixpoint fact (n : nat) : nat := match n with O => 1 | S k => S k * fact k end.
Definition qfact (n : nat) : Qc := qn (fact n).
Fixpoint prodq (l : list Qc) : Qc := match l with [] => 1 | x :: r => x * prodq r end.
(* multinomial coefficient of a list of sizes, as in log_multinomial_coefficient; empty list -> 1 *)
Definition multinom (ks : list nat) : Qc := qfact (list_sum ks) / prodq (map qfact ks).
Definition binom (n k : nat) : Qc := qfact n / (qfact k * qfact (n - k)).

Fixpoint count (t : tree) : Qc :=
  match t with
  | Node o ks => prodq (map count ks) * multinom (map size ks) * qfact (length o)
  end.
Definition fsize (f : forest) : nat := list_sum (map size (roots f)) + length (outl f).

(* the implementation's count at the pinned commit: no factor for the order of the outliers *)
Definition fcount_pinned (f : forest) : Qc :=
  prodq (map count (roots f)) * multinom (map size (roots f)) * binom (fsize f) (length (outl f)).
(* the count after the fix (log_factorial(num_outlier_data_points) added) *)
Definition fcount (f : forest) : Qc := fcount_pinned f * qfact (length (outl f)).

(* ---- specification of compatibility, independent of the enumeration ----------- *)
Fixpoint points (t : tree) : list nat :=
  match t with Node o ks => flat_map points ks ++ o end.
Definition fpoints (f : forest) : list nat := flat_map points (roots f) ++ outl f.

(* x occurs strictly after some occurrence of y in o *)
Fixpoint after (o : list nat) (x y : nat) : Prop :=
  match o with [] => False | z :: r => (z = y /\ In x r) \/ after r x y end.
(* every point of a clone comes after every point of its descendants, at every clone of the subtree *)
Fixpoint respects (o : list nat) (t : tree) : Prop :=
  match t with
  | Node ow ks =>
      (forall x y, In x ow -> In y (flat_map points ks) -> after o x y)
      /\ (fix all (l : list tree) : Prop := match l with [] => True | k :: r => respects o k /\ all r end) ks
  end.
Definition frespects (o : list nat) (f : forest) : Prop := Forall (respects o) (roots f).
