(* Generated-case support for C04: the prune-regraft move of the parent-function model against the real sampler. *)
From PV Require Export Model.PrgMove Model.DpCases.
Definition chk_prg (g : list (state * Q)) (s : state) (obs : list (state * Q)) : bool :=
  let d := prg_move (gtab g) s in
  forallb (fun o => qcclose (1 # 100000000) (pmass (state_eqb (fst o)) d) (snd o)) obs
  && qcclose (1 # 100000000) (mass d) 1.
