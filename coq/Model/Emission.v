(* C05 model: the PyClone emission model of phyclone/data/pyclone.py and the pmf primitives of
   phyclone/utils/math.py, in the linear domain over exact rationals.

   log_binomial_coefficient / lgamma differences  ->  [choose], [rising]
   log_binomial_pdf (incl. the p == 0 / p == 1 branches: 0^0 = 1)  ->  [binom_pmf]
   log_beta_binomial_pdf = log C(n,x) + log_beta(a+x, b+n-x) - log_beta(a,b)  ->  [betabinom_pmf]
     (Gamma(a+x)/Gamma(a) = rising a x; valid for a, b > 0, which [evaf] in (0,1) and s > 0 give)
   get_major_cn_prior  ->  [genotypes], [major_cn_prior]
   log_pyclone_binomial_pdf / log_pyclone_beta_binomial_pdf  ->  [evaf], [norm_const], [mixture]
   DataPoint.to_likelihood_grid  ->  [grid_f], [sample_grid], [sample_grid_opt], [point_grid]
   _create_clustered_data_arr (np.sum of log grids)  ->  [cluster_grid]
   compute_outlier_prob, _setup_cluster_df (assign_loss_prob = False)  ->  [outlier_terms], [cluster_p]

   Definitions only.  The division e_vaf /= norm_const raises ZeroDivisionError in the code when
   norm_const = 0; the total function [evaf] returns 0 there (Qc convention) and the partiality is kept
   visible in [sample_grid_opt] (None = the code raises). *)
From PV Require Export Base.Dist.

Fixpoint qpow (p : Qc) (n : nat) : Qc := match n with O => 1 | S k => p * qpow p k end.

Fixpoint choose (n k : nat) : nat :=
  match n, k with
  | _, O => 1%nat
  | O, S _ => 0%nat
  | S n', S k' => (choose n' k' + choose n' (S k'))%nat
  end.

(* sum_{x < n} f x *)
Fixpoint sumn (f : nat -> Qc) (n : nat) : Qc := match n with O => 0 | S k => sumn f k + f k end.

(* a (a+1) ... (a+k-1) = Gamma(a+k) / Gamma(a) *)
Fixpoint rising (a : Qc) (k : nat) : Qc := match k with O => 1 | S j => rising a j * (a + qn j) end.

Definition binom_pmf (n x : nat) (p : Qc) : Qc :=
  qn (choose n x) * qpow p x * qpow (1 - p) (n - x).

Definition betabinom_pmf (n x : nat) (a b : Qc) : Qc :=
  qn (choose n x) * rising a x * rising b (n - x) / rising (a + b) n.

(* ---- mutational genotypes (get_major_cn_prior) ------------------------------------------------ *)
(* copy numbers and variant-allele fractions of the (normal, reference, variant) populations *)
Record geno : Type := mkG { cn0 : nat; cn1 : nat; cn2 : nat; mu0 : Qc; mu1 : Qc; mu2 : Qc }.

Definition qcmin (a b : Qc) : Qc := if Qle_bool (this a) (this b) then a else b.

Definition cn_eqb (g : geno) (c0 c1 c2 : nat) : bool :=
  Nat.eqb (cn0 g) c0 && Nat.eqb (cn1 g) c1 && Nat.eqb (cn2 g) c2.

(* mutation before the copy-number change: x = 1 .. major mutated copies out of total *)
Definition before_genos (major total normal : nat) (err : Qc) : list geno :=
  map (fun x => mkG normal normal total err err (qcmin (1 - err) (qn x / qn total))) (seq 1 major).

(* plus "mutation after the change" (normal, total, total) with one mutated copy, unless that copy-number
   triple is already in the list (the code compares cn tuples, not mu) *)
Definition genotypes (major minor normal : nat) (err : Qc) : list geno :=
  let total := (major + minor)%nat in
  let bef := before_genos major total normal err in
  if existsb (fun g => cn_eqb g normal total total) bef then bef
  else bef ++ [mkG normal total total err err (qcmin (1 - err) (1 / qn total))].

(* None = MajorCopyNumberError.  (major = 0 never reaches this function through the loader; there the
   code's `assert len(set(cn)) == 2` fails.) *)
Definition major_cn_prior (major minor normal : nat) (err : Qc) : option (list geno) :=
  if (major <? minor)%nat then None else Some (genotypes major minor normal err).

(* ---- expected variant allele fraction ---------------------------------------------------------- *)
(* population weights (1-t, t(1-f), t f) times copy number *)
Definition ecn0 (g : geno) (t f : Qc) : Qc := (1 - t) * qn (cn0 g).
Definition ecn1 (g : geno) (t f : Qc) : Qc := t * (1 - f) * qn (cn1 g).
Definition ecn2 (g : geno) (t f : Qc) : Qc := t * f * qn (cn2 g).
Definition norm_const (g : geno) (t f : Qc) : Qc := ecn0 g t f + ecn1 g t f + ecn2 g t f.
Definition evaf (g : geno) (t f : Qc) : Qc :=
  (ecn0 g t f * mu0 g + ecn1 g t f * mu1 g + ecn2 g t f * mu2 g) / norm_const g t f.

Inductive density : Type := Binomial | BetaBinomial (s : Qc).

(* a = e_vaf * s, b = s - a *)
Definition geno_pmf (d : density) (n x : nat) (e : Qc) : Qc :=
  match d with
  | Binomial => binom_pmf n x e
  | BetaBinomial s => betabinom_pmf n x (e * s) (s - e * s)
  end.

(* uniform genotype prior (log_normalize of zeros), logsumexp over genotypes *)
Definition mixture (d : density) (gs : list geno) (t f : Qc) (n x : nat) : Qc :=
  sumq (map (fun g => / qn (length gs) * geno_pmf d n x (evaf g t f)) gs).

(* ---- grids ---------------------------------------------------------------------------------- *)
(* one sample of one mutation: a = ref counts, b = alt counts *)
Record sdp : Type := mkS { s_ref : nat; s_alt : nat; s_gs : list geno; s_t : Qc }.

(* np.linspace(0, 1, G) *)
Definition grid_f (G i : nat) : Qc := qn i / qn (G - 1).

Definition sample_pmf (d : density) (sd : sdp) (f : Qc) : Qc :=
  mixture d (s_gs sd) (s_t sd) f (s_ref sd + s_alt sd) (s_alt sd).

Definition sample_grid (d : density) (G : nat) (sd : sdp) : list Qc :=
  map (fun i => sample_pmf d sd (grid_f G i)) (seq 0 G).

Definition qc_is0 (x : Qc) : bool := Qeq_bool (this x) 0.

(* the code's division is defined at every grid point and genotype *)
Definition grid_defined (G : nat) (sd : sdp) : bool :=
  forallb (fun i => forallb (fun g => negb (qc_is0 (norm_const g (s_t sd) (grid_f G i)))) (s_gs sd)) (seq 0 G).

Definition sample_grid_opt (d : density) (G : nat) (sd : sdp) : option (list Qc) :=
  if grid_defined G sd then Some (sample_grid d G sd) else None.

(* DataPoint.to_likelihood_grid: one row per sample *)
Definition point_grid (d : density) (G : nat) (sds : list sdp) : list (list Qc) := map (sample_grid d G) sds.

(* ---- pre-clustered data points: np.sum over the members' log grids = pointwise product --------- *)
Fixpoint zipw {A} (f : A -> A -> A) (a b : list A) : list A :=
  match a, b with
  | x :: a', y :: b' => f x y :: zipw f a' b'
  | _, _ => []
  end.
Definition gmul (a b : list (list Qc)) : list (list Qc) := zipw (zipw Qcmult) a b.
Definition cluster_grid (members : list (list (list Qc))) : list (list Qc) :=
  match members with [] => [] | m :: r => fold_left gmul r m end.

(* entry [s][i] of a grid (0 outside the shape) *)
Definition entry (m : list (list Qc)) (s i : nat) : Qc := nth i (nth s m []) 0.

Fixpoint prodq (l : list Qc) : Qc := match l with [] => 1 | x :: r => x * prodq r end.

(* ---- outlier prior terms (exp of compute_outlier_prob): p = 0 is the code's "outliers off" case,
   which stores the raw 0 and log 1 ------------------------------------------------------------- *)
Definition outlier_terms (p : Qc) (size : nat) : Qc * Qc :=
  if qc_is0 p then (1, 1) else (qpow p size, qpow (1 - p) size).

(* per-cluster probability (_setup_cluster_df with assign_loss_prob = False): the cluster file's
   outlier_prob column if present, zeros replaced by the global value; all zero when the global value is 0 *)
Definition cluster_p (global : Qc) (col : option Qc) : Qc :=
  if qc_is0 global then 0
  else match col with None => global | Some c => if qc_is0 c then global else c end.
