(* C02 model: the CCF-grid sum-product recursion of phyclone/tree/utils.py, tree_node.py, tree.py in the
   LINEAR domain (log-add = *, logaddexp = +), per sample, over exact rationals; and, written independently
   of the recursion, the brute-force constrained sum the property refers to.

   Code -> model
     TreeNode.__init__ / add_data_point : log_p = log_prior + sum of data values   -> [pvec]   (fold of pointwise products)
     _np_conv_dims / fft_convolve_two_children (max-normalised, truncated to G)    -> [conv]   (exact; the 1e-100 floor
                                                                                      and float rounding are NOT modelled)
     compute_log_D : one child -> itself; conv(c0,c1) then conv(c_j, acc)          -> [D]
     compute_log_S / _sub_compute_S : logaddexp.accumulate                          -> [logS] / [cumsum]
     update_node_from_child_r_vals : leaf -> R = p ; else R = p * S                 -> [R]
     virtual root: a node without data (log_p = log_prior everywhere)               -> [root_R]
   Definitions only; proofs are in Proofs/Marginal*.v. *)
From PV Require Export Base.Dist.
From Coq Require Export Permutation.

(* ---- rose trees with an arbitrary payload; shape-only notions shared with the MAP model (C10) ---- *)
Inductive tree (A : Type) : Type := Node : A -> list (tree A) -> tree A.
Arguments Node {A} _ _.

Section Shape.
Context {A : Type}.

Definition payload (t : tree A) : A := match t with Node a _ => a end.
Definition kids (t : tree A) : list (tree A) := match t with Node _ k => k end.
Fixpoint size (t : tree A) : nat := match t with Node _ ks => S (list_sum (map size ks)) end.
Definition sizes (ks : list (tree A)) : nat := list_sum (map size ks).
Fixpoint payloads (t : tree A) : list A := match t with Node a ks => a :: flat_map payloads ks end.

(* An assignment of grid indices to the nodes of a tree is a list of naturals in PRE-ORDER layout:
   the node's own index first, then one contiguous segment per child (of that child's size). *)
Section Seg.
Context {B : Type} (f : tree A -> list nat -> B).
Fixpoint segmap (ks : list (tree A)) (w : list nat) : list B :=
  match ks with
  | [] => []
  | k :: r => f k (firstn (size k) w) :: segmap r (skipn (size k) w)
  end.
End Seg.

(* the children's own indices *)
Definition tops (ks : list (tree A)) (w : list nat) : list nat := segmap (fun _ seg => hd 0%nat seg) ks w.
Definition all_true (l : list bool) : bool := forallb (fun b => b) l.

(* the sum constraint: every node's index is at least the sum of its children's indices *)
Fixpoint feas (t : tree A) (v : list nat) : bool :=
  match t with
  | Node _ ks => (list_sum (tops ks (tl v)) <=? hd 0%nat v)%nat && all_true (segmap feas ks (tl v))
  end.
(* a forest under the virtual root at index k: top-level clones sum to at most k *)
Definition ffeas (ks : list (tree A)) (k : nat) (w : list nat) : bool :=
  (list_sum (tops ks w) <=? k)%nat && all_true (segmap feas ks w).
End Shape.

(* every list of n grid indices in [0, G) *)
Fixpoint all_vecs (G n : nat) : list (list nat) :=
  match n with
  | O => [[]]
  | S m => flat_map (fun x => map (cons x) (all_vecs G m)) (seq 0 G)
  end.

(* ---- grid vectors ---- *)
Definition vec := list Qc.
Definition vget (v : vec) (i : nat) : Qc := nth i v 0.
Definition vec_of (G : nat) (f : nat -> Qc) : vec := map f (seq 0 G).
Definition Sum (n : nat) (f : nat -> Qc) : Qc := sumq (map f (seq 0 n)).   (* sum_{i<n} f i *)
Fixpoint qprod (l : list Qc) : Qc := match l with [] => 1 | x :: r => x * qprod r end.

Definition vmul (G : nat) (a b : vec) : vec := vec_of G (fun i => vget a i * vget b i).
Definition ones (G : nat) : vec := vec_of G (fun _ => 1).

(* a clone's payload: the likelihood grids (one vector, this sample's row) of its data points *)
Definition dtree := tree (list vec).

(* log_p = np.full(log_prior) ; log_p += value for each data point *)
Definition pvec (G : nat) (ds : list vec) : vec := fold_left (vmul G) ds (vec_of G (fun _ => / qn G)).

(* truncated convolution, entry k = sum_{j<=k} a_j b_{k-j} *)
Definition conv (G : nat) (a b : vec) : vec :=
  vec_of G (fun k => Sum (S k) (fun j => vget a j * vget b (k - j)%nat)).

(* compute_log_D: folded in the code's order.  With no child the code returns log 1 everywhere (never used: leaves
   are special-cased by the caller) *)
Definition D (G : nat) (cs : list vec) : vec :=
  match cs with
  | [] => ones G
  | [c] => c
  | c0 :: c1 :: rest => fold_left (fun acc c => conv G c acc) rest (conv G c0 c1)
  end.

(* np.logaddexp.accumulate *)
Fixpoint cumsum (acc : Qc) (l : vec) : vec :=
  match l with [] => [] | x :: r => (acc + x) :: cumsum (acc + x) r end.

(* compute_log_S *)
Definition logS (G : nat) (cs : list vec) : vec :=
  match cs with [] => ones G | _ => cumsum 0 (D G cs) end.

(* update_node_from_child_r_vals, bottom-up over the whole tree (Tree.update) *)
Fixpoint R (G : nat) (t : dtree) : vec :=
  match t with
  | Node ds ks =>
      match ks with
      | [] => pvec G ds
      | _ => vmul G (pvec G ds) (logS G (map (R G) ks))
      end
  end.

(* Tree.data_log_likelihood (one sample): the virtual root has no data *)
Definition root_R (G : nat) (f : list dtree) : vec := R G (Node [] f).

(* ---- several samples: a data point carries one vector per sample; rows are independent ---- *)
Definition mtree := tree (list (list vec)).
Fixpoint proj (s : nat) (t : mtree) : dtree :=
  match t with Node ds ks => Node (map (fun d => nth s d []) ds) (map (proj s) ks) end.
Definition root_R_multi (G nsamp : nat) (f : list mtree) : list vec :=
  map (fun s => root_R G (map (proj s) f)) (seq 0 nsamp).

(* ---- the specification: brute-force constrained sum, written without the recursion ---- *)
(* a node's uniform-grid-prior-weighted data likelihood at grid index i *)
Definition node_p (G : nat) (ds : list vec) (i : nat) : Qc := / qn G * qprod (map (fun d => vget d i) ds).
(* product over all nodes of a subtree of node_p at the assigned index *)
Fixpoint weight (G : nat) (t : dtree) (v : list nat) : Qc :=
  match t with
  | Node ds ks => node_p G ds (hd 0%nat v) * qprod (segmap (weight G) ks (tl v))
  end.
Definition fweight (G : nat) (f : list dtree) (w : list nat) : Qc := qprod (segmap (weight G) f w).
(* entry k: all assignments of an index in [0,G) to every clone; feasible ones weighted; the virtual root
   contributes its prior 1/G only *)
Definition brute_root (G : nat) (f : list dtree) (k : nat) : Qc :=
  sumq (map (fun w => if ffeas f k w then / qn G * fweight G f w else 0) (all_vecs G (sizes f))).

(* data positivity (all likelihood values on the grid are > 0, i.e. all logs are finite) *)
Definition pos_data (G : nat) (t : dtree) : Prop :=
  forall ds, In ds (payloads t) -> forall d, In d ds -> forall i, (i < G)%nat -> 0 < vget d i.

(* same tree up to the order of siblings at every depth *)
Inductive tperm {A : Type} : tree A -> tree A -> Prop :=
| tperm_node a ks ks' ks'' : Forall2 tperm ks ks' -> Permutation ks' ks'' -> tperm (Node a ks) (Node a ks'').

(* ---- the recursion with an arbitrary two-argument convolution operator (used to state that raising
        convolution entries, as the 1e-100 floor does, can only raise every R entry) ---- *)
Section Gen.
Variable cv : vec -> vec -> vec.
Definition Dg (G : nat) (cs : list vec) : vec :=
  match cs with
  | [] => ones G
  | [c] => c
  | c0 :: c1 :: rest => fold_left (fun acc c => cv c acc) rest (cv c0 c1)
  end.
Definition logSg (G : nat) (cs : list vec) : vec :=
  match cs with [] => ones G | _ => cumsum 0 (Dg G cs) end.
Fixpoint Rg (G : nat) (t : dtree) : vec :=
  match t with
  | Node ds ks =>
      match ks with
      | [] => pvec G ds
      | _ => vmul G (pvec G ds) (logSg G (map (Rg G) ks))
      end
  end.
End Gen.
