(* C19 model: the chain driver of phyclone/run.py (run_phyclone_chain, _run_burnin, _run_main_sampler) as a
   state machine over an abstract tree state, with a crash (a Python exception) modelled as [None]; plus two
   index-level models of the places where the pinned code (commit 30a152a) raised on valid input (flag `fixed` = false;
   `fixed` = true mirrors the repaired code of fb970cc / c51a714):
     - ConditionalSMCSampler._resample_swarm reads constrained_path[self.iteration + 1]
       (phyclone/smc/samplers/conditional.py), a list of length T+1 for T data points;
     - ParticleGibbsSubtreeSampler.sample_tree calls rng.choice(nodes) with nodes = labels of the
       non-outlier data points (phyclone/mcmc/particle_gibbs.py).
   Definitions only.  The kernels themselves are parameters of the driver: their totality is what the
   properties C01/C04/C07/C08 are about; here they are Section variables. *)
From PV Require Export Base.Dist.
From Coq Require Export Bool Arith.

Section Driver.
Variable T : Type.            (* tree states (phyclone.tree.Tree) *)
Variable R : Type.            (* the state of the numpy generator *)
Definition kernel := R -> T -> option (T * R).   (* None: the call raised *)

Variable burn pg subtree dp prg : kernel.   (* UnconditionalSMCSampler, ParticleGibbsTreeSampler, ...SubtreeSampler,
                                               DataPointSampler, PruneRegraphSampler .sample_tree *)
Variable relabel : T -> T.                  (* Tree.relabel_nodes *)
Variable coin : R -> bool * R.              (* rng.random() < subtree_update_prob *)
Variable conc : R -> T -> Qc -> Qc * R.     (* update_concentration_value: new alpha *)

Record entry := mkE { e_iter : nat; e_alpha : Qc; e_tree : T }.

Fixpoint repeat_k (k : kernel) (n : nat) (r : R) (t : T) : option (T * R) :=
  match n with
  | O => Some (t, r)
  | S m => match k r t with None => None | Some (t', r') => repeat_k k m r' t' end
  end.

(* one burn-in iteration: SMC update, nd data-point sweeps, np prune-regraft moves, relabel *)
Definition burn_step (nd np : nat) (r : R) (t : T) : option (T * R) :=
  match burn r t with None => None | Some (t1, r1) =>
  match repeat_k dp nd r1 t1 with None => None | Some (t2, r2) =>
  match repeat_k prg np r2 t2 with None => None | Some (t3, r3) => Some (relabel t3, r3) end end end.

(* `stop i` = the wall-clock test after iteration i (timer.elapsed > max_time): arbitrary *)
Fixpoint burn_loop (fuel i nd np : nat) (stop : nat -> bool) (r : R) (t : T) : option (T * R) :=
  match fuel with
  | O => Some (t, r)
  | S f => match burn_step nd np r t with
           | None => None
           | Some (t', r') => if stop i then Some (t', r') else burn_loop f (S i) nd np stop r' t'
           end
  end.

Definition main_step (nd np : nat) (upd : bool) (r : R) (t : T) (alpha : Qc) : option (T * Qc * R) :=
  let (b, r0) := coin r in
  match (if b then subtree r0 t else pg r0 t) with None => None | Some (t1, r1) =>
  match repeat_k dp nd r1 t1 with None => None | Some (t2, r2) =>
  match repeat_k prg np r2 t2 with None => None | Some (t3, r3) =>
    let t4 := relabel t3 in
    if upd then let (a', r4) := conc r3 t4 alpha in Some (t4, a', r4) else Some (t4, alpha, r3)
  end end end.

(* i % thin raises ZeroDivisionError for thin = 0: a crash *)
Fixpoint main_loop (fuel i thin nd np : nat) (upd : bool) (stop : nat -> bool)
         (r : R) (t : T) (alpha : Qc) (trace : list entry) : option (list entry) :=
  match fuel with
  | O => Some trace
  | S f =>
      match main_step nd np upd r t alpha with
      | None => None
      | Some (t', a', r') =>
          match thin with
          | O => None
          | S _ =>
              let trace' := if (i mod thin =? 0)%nat then trace ++ [mkE i a' t'] else trace in
              if stop i then Some trace' else main_loop f (S i) thin nd np upd stop r' t' a' trace'
          end
      end
  end.

(* run_phyclone_chain: burn-in from the start tree, then the main loop; setup_trace records entry 0 first *)
Definition run_chain (burnin iters thin nd np : nat) (upd : bool) (stopb stopm : nat -> bool)
           (r : R) (t0 : T) (alpha0 : Qc) : option (list entry) :=
  match burn_loop burnin 0 nd np stopb r t0 with
  | None => None
  | Some (t, r') => main_loop iters 0 thin nd np upd stopm r' t alpha0 [mkE 0 alpha0 t]
  end.
End Driver.
Arguments mkE {T}. Arguments e_iter {T}. Arguments e_alpha {T}. Arguments e_tree {T}.

(* the "iter" fields of the trace: entry 0, then every i < n with i mod thin = 0 until the clock stops the loop *)
Fixpoint iters_from (fuel i thin : nat) (stop : nat -> bool) : list nat :=
  match fuel with
  | O => []
  | S f => (if (i mod thin =? 0)%nat then [i] else []) ++ (if stop i then [] else iters_from f (S i) thin stop)
  end.
Definition trace_iters (n thin : nat) (stop : nat -> bool) : list nat := 0%nat :: iters_from n 0 thin stop.

(* ---- index model of ConditionalSMCSampler.sample ------------------------------------------------
   constrained_path = [None, p_1, ..., p_T].  Indices read, in order:
     _init_swarm            path[1]; then iteration := 1
     _resample_swarm        path[iteration + 1] when the relative ESS <= threshold (uniform weights: ESS = 1)
     loop, iteration < T    _update_swarm reads path[iteration + 1];
                            if iteration < T - 1, _resample_swarm reads path[iteration + 1] when it triggers *)
Definition path_len (T : nat) : nat := S T.

Fixpoint loop_reads (fuel it T : nat) (trig : nat -> bool) : list nat :=
  match fuel with
  | O => []
  | S f =>
      if (it <? T)%nat
      then (it + 1)%nat :: (if ((it <? T - 1) && trig it)%nat then [(it + 1)%nat] else []) ++ loop_reads f (S it) T trig
      else []
  end.

(* `fixed`: the initial resample keeps the swarm's own first particle (= path[iteration] at that moment) *)
Definition sample_reads (fixed : bool) (T : nat) (init_trig : bool) (trig : nat -> bool) : list nat :=
  1%nat :: (if init_trig then [if fixed then 1%nat else 2%nat] else []) ++ loop_reads T 1 T trig.

Definition reads_ok (T : nat) (l : list nat) : bool := forallb (fun i => (i <? path_len T)%nat) l.

(* the initial swarm has uniform weights, relative ESS 1: it is resampled iff 1 <= threshold *)
Definition init_trigger (thr : Qc) : bool := Qle_bool 1 thr.

(* ---- rng.choice on the labels of the non-outlier data points ------------------------------------ *)
(* labels: data index -> Some node | None (outlier) *)
Definition non_outlier_labels (labels : list (nat * option nat)) : list nat :=
  flat_map (fun p => match snd p with Some n => [n] | None => [] end) labels.
(* numpy: choice of an empty sequence raises ValueError (lost mass) *)
Definition choice {A} (l : list A) : dist A := uniform l.
Definition subtree_pick (fixed : bool) (labels : list (nat * option nat)) : dist (option nat) :=
  match non_outlier_labels labels with
  | [] => if fixed then ret None (* whole-tree update instead *) else []
  | l => dmap Some (choice l)
  end.

(* ---- instances used by the examples in Properties/C19.v: trees = nat, generator = a counter ---------- *)
Definition k_inc : kernel nat nat := fun r t => Some ((t + r mod 2)%nat, S r).
Definition k_id : kernel nat nat := fun r t => Some (t, S r).
