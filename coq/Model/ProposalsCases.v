(* boolean checkers used by the generated C08 correspondence files *)
From PV Require Export Model.Proposals Model.CaseUtil.

Definition place_eqb (a b : place) : bool :=
  match a, b with
  | Existing i, Existing j => Nat.eqb i j
  | NewOver s, NewOver t => lnat_eqb s t
  | Outlier, Outlier => true
  | _, _ => false
  end.
Definition tol : Q := (1 # 1000000000)%Q.
(* obs: (placement, sampled probability, reported density) for every distinct outcome of the real proposal *)
Definition chk_dist (d : dist place) (dens : place -> Qc) (n_support : nat) (obs : list (place * Q * Q)) : bool :=
  Nat.eqb (length obs) n_support
  && forallb (fun o => qcclose tol (pmass (place_eqb (fst (fst o))) d) (snd (fst o))
                       && qcclose tol (dens (fst (fst o))) (snd o)) obs.
Definition chk_boot (op : Q) (first : bool) (R : nat) (on : bool) obs : bool :=
  chk_dist (boot_sample (Q2Qc op) first R) (boot_dens (Q2Qc op) first R) (length (all_places R on)) obs.
(* gam given as an association list placement -> target value *)
Fixpoint assoc (l : list (place * Q)) (p : place) : Qc :=
  match l with [] => 0 | (a, v) :: r => if place_eqb a p then Q2Qc v else assoc r p end.
Definition chk_full (g : list (place * Q)) (R : nat) (on : bool) obs : bool :=
  chk_dist (full_sample (assoc g) R on) (full_dens (assoc g) R on) (length (all_places R on)) obs.
Definition chk_semi (g : list (place * Q)) (R : nat) (on : bool) obs : bool :=
  chk_dist (semi_sample (assoc g) R on) (semi_dens (assoc g) R on) (length (all_places R on)) obs.
