(* Generated-case support for C04: the data-point sweep of the assignment model against the real DataPointSampler. *)
From PV Require Export Model.DpMove Model.CaseUtil Model.Perm.

Definition pair_eqb (a b : nat * holder) : bool := Nat.eqb (fst a) (fst b) && hold_eqb (snd a) (snd b).
Definition state_eqb : state -> state -> bool := list_eqb pair_eqb.
Fixpoint gtab (t : list (state * Q)) (s : state) : Qc :=
  match t with [] => 0 | (s', v) :: r => if state_eqb s s' then Q2Qc v else gtab r s end.

(* one sweep: the points are visited in a uniformly random order (rng.shuffle), each resampled when movable *)
Definition dp_sweep (clones : list nat) (on : bool) (gam : state -> Qc) (pts : list nat) (s : state) : dist state :=
  bind (shuffle pts) (fun order => fold_left (fun d x => bind d (dp_step clones on gam false x)) order (ret s)).

Definition chk_dp (clones : list nat) (on : bool) (g : list (state * Q)) (pts : list nat) (s : state) (obs : list (state * Q)) : bool :=
  let d := dp_sweep clones on (gtab g) pts s in
  forallb (fun o => qcclose (1 # 100000000) (pmass (state_eqb (fst o)) d) (snd o)) obs
  && qcclose (1 # 100000000) (mass d) 1.
