(* C05 proofs, part 1: finite sums, binomial theorem, Chu-Vandermonde for rising factorials. *)
From PV Require Import Model.Emission.

Ltac qlra := unfold Qcminus in *; qc_lra.

(* ---- sumn ------------------------------------------------------------------------------------ *)
Lemma sumn_ext f g n : (forall x, (x < n)%nat -> f x = g x) -> sumn f n = sumn g n.
Proof.
  induction n as [|n IH]; intros H; cbn [sumn]; [reflexivity|].
  rewrite IH by (intros x Hx; apply H; lia). rewrite H by lia. reflexivity.
Qed.
Lemma sumn_plus f g n : sumn (fun x => f x + g x) n = sumn f n + sumn g n.
Proof. induction n as [|n IH]; cbn [sumn]; [ring| rewrite IH; ring]. Qed.
Lemma sumn_scale c f n : sumn (fun x => c * f x) n = c * sumn f n.
Proof. induction n as [|n IH]; cbn [sumn]; [ring| rewrite IH; ring]. Qed.
Lemma sumn_scale_r c f n : sumn (fun x => f x * c) n = sumn f n * c.
Proof. induction n as [|n IH]; cbn [sumn]; [ring| rewrite IH; ring]. Qed.
Lemma sumn_shift f n : sumn f (S n) = f O + sumn (fun x => f (S x)) n.
Proof.
  induction n as [|n IH]; [cbn [sumn]; ring|].
  change (sumn f (S (S n))) with (sumn f (S n) + f (S n)). rewrite IH. cbn [sumn]. ring.
Qed.
Lemma sumn_nonneg f n : (forall x, (x < n)%nat -> 0 <= f x) -> 0 <= sumn f n.
Proof.
  induction n as [|n IH]; intros H; cbn [sumn]; [apply Qcle_refl|].
  apply Qc_add_nonneg; [apply IH; intros; apply H; lia| apply H; lia].
Qed.
(* sums over a list and over an index range commute *)
Lemma sumn_sumq {X} (h : X -> nat -> Qc) (l : list X) n :
  sumn (fun x => sumq (map (fun a => h a x) l)) n = sumq (map (fun a => sumn (h a) n) l).
Proof.
  induction l as [|a l IH]; cbn [map sumq].
  - induction n as [|n IHn]; cbn [sumn]; [reflexivity| rewrite IHn; ring].
  - rewrite sumn_plus, IH. reflexivity.
Qed.

(* ---- binomial coefficients ------------------------------------------------------------------- *)
Lemma choose_n_0 n : choose n 0 = 1%nat.
Proof. destruct n; reflexivity. Qed.
Lemma choose_gt n : forall k, (n < k)%nat -> choose n k = 0%nat.
Proof.
  induction n as [|n IH]; intros k Hk; destruct k as [|k]; try lia; [reflexivity|].
  cbn [choose]. rewrite !IH by lia. reflexivity.
Qed.
Lemma choose_S n k : choose (S n) (S k) = (choose n k + choose n (S k))%nat.
Proof. reflexivity. Qed.
Lemma choose_n_n n : choose n n = 1%nat.
Proof. induction n as [|n IH]; [reflexivity|]. rewrite choose_S, IH, choose_gt by lia. lia. Qed.

(* ---- the Pascal step shared by the binomial theorem and Chu-Vandermonde ------------------------ *)
Lemma pascal_conv (u v : nat -> Qc) n :
  sumn (fun x => qn (choose (S n) x) * u x * v (S n - x)%nat) (S (S n))
  = sumn (fun x => qn (choose n x) * (u (S x) * v (n - x)%nat + u x * v (S (n - x)))) (S n).
Proof.
  rewrite sumn_shift.
  rewrite (sumn_ext _ (fun x => qn (choose n x) * u (S x) * v (n - x)%nat
                                + qn (choose n (S x)) * u (S x) * v (n - x)%nat)).
  2:{ intros x _. rewrite choose_S, qn_add. change (S n - S x)%nat with (n - x)%nat. ring. }
  rewrite sumn_plus.
  rewrite (sumn_ext (fun x => qn (choose n x) * (u (S x) * v (n - x)%nat + u x * v (S (n - x))))
                    (fun x => qn (choose n x) * u (S x) * v (n - x)%nat + qn (choose n x) * u x * v (S (n - x)))).
  2:{ intros; ring. }
  rewrite sumn_plus.
  assert (E1 : sumn (fun x => qn (choose n (S x)) * u (S x) * v (n - x)%nat) (S n)
               = sumn (fun x => qn (choose n (S x)) * u (S x) * v (n - x)%nat) n).
  { cbn [sumn]. rewrite (choose_gt n (S n)) by lia. rewrite qn_0. ring. }
  rewrite E1.
  rewrite (sumn_shift (fun x => qn (choose n x) * u x * v (S (n - x)))).
  rewrite (sumn_ext (fun x => qn (choose n (S x)) * u (S x) * v (S (n - S x)))
                    (fun x => qn (choose n (S x)) * u (S x) * v (n - x)%nat)).
  2:{ intros x Hx. replace (S (n - S x)) with (n - x)%nat by lia. reflexivity. }
  rewrite !choose_n_0. rewrite !Nat.sub_0_r. ring.
Qed.

(* ---- binomial theorem ------------------------------------------------------------------------ *)
Lemma qpow_S p n : qpow p (S n) = p * qpow p n.
Proof. reflexivity. Qed.

Lemma binomial_theorem a b n :
  sumn (fun x => qn (choose n x) * qpow a x * qpow b (n - x)) (S n) = qpow (a + b) n.
Proof.
  induction n as [|n IH].
  - cbn [sumn choose qpow Nat.sub]. change (qn 1) with 1. ring.
  - rewrite pascal_conv.
    rewrite (sumn_ext _ (fun x => (a + b) * (qn (choose n x) * qpow a x * qpow b (n - x)))).
    2:{ intros x _. rewrite !qpow_S. ring. }
    rewrite sumn_scale, IH. reflexivity.
Qed.

Lemma qpow_1 n : qpow 1 n = 1.
Proof. induction n as [|n IH]; cbn [qpow]; [reflexivity| rewrite IH; ring]. Qed.

Theorem binom_sum_one n p : sumn (fun x => binom_pmf n x p) (S n) = 1.
Proof.
  unfold binom_pmf. rewrite binomial_theorem.
  replace (p + (1 - p)) with 1 by ring. apply qpow_1.
Qed.

(* ---- Chu-Vandermonde --------------------------------------------------------------------------- *)
Lemma rising_S a k : rising a (S k) = rising a k * (a + qn k).
Proof. reflexivity. Qed.

Theorem chu_vandermonde n : forall a b,
  sumn (fun x => qn (choose n x) * rising a x * rising b (n - x)) (S n) = rising (a + b) n.
Proof.
  induction n as [|n IH]; intros a b.
  - cbn [sumn choose rising Nat.sub]. change (qn 1) with 1. ring.
  - rewrite pascal_conv.
    rewrite (sumn_ext _ (fun x => (qn (choose n x) * rising a x * rising b (n - x)) * (a + b + qn n))).
    2:{ intros x Hx. rewrite !rising_S.
        assert (E : qn n = qn x + qn (n - x)) by (rewrite <- qn_add; f_equal; lia).
        rewrite E. ring. }
    rewrite sumn_scale_r, IH, rising_S. reflexivity.
Qed.

Theorem betabinom_sum_one n a b :
  rising (a + b) n <> 0 -> sumn (fun x => betabinom_pmf n x a b) (S n) = 1.
Proof.
  intros H. unfold betabinom_pmf, Qcdiv. rewrite sumn_scale_r, chu_vandermonde.
  field. exact H.
Qed.

Lemma rising_pos a k : 0 < a -> 0 < rising a k.
Proof.
  intros Ha. induction k as [|k IH]; cbn [rising]; [reflexivity|].
  apply Qc_mul_pos; [exact IH|]. apply Qc_add_pos; [exact Ha| apply qn_nonneg].
Qed.
Lemma qpow_nonneg p n : 0 <= p -> 0 <= qpow p n.
Proof.
  intros Hp. induction n as [|n IH]; cbn [qpow]; [apply Qc_lt_le; reflexivity|].
  apply Qc_mul_nonneg; assumption.
Qed.
Lemma binom_pmf_nonneg n x p : 0 <= p -> p <= 1 -> 0 <= binom_pmf n x p.
Proof.
  intros H0 H1. unfold binom_pmf.
  apply Qc_mul_nonneg; [apply Qc_mul_nonneg; [apply qn_nonneg| apply qpow_nonneg; exact H0]|].
  apply qpow_nonneg. qlra.
Qed.
Lemma betabinom_pmf_nonneg n x a b : 0 < a -> 0 < b -> 0 <= betabinom_pmf n x a b.
Proof.
  intros Ha Hb. unfold betabinom_pmf.
  unfold Qcdiv. apply Qc_mul_nonneg.
  - apply Qc_mul_nonneg; [apply Qc_mul_nonneg; [apply qn_nonneg|]|]; apply Qc_lt_le, rising_pos; assumption.
  - apply Qc_lt_le, Qc_inv_pos, rising_pos. qlra.
Qed.
