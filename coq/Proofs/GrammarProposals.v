(* The assembled particle-Gibbs theorem with PhyClone's three proposals plugged in: the densities of Model/Proposals.v
   (proved in ProposalsProofs.v to be the samplers' laws over all_places, with unit mass) satisfy the two proposal
   premises of [pg_update_invariant_grammar] - positive on the alphabet, summing to one over it - so for each proposal the
   update over the grammar leaves gamma invariant with NO premise about the proposal left.  The weights are the ratios of
   a positive intermediate target gt whose value on complete paths is gamma x order density. *)
From PV Require Import Model.Grammar Model.Csmc Proofs.GibbsProofs Proofs.ProposalsProofs Proofs.ProposalsPoint Proofs.GrammarSound Proofs.GrammarComplete
  Proofs.GrammarTable Proofs.CsmcSupport Proofs.PgAssembly Proofs.GrammarPG.
From Coq Require Import Bool.

(* x itself when positive, 1 otherwise: makes a density total without changing it on its support *)
Definition pclamp (x : Qc) : Qc := if Qclt_le_dec 0 x then x else 1.
Lemma pclamp_pos x : 0 < pclamp x.
Proof. unfold pclamp. destruct (Qclt_le_dec 0 x); [assumption| reflexivity]. Qed.
Lemma pclamp_id x : 0 < x -> pclamp x = x.
Proof. intros H. unfold pclamp. destruct (Qclt_le_dec 0 x) as [_|Hle]; [reflexivity|]. exfalso. apply (Qcle_not_lt _ _ Hle H). Qed.

Lemma sumq_pos {X} (f : X -> Qc) (l : list X) : l <> [] -> (forall x, In x l -> 0 < f x) -> 0 < sumq (map f l).
Proof.
  intros Hne Hp. destruct l as [|a l]; [congruence|]. cbn [map sumq]. apply Qc_add_pos; [apply Hp; left; reflexivity|].
  apply sumq_nonneg. intros y Hy. apply in_map_iff in Hy. destruct Hy as [x [<- Hx]]. apply Qc_lt_le. apply Hp. right. exact Hx.
Qed.
Lemma sumq_clamp {X} (d : X -> Qc) (l : list X) : (forall a, In a l -> 0 < d a) -> sumq (map (fun a => pclamp (d a)) l) = sumq (map d l).
Proof. intros H. apply sumq_map_ext. intros a Ha. apply pclamp_id. apply H. exact Ha. Qed.

Definition isnil {X} (p : list X) : bool := match p with [] => true | _ => false end.

Lemma half_pos : 0 < half. Proof. reflexivity. Qed.
Lemma all_places_ne R on : all_places R on <> [].
Proof. pose proof (all_places_nonempty R on) as H. intros E. rewrite E in H. cbn in H. lia. Qed.
(* the binomial coefficient a new-clone density divides by is positive for every letter of the alphabet *)
Lemma new_letter_C_pos R on sub : In (NewOver sub) (all_places R on) -> (0 < C R (length sub))%nat.
Proof.
  intros Ha. apply in_all_places_new in Ha. pose proof (length_subsets_k (roots_of R) (length sub)) as Hl.
  unfold roots_of in Hl at 2. rewrite seq_length in Hl. rewrite <- Hl.
  destruct (subsets_k (length sub) (roots_of R)); [contradiction| cbn [length]; lia].
Qed.
Lemma new_dens_pos R on sub : In (NewOver sub) (all_places R on) -> 0 < half / (qn (S R) * qn (C R (length sub))).
Proof.
  intros Ha. apply Qc_div_pos; [exact half_pos|]. apply Qc_mul_pos; apply qn_pos; [lia| apply (new_letter_C_pos R on sub Ha)].
Qed.
(* dropping the outlier letter when its density is zero *)
Lemma all_places_true_false R (d : place -> Qc) :
  sumq (map d (all_places R true)) = sumq (map d (all_places R false)) + d Outlier.
Proof. unfold all_places. rewrite !map_app, !sumq_app. cbn [map sumq]. ring. Qed.
Lemma in_all_places_false_true R a : In a (all_places R false) -> In a (all_places R true).
Proof.
  unfold all_places. intros H. apply in_app_or in H. apply in_or_app. destruct H as [H|H]; [left; exact H|]. right.
  apply in_app_or in H. apply in_or_app. destruct H as [H|[]]. left. exact H.
Qed.

(* ---- bootstrap ---- *)
Section BootDens.
Variable op : Qc.
Hypothesis op_lt1 : op < 1.
Lemma one_minus_op_pos : 0 < 1 - op.
Proof. apply Qclt_minus_iff in op_lt1. exact op_lt1. Qed.

Lemma boot_dens_pos first R on a : (first = true -> R = 0%nat) -> (on = true -> 0 < op) ->
  In a (all_places R on) -> 0 < boot_dens op first R a.
Proof.
  intros HfR Hon Ha. pose proof one_minus_op_pos as H1. destruct a as [i|sub|]; cbn [boot_dens].
  - apply in_all_places_existing in Ha. apply Qc_div_pos; [apply Qc_mul_pos; [exact H1| exact half_pos]| apply qn_pos; lia].
  - destruct (first || Nat.eqb R 0) eqn:E; [exact H1|].
    apply Qc_div_pos; [apply Qc_mul_pos; [exact H1| exact half_pos]|].
    apply Qc_mul_pos; apply qn_pos; [lia| apply (new_letter_C_pos R on sub Ha)].
  - apply Hon. apply (in_all_places_outlier R on Ha).
Qed.

Lemma boot_dens_sum first R : (first = true -> R = 0%nat) -> sumq (map (boot_dens op first R) (all_places R true)) = 1.
Proof.
  intros HfR. rewrite <- (boot_sample_mass op first R HfR). unfold mass. rewrite (boot_sample_is_density op first R _ HfR).
  apply sumq_map_ext. intros; ring.
Qed.
Lemma boot_dens_sum_on first R on : (first = true -> R = 0%nat) -> (on = false -> op = 0) ->
  sumq (map (boot_dens op first R) (all_places R on)) = 1.
Proof.
  intros HfR Hoff. destruct on; [apply boot_dens_sum; exact HfR|].
  pose proof (boot_dens_sum first R HfR) as H. rewrite all_places_true_false in H. cbn [boot_dens] in H.
  pose proof (Hoff eq_refl) as E. rewrite E in H |- *. rewrite Qcplus_0_r in H. exact H.
Qed.
End BootDens.

(* ---- the three proposals as proposal-probability tables over histories ---- *)
Section Inst.
Variable n : nat.
Variable on : bool.
Variable gam : list (list bool) -> Qc.
Variable gt : list nat -> list place -> Qc.       (* intermediate targets on histories (newest letter first) *)
Hypothesis gt_pos : forall sg p, 0 < gt sg p.
Hypothesis gt_final : forall sg path, In sg (gorders n) -> In path (gpaths n on sg) ->
  gt sg (rev path) = gam (gdec n sg (rev path)) * gcden n sg (gdec n sg (rev path)).
Variable rs : @swarm place -> bool.
Hypothesis rs_sym : forall m s, rs (bring m s) = rs s.
Variable N : nat.
Variable ops : list op.
Hypothesis Hn : S (count_upd ops) = n.

Definition nroots (sg : list nat) (p : list place) : nat := length (groots (gstate sg p)).
Lemma first_no_roots sg p : isnil p = true -> nroots sg p = 0%nat.
Proof. destruct p; [|discriminate]. intros _. unfold nroots, gstate. cbn [rev]. rewrite grun_nil. reflexivity. Qed.

(* bootstrap *)
Section BootInst.
Variable po : Qc.                                   (* outlier proposal probability *)
Hypothesis po_lt1 : po < 1.
Hypothesis po_on : on = true -> 0 < po.
Hypothesis po_off : on = false -> po = 0.
Definition q_boot (sg : list nat) (p : list place) (a : place) : Qc := pclamp (boot_dens po (isnil p) (nroots sg p) a).

Theorem pg_update_invariant_bootstrap :
  invariant (wlist gam (forests n on)) (pg_update (gorders n) (gcden n) (gsup on) q_boot gt (gdec n) (genc n on) rs N ops).
Proof.
  apply pg_update_invariant_grammar; try assumption.
  - intros sg p a. apply pclamp_pos.
  - intros sg p. unfold q_boot, gsup, gsupp. fold (nroots sg p).
    rewrite sumq_clamp.
    + apply boot_dens_sum_on; [apply first_no_roots| exact po_off].
    + intros a Ha. apply (boot_dens_pos po po_lt1 _ _ on); [apply first_no_roots| exact po_on| exact Ha].
Qed.

End BootInst.

(* fully adapted: every letter in proportion to the target of the history it leads to *)
Definition q_full (sg : list nat) (p : list place) (a : place) : Qc :=
  gt sg (a :: p) / sumq (map (fun a' => gt sg (a' :: p)) (gsup on sg p)).
Lemma full_total_pos sg p : 0 < sumq (map (fun a' => gt sg (a' :: p)) (gsup on sg p)).
Proof. apply sumq_pos; [apply all_places_ne| intros; apply gt_pos]. Qed.

Theorem pg_update_invariant_fully_adapted :
  invariant (wlist gam (forests n on)) (pg_update (gorders n) (gcden n) (gsup on) q_full gt (gdec n) (genc n on) rs N ops).
Proof.
  apply pg_update_invariant_grammar; try assumption.
  - intros sg p a. unfold q_full. apply Qc_div_pos; [apply gt_pos| apply full_total_pos].
  - intros sg p. unfold q_full. pose proof (full_total_pos sg p) as Hp. apply Qc_pos_neq0 in Hp.
    set (T := sumq (map (fun a' => gt sg (a' :: p)) (gsup on sg p))) in *.
    rewrite (sumq_map_ext _ (fun a => / T * gt sg (a :: p))) by (intros; unfold Qcdiv; ring).
    rewrite sumq_map_scale. fold T. field. exact Hp.
Qed.

(* semi adapted: half the mass on the existing clones / outlier in proportion to the target, half uniform over new clones *)
Definition q_semi (sg : list nat) (p : list place) (a : place) : Qc :=
  pclamp (semi_dens (fun a' => gt sg (a' :: p)) (nroots sg p) on a).

Lemma semi_totals sg p :
  (nroots sg p = 0%nat -> total (fun a' => gt sg (a' :: p)) ((if on then [Outlier] else []) ++ [NewOver []]) <> 0)
  /\ (nroots sg p <> 0%nat -> total (fun a' => gt sg (a' :: p)) (semi_exist (nroots sg p) on) <> 0).
Proof.
  split; intros H; apply Qc_pos_neq0; unfold total; apply sumq_pos; try (intros; apply gt_pos).
  - destruct on; discriminate.
  - unfold semi_exist, roots_of. destruct (nroots sg p); [congruence| cbn [seq map app]; discriminate].
Qed.

Lemma semi_dens_pos sg p a : In a (gsup on sg p) -> 0 < semi_dens (fun a' => gt sg (a' :: p)) (nroots sg p) on a.
Proof.
  intros Ha. unfold gsup, gsupp in Ha. fold (nroots sg p) in Ha. destruct (semi_totals sg p) as [T0 T1].
  unfold semi_dens. destruct (Nat.eqb (nroots sg p) 0) eqn:E.
  - apply Nat.eqb_eq in E. apply Qc_div_pos; [apply gt_pos|]. unfold total. apply sumq_pos; [destruct on; discriminate| intros; apply gt_pos].
  - apply Nat.eqb_neq in E. destruct a as [i|sub|].
    + apply Qc_mul_pos; [exact half_pos|]. apply Qc_div_pos; [apply gt_pos|]. unfold total. apply sumq_pos; [|intros; apply gt_pos].
      unfold semi_exist, roots_of. destruct (nroots sg p); [congruence| cbn [seq map app]; discriminate].
    + apply (new_dens_pos _ on sub Ha).
    + apply Qc_mul_pos; [exact half_pos|]. apply Qc_div_pos; [apply gt_pos|]. unfold total. apply sumq_pos; [|intros; apply gt_pos].
      unfold semi_exist, roots_of. destruct (nroots sg p); [congruence| cbn [seq map app]; discriminate].
Qed.

Theorem pg_update_invariant_semi_adapted :
  invariant (wlist gam (forests n on)) (pg_update (gorders n) (gcden n) (gsup on) q_semi gt (gdec n) (genc n on) rs N ops).
Proof.
  apply pg_update_invariant_grammar; try assumption.
  - intros sg p a. apply pclamp_pos.
  - intros sg p. unfold q_semi. rewrite sumq_clamp by (intros a Ha; apply semi_dens_pos; exact Ha).
    destruct (semi_totals sg p) as [T0 T1]. unfold gsup, gsupp. fold (nroots sg p).
    rewrite <- (semi_sample_mass (fun a' => gt sg (a' :: p)) (nroots sg p) on T0 T1). unfold mass.
    rewrite (semi_sample_is_density (fun a' => gt sg (a' :: p)) (nroots sg p) on _ T0 T1).
    apply sumq_map_ext. intros; ring.
Qed.
End Inst.

(* ---- with PhyClone's own schedule and resampling criterion: no premise about sampler, proposal or criterion is left ---- *)
From PV Require Import Model.CsmcCases Proofs.CsmcEss.

Section PhyClone.
Variable n : nat.
Hypothesis n_pos : (1 <= n)%nat.
Variable on : bool.
Variable gam : list (list bool) -> Qc.
Variable gt : list nat -> list place -> Qc.
Hypothesis gt_pos : forall sg p, 0 < gt sg p.
Hypothesis gt_final : forall sg path, In sg (gorders n) -> In path (gpaths n on sg) ->
  gt sg (rev path) = gam (gdec n sg (rev path)) * gcden n sg (gdec n sg (rev path)).
Variable thr : Q.          (* resampling threshold on the relative effective sample size *)
Variable N : nat.          (* number of particles besides the retained one *)

Theorem phyclone_update_invariant_bootstrap (po : Qc) : po < 1 -> (on = true -> 0 < po) -> (on = false -> po = 0) ->
  invariant (wlist gam (forests n on))
    (pg_update (gorders n) (gcden n) (gsup on) (q_boot po) gt (gdec n) (genc n on) (ess_rs thr) N (schedule n)).
Proof.
  intros H1 H2 H3. apply (pg_update_invariant_bootstrap n on gam gt gt_pos gt_final (ess_rs thr) (ess_rs_symmetric thr) N (schedule n) (schedule_count n n_pos) po H1 H2 H3).
Qed.
Theorem phyclone_update_invariant_fully_adapted :
  invariant (wlist gam (forests n on))
    (pg_update (gorders n) (gcden n) (gsup on) (q_full on gt) gt (gdec n) (genc n on) (ess_rs thr) N (schedule n)).
Proof. apply (pg_update_invariant_fully_adapted n on gam gt gt_pos gt_final (ess_rs thr) (ess_rs_symmetric thr) N (schedule n) (schedule_count n n_pos)). Qed.
Theorem phyclone_update_invariant_semi_adapted :
  invariant (wlist gam (forests n on))
    (pg_update (gorders n) (gcden n) (gsup on) (q_semi on gt) gt (gdec n) (genc n on) (ess_rs thr) N (schedule n)).
Proof. apply (pg_update_invariant_semi_adapted n on gam gt gt_pos gt_final (ess_rs thr) (ess_rs_symmetric thr) N (schedule n) (schedule_count n n_pos)). Qed.
End PhyClone.

(* the target premise is satisfiable for every positive gamma: the weights that jump to the final target at the last step.
   With it, PhyClone's update (any of the three proposals, its criterion, its schedule) is invariant with no premise left
   beyond gamma > 0. *)
Theorem phyclone_update_invariant_closed (n : nat) (on : bool) (gam : list (list bool) -> Qc) (thr : Q) (N : nat) :
  (1 <= n)%nat -> (forall t, 0 < gam t) ->
  invariant (wlist gam (forests n on))
    (pg_update (gorders n) (gcden n) (gsup on) (q_full on (gtarget n gam)) (gtarget n gam) (gdec n) (genc n on) (ess_rs thr) N (schedule n))
  /\ invariant (wlist gam (forests n on))
    (pg_update (gorders n) (gcden n) (gsup on) (q_semi on (gtarget n gam)) (gtarget n gam) (gdec n) (genc n on) (ess_rs thr) N (schedule n))
  /\ (forall po : Qc, po < 1 -> (on = true -> 0 < po) -> (on = false -> po = 0) ->
      invariant (wlist gam (forests n on))
        (pg_update (gorders n) (gcden n) (gsup on) (q_boot po) (gtarget n gam) (gdec n) (genc n on) (ess_rs thr) N (schedule n))).
Proof.
  intros Hn Hg. split; [|split].
  - apply (phyclone_update_invariant_fully_adapted n Hn on gam (gtarget n gam) (gtarget_pos n gam Hg) (gtarget_final n on gam Hg)).
  - apply (phyclone_update_invariant_semi_adapted n Hn on gam (gtarget n gam) (gtarget_pos n gam Hg) (gtarget_final n on gam Hg)).
  - intros po. apply (phyclone_update_invariant_bootstrap n Hn on gam (gtarget n gam) (gtarget_pos n gam Hg) (gtarget_final n on gam Hg)).
Qed.
