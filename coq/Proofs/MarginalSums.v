(* Finite sums over index ranges and over all index vectors; list segment lemmas.  Used by C02 and C10. *)
From PV Require Import Model.Marginal.

(* ---------- sumq over arbitrary lists ---------- *)
Lemma sumq_map_zero {X} (l : list X) : sumq (map (fun _ => 0) l) = 0.
Proof. rewrite sumq_map_const. ring. Qed.

Lemma sumq_swap {X Y} (f : X -> Y -> Qc) (la : list X) (lb : list Y) :
  sumq (map (fun a => sumq (map (fun b => f a b) lb)) la)
  = sumq (map (fun b => sumq (map (fun a => f a b) la)) lb).
Proof.
  induction la as [|a la IH]; cbn [map sumq].
  - rewrite sumq_map_zero. reflexivity.
  - rewrite IH, <- sumq_map_plus. reflexivity.
Qed.

Lemma map_flat_map {X Y Z} (F : Y -> Z) (h : X -> list Y) (l : list X) :
  map F (flat_map h l) = flat_map (fun x => map F (h x)) l.
Proof. induction l as [|x l IH]; cbn [flat_map map]; [reflexivity| rewrite map_app, IH; reflexivity]. Qed.

(* ---------- Sum n f = sum_{i<n} f i ---------- *)
Lemma Sum_ext n f g : (forall i, (i < n)%nat -> f i = g i) -> Sum n f = Sum n g.
Proof. intros H. unfold Sum. apply sumq_map_ext. intros a Ha. apply in_seq in Ha. apply H. lia. Qed.
Lemma Sum_0 f : Sum 0 f = 0.
Proof. reflexivity. Qed.
Lemma Sum_S n f : Sum (S n) f = Sum n f + f n.
Proof. unfold Sum. rewrite seq_S, map_app, sumq_app. cbn [map sumq Nat.add]. ring. Qed.
Lemma Sum_shift n f : Sum (S n) f = f 0%nat + Sum n (fun i => f (S i)).
Proof. unfold Sum. cbn [seq map sumq]. rewrite <- seq_shift, map_map. reflexivity. Qed.
Lemma Sum_zero n : Sum n (fun _ => 0) = 0.
Proof. unfold Sum. apply sumq_map_zero. Qed.
Lemma Sum_plus n f g : Sum n (fun i => f i + g i) = Sum n f + Sum n g.
Proof. unfold Sum. apply sumq_map_plus. Qed.
Lemma Sum_scale n c f : Sum n (fun i => c * f i) = c * Sum n f.
Proof. unfold Sum. apply sumq_map_scale. Qed.
Lemma Sum_swap n m (f : nat -> nat -> Qc) :
  Sum n (fun i => Sum m (fun j => f i j)) = Sum m (fun j => Sum n (fun i => f i j)).
Proof. unfold Sum. apply sumq_swap. Qed.
Lemma Sum_sumq_swap {X} n (l : list X) (f : nat -> X -> Qc) :
  Sum n (fun i => sumq (map (fun a => f i a) l)) = sumq (map (fun a => Sum n (fun i => f i a)) l).
Proof. unfold Sum. apply sumq_swap. Qed.

Lemma Sum_nonneg n f : (forall i, (i < n)%nat -> 0 <= f i) -> 0 <= Sum n f.
Proof.
  intros H. unfold Sum. apply sumq_nonneg. intros x Hx. apply in_map_iff in Hx.
  destruct Hx as [i [<- Hi]]. apply in_seq in Hi. apply H. lia.
Qed.
Lemma Sum_pos_first n f : 0 < f 0%nat -> (forall i, (i < S n)%nat -> 0 <= f i) -> 0 < Sum (S n) f.
Proof.
  intros H0 H. rewrite Sum_shift. apply Qc_add_pos; [exact H0|].
  apply Sum_nonneg. intros i Hi. apply H. lia.
Qed.
Lemma Sum_le n f g : (forall i, (i < n)%nat -> f i <= g i) -> Sum n f <= Sum n g.
Proof.
  intros H. induction n as [|n IH]; [rewrite !Sum_0; apply Qcle_refl|].
  rewrite !Sum_S. apply Qcplus_le_compat; [apply IH; intros i Hi; apply H; lia| apply H; lia].
Qed.

(* extend the range with an indicator *)
Lemma Sum_le_indicator m n g : (m <= n)%nat ->
  Sum m g = Sum n (fun i => if (i <? m)%nat then g i else 0).
Proof.
  intros Hmn. replace n with (m + (n - m))%nat by lia. unfold Sum.
  rewrite seq_app, map_app, sumq_app.
  rewrite (sumq_map_ext (fun i => if (i <? m)%nat then g i else 0) g (seq 0 m)).
  2:{ intros i Hi. apply in_seq in Hi. destruct (Nat.ltb_spec i m); [reflexivity|lia]. }
  rewrite (sumq_map_ext (fun i => if (i <? m)%nat then g i else 0) (fun _ => 0) (seq (0 + m) (n - m))).
  2:{ intros i Hi. apply in_seq in Hi. destruct (Nat.ltb_spec i m); [lia|reflexivity]. }
  rewrite sumq_map_zero. ring.
Qed.

Lemma Sum_delta n k g : (k < n)%nat -> Sum n (fun i => if (i =? k)%nat then g i else 0) = g k.
Proof.
  induction n as [|n IH]; intros Hk; [lia|]. rewrite Sum_S.
  destruct (Nat.eq_dec k n) as [->|Hne].
  - rewrite Nat.eqb_refl. rewrite (Sum_ext _ _ (fun _ => 0)).
    + rewrite Sum_zero. ring.
    + intros i Hi. destruct (Nat.eqb_spec i n); [lia|reflexivity].
  - rewrite IH by lia. destruct (Nat.eqb_spec n k); [lia|ring].
Qed.

(* [a <= x] = sum_{s<=x} [a = s] *)
Lemma ind_le_sum a x c :
  (if (a <=? x)%nat then c else 0) = Sum (S x) (fun s => if (a =? s)%nat then c else 0).
Proof.
  destruct (Nat.leb_spec a x) as [H|H].
  - rewrite (Sum_ext _ _ (fun s => if (s =? a)%nat then c else 0)).
    + rewrite (Sum_delta (S x) a (fun _ => c)) by lia. reflexivity.
    + intros i _. rewrite Nat.eqb_sym. reflexivity.
  - rewrite (Sum_ext _ _ (fun _ => 0)); [rewrite Sum_zero; reflexivity|].
    intros i Hi. destruct (Nat.eqb_spec a i); [lia|reflexivity].
Qed.
Lemma ind_le_sum_and a x (A : bool) c :
  (if (a <=? x)%nat && A then c else 0) = Sum (S x) (fun s => if (a =? s)%nat && A then c else 0).
Proof.
  destruct A.
  - rewrite andb_true_r, ind_le_sum. apply Sum_ext. intros i _. rewrite andb_true_r. reflexivity.
  - rewrite andb_false_r. rewrite (Sum_ext _ _ (fun _ => 0)); [rewrite Sum_zero; reflexivity|].
    intros i _. rewrite andb_false_r. reflexivity.
Qed.

(* triangular range as an indicator on the square *)
Lemma Sum_tri s j g : (j <= s)%nat ->
  Sum (S (s - j)) g = Sum (S s) (fun i => if (i + j <=? s)%nat then g i else 0).
Proof.
  intros Hj. rewrite (Sum_le_indicator (S (s - j)) (S s)) by lia.
  apply Sum_ext. intros i _.
  destruct (Nat.ltb_spec i (S (s - j))), (Nat.leb_spec (i + j) s); try reflexivity; lia.
Qed.

(* ---------- grid vectors ---------- *)
Lemma vec_of_length G f : length (vec_of G f) = G.
Proof. unfold vec_of. rewrite map_length, seq_length. reflexivity. Qed.
Lemma vec_of_nth G f i : (i < G)%nat -> vget (vec_of G f) i = f i.
Proof.
  intros Hi. unfold vget, vec_of.
  rewrite (nth_indep _ 0 (f 0%nat)) by (rewrite map_length, seq_length; exact Hi).
  rewrite map_nth, seq_nth by exact Hi. reflexivity.
Qed.
Lemma vec_of_ext G f g : (forall i, (i < G)%nat -> f i = g i) -> vec_of G f = vec_of G g.
Proof. intros H. unfold vec_of. apply map_ext_in. intros i Hi. apply in_seq in Hi. apply H. lia. Qed.
Lemma vec_of_eta G f : vec_of G (fun i => vget (vec_of G f) i) = vec_of G f.
Proof. apply vec_of_ext. intros i Hi. apply vec_of_nth. exact Hi. Qed.

(* ---------- all index vectors ---------- *)
Lemma all_vecs_S G n (F : list nat -> Qc) :
  sumq (map F (all_vecs G (S n))) = Sum G (fun x => sumq (map (fun w => F (x :: w)) (all_vecs G n))).
Proof.
  cbn [all_vecs]. rewrite map_flat_map, sumq_flat_map. unfold Sum.
  apply sumq_map_ext. intros x _. rewrite map_map. reflexivity.
Qed.
Lemma all_vecs_app G a b (F : list nat -> Qc) :
  sumq (map F (all_vecs G (a + b)))
  = sumq (map (fun v1 => sumq (map (fun v2 => F (v1 ++ v2)) (all_vecs G b))) (all_vecs G a)).
Proof.
  revert F. induction a as [|a IH]; intros F.
  - change (0 + b)%nat with b. cbn [all_vecs map sumq app]. rewrite Qcplus_0_r. reflexivity.
  - cbn [Nat.add]. rewrite !all_vecs_S. apply Sum_ext. intros x _.
    rewrite IH. reflexivity.
Qed.
Lemma all_vecs_length G n v : In v (all_vecs G n) -> length v = n.
Proof.
  revert v. induction n as [|n IH]; intros v Hv; cbn [all_vecs] in Hv.
  - destruct Hv as [<-|[]]. reflexivity.
  - apply in_flat_map in Hv. destruct Hv as [x [_ Hv]]. apply in_map_iff in Hv.
    destruct Hv as [w [<- Hw]]. cbn [length]. f_equal. apply IH. exact Hw.
Qed.
Lemma all_vecs_bound G n v : In v (all_vecs G n) -> Forall (fun x => (x < G)%nat) v.
Proof.
  revert v. induction n as [|n IH]; intros v Hv; cbn [all_vecs] in Hv.
  - destruct Hv as [<-|[]]. constructor.
  - apply in_flat_map in Hv. destruct Hv as [x [Hx Hv]]. apply in_map_iff in Hv.
    destruct Hv as [w [<- Hw]]. apply in_seq in Hx. constructor; [lia| apply IH; exact Hw].
Qed.
Lemma all_vecs_complete G n v : length v = n -> Forall (fun x => (x < G)%nat) v -> In v (all_vecs G n).
Proof.
  revert v. induction n as [|n IH]; intros v Hl Hb.
  - destruct v; [left; reflexivity| discriminate].
  - destruct v as [|x w]; [discriminate|]. cbn [all_vecs]. apply in_flat_map. exists x.
    inversion Hb; subst. split; [apply in_seq; lia|]. apply in_map. apply IH; [cbn in Hl; lia| assumption].
Qed.

(* ---------- segments ---------- *)
Lemma firstn_app_exact {X} (a b : list X) : firstn (length a) (a ++ b) = a.
Proof. induction a as [|x a IH]; cbn [length firstn app]; [reflexivity| rewrite IH; reflexivity]. Qed.
Lemma skipn_app_exact {X} (a b : list X) : skipn (length a) (a ++ b) = b.
Proof. induction a as [|x a IH]; cbn [length skipn app]; [reflexivity| exact IH]. Qed.

Lemma segmap_cons_app {A B} (f : tree A -> list nat -> B) k r v1 v2 :
  length v1 = size k -> segmap f (k :: r) (v1 ++ v2) = f k v1 :: segmap f r v2.
Proof. intros H. cbn [segmap]. rewrite <- H, firstn_app_exact, skipn_app_exact. reflexivity. Qed.

(* nested induction principle for rose trees *)
Section TreeInd.
Context {A : Type} (P : tree A -> Prop).
Hypothesis H : forall a ks, Forall P ks -> P (Node a ks).
Fixpoint tree_ind' (t : tree A) : P t :=
  match t with
  | Node a ks =>
      H a ks ((fix go (l : list (tree A)) : Forall P l :=
                 match l with [] => Forall_nil _ | k :: r => Forall_cons _ (tree_ind' k) (go r) end) ks)
  end.
End TreeInd.
