From PV Require Import Model.Proposals Proofs.GibbsProofs.

Lemma half_half : half + half = 1.
Proof. apply Qc_is_canon. reflexivity. Qed.

Lemma length_subsets_k {A} (l : list A) : forall k, length (subsets_k k l) = C (length l) k.
Proof.
  induction l as [|x r IH]; intros [|k]; cbn [subsets_k C length]; try reflexivity.
  rewrite app_length, map_length, !IH. reflexivity.
Qed.
Lemma C_pos n : forall k, (k <= n)%nat -> (0 < C n k)%nat.
Proof.
  induction n as [|n IH]; intros [|k] Hk; cbn [C]; try lia.
  assert (0 < C n k)%nat by (apply IH; lia). lia.
Qed.
Lemma subsets_nonempty R k : (k <= R)%nat -> subsets_k k (roots_of R) <> [].
Proof.
  intros Hk He. apply (f_equal (@length _)) in He. rewrite length_subsets_k in He.
  unfold roots_of in He. rewrite seq_length in He. pose proof (C_pos R k Hk). cbn [length] in He. lia.
Qed.

Lemma E_uniform_in {X} (l : list X) f g :
  l <> [] -> (forall x, In x l -> f x = g x) -> E (uniform l) f = sumq (map g l) / qn (length l).
Proof. intros Hl H. rewrite E_uniform by exact Hl. f_equal. apply sumq_map_ext. exact H. Qed.

(* the uniform new-clone draw has the density 1 / ((R+1) C(R,k)) on every subset *)
Lemma new_draw_E R f :
  E (new_draw R) f = sumq (map (fun p => match p with NewOver s => / (qn (S R) * qn (C R (length s))) | _ => 0 end * f p) (new_places R)).
Proof.
  unfold new_draw, new_places. rewrite E_bind. rewrite E_uniform by (cbn [seq]; discriminate).
  rewrite seq_length.
  rewrite flat_map_concat_map, concat_map, map_map, <- flat_map_concat_map, sumq_flat_map.
  unfold Qcdiv. rewrite Qcmult_comm, <- sumq_map_scale. apply sumq_map_ext. intros k Hk.
  apply in_seq in Hk. assert (Hle : (k <= R)%nat) by lia.
  rewrite E_dmap, E_uniform by (apply subsets_nonempty; exact Hle).
  rewrite length_subsets_k. unfold roots_of at 2. rewrite seq_length.
  rewrite map_map.
  rewrite (sumq_map_ext (fun x => / (qn (S R) * qn (C R (length x))) * f (NewOver x))
                        (fun x => / (qn (S R) * qn (C R k)) * f (NewOver x))).
  { rewrite sumq_map_scale. unfold Qcdiv. rewrite Qcinv_mult_distr. ring. }
  intros s Hs. f_equal. f_equal. f_equal. f_equal.
  assert (Hlen : length s = k).
  { clear -Hs. revert k Hs. generalize (roots_of R). intros l. revert s.
    induction l as [|x r IH]; intros s [|k] Hs; cbn [subsets_k] in Hs.
    - destruct Hs as [<-|[]]; reflexivity.
    - contradiction.
    - destruct Hs as [<-|[]]; reflexivity.
    - apply in_app_or in Hs. destruct Hs as [Hs|Hs].
      + apply in_map_iff in Hs. destruct Hs as [s' [<- Hs']]. cbn [length]. f_equal. apply IH. exact Hs'.
      + apply IH. exact Hs. }
  rewrite Hlen; reflexivity.
Qed.

Lemma new_draw_mass R : mass (new_draw R) = 1.
Proof.
  unfold mass, new_draw. rewrite E_bind.
  rewrite (E_uniform_in _ _ (fun _ => 1)) by ((cbn [seq]; discriminate) ||
    (intros k Hk; apply in_seq in Hk; rewrite E_dmap; apply mass_uniform, subsets_nonempty; lia)).
  rewrite sumq_map_const. field. apply Qc_pos_neq0, qn_pos. rewrite seq_length. lia.
Qed.

Section Boot.
Variable op : Qc.

Lemma sumq_map_app {X} (g : X -> Qc) l1 l2 : sumq (map g (l1 ++ l2)) = sumq (map g l1) + sumq (map g l2).
Proof. rewrite map_app. apply sumq_app. Qed.

(* the bootstrap sampler IS the density-weighted list of all placements (faithfulness + normalisation + support) *)
Theorem boot_sample_is_density first R f :
  (first = true -> R = 0%nat) ->
  E (boot_sample op first R) f = sumq (map (fun p => boot_dens op first R p * f p) (all_places R true)).
Proof.
  intros HfR. unfold boot_sample, all_places.
  destruct (first || Nat.eqb R 0) eqn:Hb.
  - assert (R = 0%nat) as ->.
    { apply orb_true_iff in Hb. destruct Hb as [Hb|Hb]; [apply HfR; exact Hb| apply Nat.eqb_eq; exact Hb]. }
    cbn [roots_of seq map app new_places flat_map subsets_k E sumq boot_dens length]. rewrite Hb. ring.
  - apply orb_false_iff in Hb. destruct Hb as [Hf HR]. apply Nat.eqb_neq in HR.
    rewrite !E_app, !E_scale, E_dmap, new_draw_E. cbn [E].
    rewrite !sumq_map_app. cbn [map sumq boot_dens].
    rewrite E_uniform by (unfold roots_of; destruct R; [congruence| cbn [seq]; discriminate]).
    unfold roots_of at 2. rewrite seq_length.
    rewrite map_map. f_equal; [|f_equal].
    + cbn [boot_dens].
      rewrite (sumq_map_scale (fun x => f (Existing x)) ((1 - op) * half / qn R)). unfold Qcdiv. ring.
    + rewrite <- sumq_map_scale. apply sumq_map_ext. intros p Hp.
      unfold new_places in Hp. apply in_flat_map in Hp. destruct Hp as [k [_ Hp]].
      apply in_map_iff in Hp. destruct Hp as [s [<- _]]. cbn [boot_dens]. rewrite Hf. cbn [orb].
      destruct (Nat.eqb R 0) eqn:HR0; [apply Nat.eqb_eq in HR0; congruence|]. unfold Qcdiv. ring.
Qed.

Theorem boot_sample_mass first R : (first = true -> R = 0%nat) -> mass (boot_sample op first R) = 1.
Proof.
  intros HfR. unfold mass, boot_sample. destruct (first || Nat.eqb R 0) eqn:Hb.
  - cbn [E]. ring.
  - apply orb_false_iff in Hb. destruct Hb as [_ HR]. apply Nat.eqb_neq in HR.
    rewrite !E_app, !E_scale, E_dmap. fold (mass (new_draw R)). rewrite new_draw_mass. cbn [E].
    fold (mass (uniform (roots_of R))). rewrite mass_uniform by (unfold roots_of; destruct R; [congruence| cbn [seq]; discriminate]).
    transitivity ((1 - op) * (half + half) + op); [ring| rewrite half_half; ring].
Qed.
End Boot.

(* telescoping of the incremental weights: prod_t w_t * prod_t q_t = g_T / g_0 *)
Fixpoint lastq (d : Qc) (l : list Qc) : Qc := match l with [] => d | x :: r => lastq x r end.
Theorem weights_telescope : forall gs qs g0,
  length gs = length qs -> g0 <> 0 -> Forall (fun g => g <> 0) gs -> Forall (fun q => q <> 0) qs ->
  prodq (path_weights g0 gs qs) * prodq qs = lastq g0 gs / g0.
Proof.
  induction gs as [|g gs IH]; intros qs g0 Hl Hg0 Hgs Hqs; destruct qs as [|q qs]; cbn [length] in Hl; try discriminate.
  - cbn [path_weights prodq lastq]. field. exact Hg0.
  - inversion Hgs as [|? ? Hg Hgs']; subst. inversion Hqs as [|? ? Hq Hqs']; subst.
    cbn [path_weights prodq lastq].
    transitivity ((g / g0) * (prodq (path_weights g gs qs) * prodq qs)); [field; split; assumption|].
    rewrite (IH qs g) by (auto; lia).
    assert (Hlast : lastq g gs / g * (g / g0) = lastq g gs / g0) by (field; split; assumption).
    rewrite <- Hlast. ring.
Qed.

Section Adapted.
Variable gam : place -> Qc.

Lemma E_gibbs_sum cs f : total gam cs <> 0 ->
  E (gibbs gam cs) f = sumq (map (fun p => gam p / total gam cs * f p) cs).
Proof.
  intros Ht. rewrite E_gibbs by exact Ht. unfold pi_fiber. rewrite E_wlist.
  unfold Qcdiv. rewrite Qcmult_comm, <- sumq_map_scale. apply sumq_map_ext. intros; ring.
Qed.

Theorem full_sample_is_density R on f : total gam (all_places R on) <> 0 ->
  E (full_sample gam R on) f = sumq (map (fun p => full_dens gam R on p * f p) (all_places R on)).
Proof. intros Ht. unfold full_sample, full_dens. apply E_gibbs_sum. exact Ht. Qed.
Theorem full_sample_mass R on : total gam (all_places R on) <> 0 -> mass (full_sample gam R on) = 1.
Proof. apply gibbs_mass. Qed.

Theorem semi_sample_is_density R (on : bool) f :
  (R = 0%nat -> total gam ((if on then [Outlier] else []) ++ [NewOver []]) <> 0) ->
  (R <> 0%nat -> total gam (semi_exist R on) <> 0) ->
  E (semi_sample gam R on) f = sumq (map (fun p => semi_dens gam R on p * f p) (all_places R on)).
Proof.
  intros H0 H1. unfold semi_sample, semi_dens. destruct (Nat.eqb R 0) eqn:HR.
  - apply Nat.eqb_eq in HR. subst R. rewrite E_gibbs_sum by (apply H0; reflexivity).
    unfold all_places, new_places. cbn [roots_of seq map app flat_map subsets_k].
    destruct on; cbn [app map sumq]; ring.
  - apply Nat.eqb_neq in HR. rewrite E_app, !E_scale, new_draw_E, E_gibbs_sum by (apply H1; exact HR).
    unfold all_places, semi_exist. rewrite !sumq_map_app.
    assert (Hnew : half * sumq (map (fun p => match p with NewOver s => / (qn (S R) * qn (C R (length s))) | _ => 0 end * f p) (new_places R))
                 = sumq (map (fun p => match p with NewOver sub => half / (qn (S R) * qn (C R (length sub))) | _ => half * (gam p / total gam (map Existing (roots_of R) ++ (if on then [Outlier] else []))) end * f p) (new_places R))).
    { rewrite <- sumq_map_scale. apply sumq_map_ext. intros p Hp. unfold new_places in Hp.
      apply in_flat_map in Hp. destruct Hp as [k [_ Hp]]. apply in_map_iff in Hp. destruct Hp as [s [<- _]].
      unfold Qcdiv. ring. }
    rewrite <- Hnew.
    rewrite !map_map.
    assert (Hex : forall l, half * sumq (map (fun p => gam p / total gam (map Existing (roots_of R) ++ (if on then [Outlier] else [])) * f p) l)
                  = sumq (map (fun p => half * (gam p / total gam (map Existing (roots_of R) ++ (if on then [Outlier] else []))) * f p) l)).
    { intros l. rewrite <- sumq_map_scale. apply sumq_map_ext. intros; ring. }
    rewrite Qcmult_plus_distr_r.
    rewrite <- (map_map Existing (fun p => gam p / _ * f p)), Hex, map_map.
    rewrite Hex. destruct on; cbn [map sumq]; ring.
Qed.

Theorem semi_sample_mass R (on : bool) :
  (R = 0%nat -> total gam ((if on then [Outlier] else []) ++ [NewOver []]) <> 0) ->
  (R <> 0%nat -> total gam (semi_exist R on) <> 0) ->
  mass (semi_sample gam R on) = 1.
Proof.
  intros H0 H1. unfold mass, semi_sample. destruct (Nat.eqb R 0) eqn:HR.
  - apply Nat.eqb_eq in HR. apply gibbs_mass. apply H0. exact HR.
  - apply Nat.eqb_neq in HR. rewrite E_app, !E_scale.
    fold (mass (gibbs gam (semi_exist R on))). fold (mass (new_draw R)).
    rewrite gibbs_mass by (apply H1; exact HR). rewrite new_draw_mass.
    transitivity (half + half); [ring| apply half_half].
Qed.
End Adapted.
