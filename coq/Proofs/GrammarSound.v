(* Soundness of the grammar: every state reached by valid letters is a forest compatible with the order in which its
   points were placed, and the list of top-level representatives is exactly one point per top-level clone. *)
From PV Require Import Model.Grammar Proofs.ProposalsPoint.
From Coq Require Import Bool.

Record ginv (s : gst) : Prop := mkGinv {
  gi_nd : NoDup (gpl s);
  gi_wf : wf (gpl s) (gle s);
  gi_compat : compat (gpl s) (gle s);
  gi_rnd : NoDup (groots s);
  gi_rtop : forall y, In y (groots s) -> gle s y y = true /\ forall z, gle s z y = true -> gle s y z = true;
  gi_rsep : forall y y', In y (groots s) -> In y' (groots s) -> gle s y y' = true -> y = y';
  gi_rcov : forall x, gle s x x = true -> exists y, In y (groots s) /\ gle s y x = true
}.

Lemma ginv_g0 : ginv g0.
Proof.
  constructor; cbn; try constructor; try discriminate; try contradiction.
Qed.

Lemma compat_ext (pl : list nat) (r r' : rel) :
  (forall a b, In a pl -> In b pl -> r a b = r' a b) -> compat pl r -> compat pl r'.
Proof.
  induction pl as [|x pl IH]; intros He Hc; cbn [compat] in *; [exact I|].
  destruct Hc as [Hh Ht]. split.
  - intros z Hz H. rewrite <- He in H by (cbn; auto). rewrite <- He by (cbn; auto). apply Hh; assumption.
  - apply IH; [intros a b Ha Hb; apply He; cbn; auto| exact Ht].
Qed.

(* letters of the alphabet name valid indices *)
Lemma in_all_places_existing R on i : In (Existing i) (all_places R on) -> (i < R)%nat.
Proof.
  unfold all_places. intros H. apply in_app_or in H. destruct H as [H|H].
  - apply in_map_iff in H. destruct H as [j [He Hj]]. injection He as ->. unfold roots_of in Hj. apply in_seq in Hj. lia.
  - apply in_app_or in H. destruct H as [H|H].
    + unfold new_places in H. apply in_flat_map in H. destruct H as [k [_ H]]. apply in_map_iff in H. destruct H as [s [He _]]. discriminate.
    + destruct on; [destruct H as [H|[]]; discriminate| contradiction].
Qed.
Lemma in_all_places_new R on sub : In (NewOver sub) (all_places R on) -> In sub (subsets_k (length sub) (roots_of R)).
Proof.
  unfold all_places. intros H. apply in_app_or in H. destruct H as [H|H].
  - apply in_map_iff in H. destruct H as [j [He _]]. discriminate.
  - apply in_app_or in H. destruct H as [H|H].
    + unfold new_places in H. apply in_flat_map in H. destruct H as [k [_ H]]. apply in_map_iff in H. destruct H as [s [He Hs]].
      injection He as ->. destruct (subsets_k_sub _ _ _ Hs) as [_ Hl]. rewrite Hl. exact Hs.
    + destruct on; [destruct H as [H|[]]; discriminate| contradiction].
Qed.
Lemma in_all_places_outlier R on : In Outlier (all_places R on) -> on = true.
Proof.
  unfold all_places. intros H. apply in_app_or in H. destruct H as [H|H].
  - apply in_map_iff in H. destruct H as [j [He _]]. discriminate.
  - apply in_app_or in H. destruct H as [H|H].
    + unfold new_places in H. apply in_flat_map in H. destruct H as [k [_ H]]. apply in_map_iff in H. destruct H as [s [He _]]. discriminate.
    + destruct on; [reflexivity| contradiction].
Qed.
Lemma pick_in d l idx : (forall i, In i idx -> (i < length l)%nat) -> forall y, In y (pick d l idx) -> In y l.
Proof.
  intros H y Hy. unfold pick in Hy. apply in_map_iff in Hy. destruct Hy as [i [<- Hi]]. apply nth_In. apply H. exact Hi.
Qed.
Lemma new_letter_sub R on sub : In (NewOver sub) (all_places R on) -> forall i, In i sub -> (i < R)%nat.
Proof.
  intros H i Hi. apply in_all_places_new in H. destruct (subsets_k_sub _ _ _ H) as [H1 _].
  specialize (H1 i Hi). unfold roots_of in H1. apply in_seq in H1. lia.
Qed.

Lemma memb_in x l : memb x l = true <-> In x l.
Proof.
  unfold memb. rewrite existsb_exists. split.
  - intros [y [Hy He]]. apply Nat.eqb_eq in He. subst. exact Hy.
  - intros H. exists x. split; [exact H| apply Nat.eqb_refl].
Qed.

Section Step.
Variable s : gst.
Variable x : nat.
Hypothesis Hinv : ginv s.
Hypothesis Hx : ~ In x (gpl s).

Let le := gle s.
Lemma fresh_row b : le x b = false.
Proof. destruct (le x b) eqn:E; [|reflexivity]. destruct (wf_dom _ _ (gi_wf s Hinv) x b E) as [H _]. contradiction. Qed.
Lemma fresh_col a : le a x = false.
Proof. destruct (le a x) eqn:E; [|reflexivity]. destruct (wf_dom _ _ (gi_wf s Hinv) a x E) as [_ H]. contradiction. Qed.
Lemma root_placed y : In y (groots s) -> In y (gpl s).
Proof. intros Hy. destruct (gi_rtop s Hinv y Hy) as [H _]. apply (wf_dom _ _ (gi_wf s Hinv) y y H). Qed.
Lemma root_neq y : In y (groots s) -> y <> x.
Proof. intros Hy ->. apply Hx. apply root_placed. exact Hy. Qed.

(* ---- outlier ---- *)
Lemma step_outlier : ginv (gstep s x Outlier).
Proof.
  destruct Hinv as [Hnd Hwf Hc Hrnd Hrtop Hrsep Hrcov].
  constructor; cbn [gstep gpl gle groots]; try assumption.
  - constructor; assumption.
  - destruct Hwf as [Hd Hr Ht Hch]. constructor; try assumption.
    intros a b H. destruct (Hd a b H). split; right; assumption.
  - cbn [compat]. split; [|exact Hc]. intros z _ H. fold le in H. rewrite fresh_col in H. discriminate.
Qed.

(* ---- into the top-level clone represented by y ---- *)
Variable y : nat.
Hypothesis Hy : In y (groots s).
Definition phi (a : nat) : nat := if a =? x then y else a.
Definition le_ex : rel := fun a b => if a =? x then (if b =? x then true else le y b) else if b =? x then le a y else le a b.
Lemma le_ex_pull a b : le_ex a b = le (phi a) (phi b).
Proof.
  unfold le_ex, phi. destruct (gi_rtop s Hinv y Hy) as [Hyy _]. fold le in Hyy.
  destruct (a =? x), (b =? x); try reflexivity. symmetry. exact Hyy.
Qed.
Lemma phi_old a : a <> x -> phi a = a.
Proof. intros H. unfold phi. apply Nat.eqb_neq in H. rewrite H. reflexivity. Qed.
Lemma phi_in a : In (phi a) (gpl s) -> In a (x :: gpl s).
Proof. unfold phi. destruct (Nat.eqb_spec a x) as [->|Hn]; [left; reflexivity| right; assumption]. Qed.

Lemma step_existing_gen : ginv (mkG (x :: gpl s) le_ex (groots s)).
Proof.
  pose proof (root_neq y Hy) as Hyx.
  destruct Hinv as [Hnd Hwf Hc Hrnd Hrtop Hrsep Hrcov]. destruct Hwf as [Hd Hr Ht Hch]. fold le in Hd, Hr, Ht, Hch, Hc, Hrtop, Hrsep, Hrcov.
  constructor; cbn [gpl gle groots].
  - constructor; assumption.
  - constructor.
    + intros a b H. rewrite le_ex_pull in H. destruct (Hd _ _ H). split; apply phi_in; assumption.
    + intros a b H. rewrite !le_ex_pull in *. apply Hr; assumption.
    + intros a b c H1 H2. rewrite !le_ex_pull in *. eapply Ht; eassumption.
    + intros a b c H1 H2. rewrite !le_ex_pull in *. eapply Hch; eassumption.
  - cbn [compat]. split.
    + intros z Hz H. rewrite le_ex_pull in *. assert (z <> x) by (intros ->; contradiction).
      rewrite (phi_old z) in * by assumption. unfold phi in *. rewrite Nat.eqb_refl in *.
      apply (proj2 (Hrtop y Hy)). exact H.
    + apply (compat_ext _ le); [|exact Hc]. intros a b Ha Hb. rewrite le_ex_pull.
      rewrite !phi_old; [reflexivity| intros ->; contradiction| intros ->; contradiction].
  - exact Hrnd.
  - intros y0 Hy0. pose proof (root_neq y0 Hy0) as Hn. destruct (Hrtop y0 Hy0) as [H1 H2]. split.
    + rewrite le_ex_pull, !phi_old by assumption. exact H1.
    + intros z H. rewrite le_ex_pull in *. rewrite (phi_old y0) in * by assumption. apply H2. exact H.
  - intros y1 y2 H1 H2 H. rewrite le_ex_pull in H. rewrite !phi_old in H by (apply root_neq; assumption). apply Hrsep; assumption.
  - intros p H. rewrite le_ex_pull in H. destruct (Hrcov _ H) as [y0 [Hy0 Hl]]. exists y0. split; [exact Hy0|].
    rewrite le_ex_pull. rewrite (phi_old y0) by (apply root_neq; assumption). exact Hl.
Qed.
End Step.

Section StepNew.
Variable s : gst.
Variable x : nat.
Hypothesis Hinv : ginv s.
Hypothesis Hx : ~ In x (gpl s).
Variable S : list nat.
Hypothesis HS : forall r, In r S -> In r (groots s).
Let le := gle s.
Definition below (b : nat) : bool := existsb (fun r => le r b) S.
Definition le_new : rel := fun a b => if a =? x then ((b =? x) || below b) else if b =? x then false else le a b.

Lemma below_spec b : below b = true <-> exists r, In r S /\ le r b = true.
Proof. unfold below. apply existsb_exists. Qed.
(* a top-level representative below a chosen one is that chosen one *)
Lemma below_root y0 : In y0 (groots s) -> below y0 = true -> In y0 S.
Proof.
  intros Hy0 H. apply below_spec in H. destruct H as [r [Hr Hl]].
  rewrite <- (gi_rsep s Hinv r y0 (HS r Hr) Hy0 Hl). exact Hr.
Qed.

Lemma step_new_gen : ginv (mkG (x :: gpl s) le_new (x :: filter (fun r => negb (memb r S)) (groots s))).
Proof.
  pose proof (fresh_row s x Hinv Hx) as Frow. pose proof (fresh_col s x Hinv Hx) as Fcol.
  pose proof (root_neq s x Hinv Hx) as Hrn. pose proof (root_placed s Hinv) as Hrp.
  pose proof below_root as Hbr.
  destruct Hinv as [Hnd Hwf Hc Hrnd Hrtop Hrsep Hrcov]. destruct Hwf as [Hd Hr Ht Hch]. fold le in Hd, Hr, Ht, Hch, Hc, Hrtop, Hrsep, Hrcov, Frow, Fcol.
  assert (Hle_old : forall a b, a <> x -> b <> x -> le_new a b = le a b).
  { intros a b Ha Hb. unfold le_new. apply Nat.eqb_neq in Ha, Hb. rewrite Ha, Hb. reflexivity. }
  assert (Hle_row : forall b, b <> x -> le_new x b = below b).
  { intros b Hb. unfold le_new. apply Nat.eqb_neq in Hb. rewrite Nat.eqb_refl, Hb. reflexivity. }
  assert (Hle_col : forall a, a <> x -> le_new a x = false).
  { intros a Ha. unfold le_new. apply Nat.eqb_neq in Ha. rewrite Ha, Nat.eqb_refl. reflexivity. }
  assert (Hle_xx : le_new x x = true).
  { unfold le_new. rewrite Nat.eqb_refl. reflexivity. }
  assert (Hbelow_old : forall b, below b = true -> b <> x /\ le b b = true /\ In b (gpl s)).
  { intros b Hb. apply below_spec in Hb. destruct Hb as [r [_ Hl]]. destruct (Hd _ _ Hl) as [_ Hin].
    split; [intros ->; contradiction| split; [apply (Hr _ _ Hl)| exact Hin]]. }
  constructor; cbn [gpl gle groots].
  - constructor; assumption.
  - constructor.
    + intros a b H. destruct (Nat.eq_dec a x) as [->|Ha]; destruct (Nat.eq_dec b x) as [->|Hb].
      * split; left; reflexivity.
      * rewrite Hle_row in H by assumption. destruct (Hbelow_old _ H) as [_ [_ Hin]]. split; [left; reflexivity| right; exact Hin].
      * rewrite Hle_col in H by assumption. discriminate.
      * rewrite Hle_old in H by assumption. destruct (Hd _ _ H). split; right; assumption.
    + intros a b H. destruct (Nat.eq_dec a x) as [->|Ha]; destruct (Nat.eq_dec b x) as [->|Hb].
      * split; assumption.
      * rewrite Hle_row in H by assumption. destruct (Hbelow_old _ H) as [_ [Hbb _]]. split; [exact Hle_xx| rewrite Hle_old by assumption; exact Hbb].
      * rewrite Hle_col in H by assumption. discriminate.
      * rewrite Hle_old in * by assumption. rewrite !Hle_old by assumption. apply Hr; assumption.
    + intros a b c H1 H2. destruct (Nat.eq_dec a x) as [->|Ha].
      * destruct (Nat.eq_dec c x) as [->|Hcx]; [exact Hle_xx|]. rewrite Hle_row by assumption.
        destruct (Nat.eq_dec b x) as [->|Hb]; [rewrite Hle_row in H2 by assumption; exact H2|].
        rewrite Hle_row in H1 by assumption. rewrite Hle_old in H2 by assumption.
        apply below_spec in H1. destruct H1 as [r [HrS Hl]]. apply below_spec. exists r. split; [exact HrS| eapply Ht; eassumption].
      * destruct (Nat.eq_dec b x) as [->|Hb]; [rewrite Hle_col in H1 by assumption; discriminate|].
        destruct (Nat.eq_dec c x) as [->|Hcx]; [rewrite Hle_col in H2 by assumption; discriminate|].
        rewrite Hle_old in * by assumption. eapply Ht; eassumption.
    + intros a b p H1 H2.
      assert (Hkey : forall a' b' , a' = x -> b' <> x -> le_new a' p = true -> le_new b' p = true -> le_new a' b' = true).
      { intros a' b' -> Hb' Ha1 Hb1.
        destruct (Nat.eq_dec p x) as [->|Hp]; [rewrite Hle_col in Hb1 by assumption; discriminate|].
        rewrite Hle_row in Ha1 by assumption. rewrite Hle_old in Hb1 by assumption. rewrite Hle_row by assumption.
        apply below_spec in Ha1. destruct Ha1 as [r [HrS Hl]]. apply below_spec. exists r. split; [exact HrS|].
        destruct (Hch _ _ _ Hl Hb1) as [H|H]; [exact H|]. apply (proj2 (Hrtop r (HS r HrS))). exact H. }
      destruct (Nat.eq_dec a x) as [Ha|Ha]; destruct (Nat.eq_dec b x) as [Hb|Hb].
      * subst. left. exact Hle_xx.
      * left. apply Hkey; assumption.
      * right. apply Hkey; assumption.
      * destruct (Nat.eq_dec p x) as [->|Hp]; [rewrite Hle_col in H1 by assumption; discriminate|].
        rewrite Hle_old in * by assumption. rewrite !Hle_old by assumption. eapply Hch; eassumption.
  - cbn [compat]. split.
    + intros z Hz H. assert (z <> x) by (intros ->; contradiction). rewrite Hle_col in H by assumption. discriminate.
    + apply (compat_ext _ le); [|exact Hc]. intros a b Ha Hb. rewrite Hle_old; [reflexivity| intros ->; contradiction| intros ->; contradiction].
  - constructor.
    + intros H. apply filter_In in H. destruct H as [H _]. apply (Hrn x H). reflexivity.
    + apply NoDup_filter. exact Hrnd.
  - intros y0 [<-|Hy0].
    + split; [exact Hle_xx|]. intros z H. destruct (Nat.eq_dec z x) as [->|Hz]; [exact Hle_xx| rewrite Hle_col in H by assumption; discriminate].
    + apply filter_In in Hy0. destruct Hy0 as [Hy0 Hns]. pose proof (Hrn y0 Hy0) as Hn. destruct (Hrtop y0 Hy0) as [H1 H2]. split.
      * rewrite Hle_old by assumption. exact H1.
      * intros z H. destruct (Nat.eq_dec z x) as [->|Hz].
        -- rewrite Hle_row in H by assumption. apply (Hbr y0 Hy0) in H. apply memb_in in H. rewrite H in Hns. discriminate.
        -- rewrite Hle_old in * by assumption. apply H2. exact H.
  - intros y1 y2 [<-|H1] [<-|H2] H; try reflexivity.
    + apply filter_In in H2. destruct H2 as [H2 Hns]. rewrite Hle_row in H by (apply Hrn; assumption).
      apply (Hbr y2 H2) in H. apply memb_in in H. rewrite H in Hns. discriminate.
    + apply filter_In in H1. destruct H1 as [H1 _]. rewrite Hle_col in H by (apply Hrn; assumption). discriminate.
    + apply filter_In in H1. apply filter_In in H2. destruct H1 as [H1 _], H2 as [H2 _].
      rewrite Hle_old in H by (apply Hrn; assumption). apply Hrsep; assumption.
  - intros p H. destruct (Nat.eq_dec p x) as [->|Hp].
    + exists x. split; [left; reflexivity| exact Hle_xx].
    + rewrite Hle_old in H by assumption. destruct (Hrcov _ H) as [y0 [Hy0 Hl]].
      destruct (memb y0 S) eqn:Hm.
      * exists x. split; [left; reflexivity|]. rewrite Hle_row by assumption. apply below_spec. exists y0. split; [apply memb_in; exact Hm| exact Hl].
      * exists y0. split; [right; apply filter_In; split; [exact Hy0| rewrite Hm; reflexivity]|]. rewrite Hle_old; [exact Hl| apply Hrn; exact Hy0| exact Hp].
Qed.
End StepNew.

(* one step of the grammar preserves the invariant *)
Theorem gstep_inv on s x a : ginv s -> ~ In x (gpl s) -> In a (gsupp on s) -> ginv (gstep s x a).
Proof.
  intros Hinv Hx Ha. unfold gsupp in Ha. destruct a as [i|sub|].
  - apply in_all_places_existing in Ha. cbn [gstep]. apply (step_existing_gen s x Hinv Hx). apply nth_In. exact Ha.
  - cbn [gstep]. apply (step_new_gen s x Hinv Hx). apply pick_in. apply (new_letter_sub _ _ _ Ha).
  - apply step_outlier; assumption.
Qed.
Lemma gstep_pl s x a : gpl (gstep s x a) = x :: gpl s.
Proof. destruct a; reflexivity. Qed.

Theorem grun_inv on : forall sig w s, ginv s -> NoDup sig -> (forall x, In x sig -> ~ In x (gpl s)) -> gvalid on s sig w ->
  ginv (grun s sig w) /\ gpl (grun s sig w) = rev sig ++ gpl s.
Proof.
  induction sig as [|x sig IH]; intros w s Hinv Hnd Hfresh Hv; destruct w as [|a w]; cbn [gvalid grun] in *; try contradiction.
  - split; [exact Hinv| reflexivity].
  - destruct Hv as [Ha Hv]. inversion Hnd as [|? ? Hnx Hnd']; subst.
    destruct (IH w (gstep s x a)) as [H1 H2].
    + apply (gstep_inv on); [exact Hinv| apply Hfresh; left; reflexivity| exact Ha].
    + exact Hnd'.
    + intros z Hz. rewrite gstep_pl. intros [->|Hin]; [contradiction| apply (Hfresh z); [right; exact Hz| exact Hin]].
    + exact Hv.
    + split; [exact H1|]. rewrite H2, gstep_pl. cbn [rev]. rewrite <- app_assoc. reflexivity.
Qed.

(* T1: every tree the grammar builds along an order is a forest over the points of the order and compatible with it *)
Theorem grammar_sound on sig w : NoDup sig -> gvalid on g0 sig w ->
  wf sig (gle (grun g0 sig w)) /\ compat (rev sig) (gle (grun g0 sig w)).
Proof.
  intros Hnd Hv. destruct (grun_inv on sig w g0 ginv_g0 Hnd (fun _ _ H => H) Hv) as [Hinv Hpl].
  cbn [g0 gpl] in Hpl. rewrite app_nil_r in Hpl.
  split.
  - destruct (gi_wf _ Hinv) as [Hd Hr Ht Hc]. constructor; try assumption.
    intros a b H. destruct (Hd a b H) as [H1 H2]. rewrite Hpl in H1, H2. split; apply in_rev; assumption.
  - rewrite <- Hpl. apply gi_compat. exact Hinv.
Qed.
