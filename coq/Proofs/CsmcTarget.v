(* When the incremental weights are target ratios divided by proposal probabilities, the invariant path measure of
   the conditional SMC kernel is the final target restricted to the proposal's support: this is the bridge from
   C01_csmc_invariant to "the update leaves gamma_one * pdf invariant on the trees reachable along the data order". *)
From PV Require Import Model.Csmc Proofs.CsmcSupport Proofs.CsmcInvariant.

Section TGT.
Context {A : Type}.
Notation P := (list A).
Variable supp : P -> list A.          (* support of the proposal given the path so far *)
Variable qp : P -> A -> Qc.           (* proposal probability *)
Variable g : P -> Qc.                 (* intermediate target of a path *)
Hypothesis qp_nz : forall p a, In a (supp p) -> qp p a <> 0.
Hypothesis g_nz : forall p, g p <> 0.

Definition q_of (p : P) : dist A := wlist (qp p) (supp p).
Definition om_of (p' : P) : Qc := match p' with a :: p => g (a :: p) / g p / qp p a | [] => 1 end.

Fixpoint conts (k : nat) (x : P) : list (list A) :=
  match k with
  | O => [[]]
  | S k' => flat_map (fun a => map (cons a) (conts k' (a :: x))) (supp x)
  end.

Theorem Ggam_is_target k : forall x F,
  Ggam q_of om_of k x F = sumq (map (fun rem => g (rev rem ++ x) / g x * F rem) (conts k x)).
Proof.
  induction k as [|k IH]; intros x F; cbn [Ggam conts].
  - cbn [map sumq rev app]. field. apply g_nz.
  - unfold q_of at 1. rewrite E_wlist.
    rewrite flat_map_concat_map, concat_map, map_map, <- flat_map_concat_map, sumq_flat_map.
    apply sumq_map_ext. intros a Ha. rewrite IH. rewrite map_map.
    rewrite <- sumq_map_scale. rewrite <- sumq_map_scale. apply sumq_map_ext. intros rem _.
    cbn [om_of rev]. rewrite <- app_assoc. cbn [app].
    pose proof (qp_nz x a Ha). pose proof (g_nz x). pose proof (g_nz (a :: x)). field. repeat split; assumption.
Qed.

Lemma om_of_pos : (forall p a, 0 < qp p a) -> (forall p, 0 < g p) -> forall p, 0 < om_of p.
Proof.
  intros Hq Hg [|a p]; cbn [om_of]; [reflexivity|].
  apply Qc_div_pos; [apply Qc_div_pos; apply Hg| apply Hq].
Qed.
Lemma q_of_mass p : sumq (map (qp p) (supp p)) = 1 -> mass (q_of p) = 1.
Proof. intros H. unfold mass, q_of. rewrite E_wlist. rewrite (sumq_map_ext _ (qp p)) by (intros; ring). exact H. Qed.
End TGT.

Theorem csmc_final_target_invariant :
  forall (A : Type) (supp : list A -> list A) (qp : list A -> A -> Qc) (g : list A -> Qc)
         (rs : @swarm A -> bool) (n : nat),
    (forall p a, 0 < qp p a) -> (forall p, 0 < g p) -> (forall p, sumq (map (qp p) (supp p)) = 1) ->
    (forall m s, rs (bring m s) = rs s) ->
    forall (ops : list op) (f : list A -> Qc),
      sumq (map (fun path => g (rev path) * E (pg_kernel (q_of supp qp) (om_of qp g) rs n ops path) f)
                (conts supp (S (count_upd ops)) []))
      = sumq (map (fun path => g (rev path) * f (rev path)) (conts supp (S (count_upd ops)) [])).
Proof.
  intros A supp qp g rs n Hq Hg Hm Hrs ops f.
  pose proof (@csmc_invariant A (q_of supp qp) (om_of qp g) rs n (om_of_pos qp g Hq Hg)
                (fun p => q_of_mass supp qp p (Hm p)) Hrs ops f) as H.
  assert (Hqnz : forall p a, In a (supp p) -> qp p a <> 0) by (intros; apply Qc_pos_neq0, Hq).
  assert (Hgnz : forall p, g p <> 0) by (intros; apply Qc_pos_neq0, Hg).
  rewrite !(Ggam_is_target supp qp g Hqnz Hgnz) in H.
  assert (Hsc : forall (F : list A -> Qc), sumq (map (fun rem => g (rev rem ++ []) / g [] * F rem) (conts supp (S (count_upd ops)) []))
                 = / g [] * sumq (map (fun path => g (rev path) * F path) (conts supp (S (count_upd ops)) []))).
  { intros F. rewrite <- sumq_map_scale. apply sumq_map_ext. intros rem _. rewrite app_nil_r. unfold Qcdiv. ring. }
  rewrite !Hsc in H.
  apply (f_equal (fun z => g [] * z)) in H. rewrite !Qcmult_assoc, Qcmult_inv_r, !Qcmult_1_l in H by apply Hgnz.
  exact H.
Qed.
