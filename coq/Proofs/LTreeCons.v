(* What each Tree method does to the names and to the data points (the pre-order lists [labels], [points]).
   Shared by the cache invariant (C06) and the well-formedness invariant (C07). *)
From PV Require Import Model.LTree Proofs.LTreeBase.
Open Scope nat_scope.

Lemma map_id_Forall {A} (g : A -> A) l : Forall (fun k => g k = k) l -> map g l = l.
Proof. induction 1; cbn [map]; [reflexivity| congruence]. Qed.
Lemma NoDup_app_remove_mid {A} (a m b : list A) : NoDup (a ++ m ++ b) -> NoDup (a ++ b).
Proof.
  induction m as [|x m IH]; [auto|]. intros H. apply IH.
  change (a ++ (x :: m) ++ b) with (a ++ x :: (m ++ b)) in H. apply NoDup_remove_1 in H. exact H.
Qed.
Lemma Permutation_mid_front {A} (a m b : list A) : Permutation (a ++ m ++ b) (m ++ a ++ b).
Proof. rewrite !app_assoc. apply Permutation_app_tail, Permutation_app_comm. Qed.

(* ---- find ------------------------------------------------------------------------------ *)
Lemma find_n_lbl x : forall n m, find_n x n = Some m -> lbl m = x.
Proof.
  induction n as [l o p r ks IH] using lnode_ind'. intros m. rewrite find_n_eq. destruct (l =? x) eqn:E.
  - intros H; inversion H; subst. apply Nat.eqb_eq. exact E.
  - induction ks as [|k ks IHks]; cbn [find_f]; [discriminate|]. inversion IH; subst.
    destruct (find_n x k) eqn:Ek; [intros H; inversion H; subst; eauto| auto].
Qed.
Lemma find_f_lbl x : forall ns m, find_f x ns = Some m -> lbl m = x.
Proof.
  induction ns as [|k ns IH]; cbn [find_f]; intros m; [discriminate|].
  destruct (find_n x k) eqn:Ek; [intros H; inversion H; subst; eapply find_n_lbl; eauto| auto].
Qed.
(* a property inherited by children holds at every node that can be found *)
Lemma find_n_hered (P : lnode -> Prop) :
  (forall l o p r ks, P (LNode l o p r ks) -> Forall P ks) ->
  forall x n m, P n -> find_n x n = Some m -> P m.
Proof.
  intros HP x. induction n as [l o p r ks IH] using lnode_ind'. intros m Hn. rewrite find_n_eq.
  destruct (l =? x); [intros H; inversion H; subst; exact Hn|].
  apply HP in Hn. induction ks as [|k ks IHks]; cbn [find_f]; [discriminate|].
  inversion IH; subst. inversion Hn; subst.
  destruct (find_n x k) eqn:Ek; [intros H; inversion H; subst; eauto| auto].
Qed.
Lemma find_f_hered (P : lnode -> Prop) :
  (forall l o p r ks, P (LNode l o p r ks) -> Forall P ks) ->
  forall x ns m, Forall P ns -> find_f x ns = Some m -> P m.
Proof.
  intros HP x. induction ns as [|k ns IH]; cbn [find_f]; intros m HF; [discriminate|]. inversion HF; subst.
  destruct (find_n x k) eqn:Ek; [intros H; inversion H; subst; eapply find_n_hered; eauto| auto].
Qed.

(* ---- sizes, set_labels -------------------------------------------------------------------- *)
Lemma labels_f_cons k ns : labels_f (k :: ns) = labels_n k ++ labels_f ns.
Proof. reflexivity. Qed.
Lemma points_f_cons k ns : points_f (k :: ns) = points_n k ++ points_f ns.
Proof. reflexivity. Qed.
Lemma labels_f_app a b : labels_f (a ++ b) = labels_f a ++ labels_f b.
Proof. apply flat_map_app. Qed.
Lemma points_f_app a b : points_f (a ++ b) = points_f a ++ points_f b.
Proof. apply flat_map_app. Qed.
Lemma size_f_cons k ns : size_f (k :: ns) = size_n k + size_f ns.
Proof. reflexivity. Qed.

Lemma labels_n_length : forall n, length (labels_n n) = size_n n.
Proof.
  induction n as [l o p r ks IH] using lnode_ind'. cbn [labels_n size_n length]. f_equal.
  induction ks as [|k ks IHks]; [reflexivity|]. inversion IH; subst.
  cbn [flat_map map list_sum]. rewrite app_length, H1, IHks; auto.
Qed.
Lemma labels_f_length ns : length (labels_f ns) = size_f ns.
Proof.
  induction ns as [|k ns IH]; [reflexivity|]. rewrite labels_f_cons, size_f_cons, app_length, labels_n_length, IH. reflexivity.
Qed.

Lemma rr_set_labels ls n : rr (set_labels_n ls n) = rr n.
Proof. destruct n. reflexivity. Qed.
Lemma map_rr_set_labels : forall ns ls, map rr (set_labels_f ls ns) = map rr ns.
Proof. induction ns as [|k ns IH]; intros ls; cbn [set_labels_f map]; [reflexivity|]. rewrite rr_set_labels, IH. reflexivity. Qed.

Lemma set_labels_f_Forall (Q : list nat -> lnode -> Prop) ks :
  Forall (fun k => forall ls, Q ls k) ks -> True.
Proof. auto. Qed.

Lemma points_set_labels_n : forall n ls, points_n (set_labels_n ls n) = points_n n.
Proof.
  induction n as [l o p r ks IH] using lnode_ind'. intros ls. rewrite set_labels_n_eq. cbn [points_n]. f_equal.
  generalize (tl ls). induction ks as [|k ks IHks]; intros ls'; cbn [set_labels_f flat_map]; [reflexivity|].
  inversion IH; subst. rewrite H1, IHks; auto.
Qed.
Lemma points_set_labels_f : forall ns ls, points_f (set_labels_f ls ns) = points_f ns.
Proof.
  induction ns as [|k ns IH]; intros ls; cbn [set_labels_f]; [reflexivity|].
  rewrite !points_f_cons, points_set_labels_n, IH. reflexivity.
Qed.
Lemma labels_set_labels_f_aux ks :
  Forall (fun k => forall ls, length ls = size_n k -> labels_n (set_labels_n ls k) = ls) ks ->
  forall ls, length ls = size_f ks -> labels_f (set_labels_f ls ks) = ls.
Proof.
  induction ks as [|k ks IH]; intros HF ls Hl.
  - destruct ls; [reflexivity| discriminate].
  - inversion HF; subst. rewrite size_f_cons in Hl. cbn [set_labels_f]. rewrite labels_f_cons.
    rewrite H1 by (rewrite firstn_length_le; lia). rewrite IH; auto.
    + apply firstn_skipn.
    + rewrite skipn_length. lia.
Qed.
Lemma labels_set_labels_n : forall n ls, length ls = size_n n -> labels_n (set_labels_n ls n) = ls.
Proof.
  induction n as [l o p r ks IH] using lnode_ind'. intros ls Hl. rewrite set_labels_n_eq.
  destruct ls as [|a ls]; [cbn in Hl; discriminate|]. cbn [hd tl labels_n]. f_equal.
  apply (labels_set_labels_f_aux ks IH). cbn [size_n length] in Hl. unfold size_f. lia.
Qed.
Lemma labels_set_labels_f ns ls : length ls = size_f ns -> labels_f (set_labels_f ls ns) = ls.
Proof. apply labels_set_labels_f_aux. apply Forall_forall. intros k _. apply labels_set_labels_n. Qed.

Lemma rename_length : forall ls used nx, length (rename used nx ls) = length ls.
Proof. induction ls as [|l ls IH]; intros used nx; cbn [rename]; [reflexivity|]. destruct (existsb _ used); cbn [length]; rewrite IH; reflexivity. Qed.
(* fresh names: never one that is in use, never twice *)
Lemma rename_spec : forall ls used nx,
  NoDup ls -> (forall u, In u used -> u <= nx) -> (forall l, In l ls -> l <= nx) ->
  NoDup (rename used nx ls) /\ (forall y, In y (rename used nx ls) -> ~ In y used).
Proof.
  induction ls as [|l ls IH]; intros used nx Hnd Hu Hl; cbn [rename].
  - split; [constructor| intros y []].
  - inversion Hnd; subst. destruct (existsb (Nat.eqb l) used) eqn:E.
    + destruct (IH (S nx :: used) (S nx)) as [I1 I2]; auto.
      * intros u [<-|Hin]; [lia| apply Hu in Hin; lia].
      * intros y Hy. assert (y <= nx) by (apply Hl; right; exact Hy). lia.
      * split.
        -- constructor; [|exact I1]. intros Hin. apply (I2 _ Hin). left. reflexivity.
        -- intros y [<-|Hy].
           ++ intros Hin. apply Hu in Hin. lia.
           ++ intros Hin. apply (I2 _ Hy). right. exact Hin.
    + assert (Hnl : ~ In l used).
      { intros Hin. assert (existsb (Nat.eqb l) used = true); [|congruence].
        apply existsb_exists. exists l. split; [exact Hin| apply Nat.eqb_refl]. }
      destruct (IH (l :: used) nx) as [I1 I2]; auto.
      * intros u [<-|Hin]; [apply Hl; left; reflexivity| apply Hu; exact Hin].
      * intros y Hy. apply Hl. right. exact Hy.
      * split.
        -- constructor; [|exact I1]. intros Hin. apply (I2 _ Hin). left. reflexivity.
        -- intros y [<-|Hy]; [exact Hnl|]. intros Hin. apply (I2 _ Hy). right. exact Hin.
Qed.
Lemma first_label_ge a b x : In x (a ++ b) -> x <= first_label a b.
Proof.
  unfold first_label. induction (a ++ b) as [|y l IH]; cbn [fold_right]; intros []; subst; [lia|].
  specialize (IH H). lia.
Qed.

(* ---- take_roots --------------------------------------------------------------------------- *)
Lemma take_root_perm c : forall rs k rs', take_root c rs = Some (k, rs') -> Permutation rs (k :: rs').
Proof.
  induction rs as [|e rs IH]; cbn [take_root]; intros k rs' H; [discriminate|]. destruct (lbl e =? c).
  - inversion H; subst. apply Permutation_refl.
  - destruct (take_root c rs) as [[m r1]|]; [|discriminate]. inversion H; subst.
    eapply perm_trans; [apply perm_skip, IH; reflexivity| apply perm_swap].
Qed.
Lemma take_roots_perm : forall cs rs sel rem, take_roots cs rs = Some (sel, rem) -> Permutation rs (sel ++ rem).
Proof.
  induction cs as [|c cs IH]; cbn [take_roots]; intros rs sel rem H.
  - inversion H; subst. apply Permutation_refl.
  - destruct (take_root c rs) as [[k rs']|] eqn:E; [|discriminate].
    destruct (take_roots cs rs') as [[s r1]|] eqn:E2; [|discriminate]. inversion H; subst.
    eapply perm_trans; [eapply take_root_perm; eauto|]. cbn [app]. apply perm_skip. apply IH. exact E2.
Qed.
Lemma Permutation_flat_map {A B} (g : A -> list B) l l' : Permutation l l' -> Permutation (flat_map g l) (flat_map g l').
Proof.
  induction 1; cbn [flat_map]; auto.
  - apply Permutation_app_head. assumption.
  - rewrite !app_assoc. apply Permutation_app_tail, Permutation_app_comm.
  - eapply perm_trans; eauto.
Qed.

Section Ops.
Variable Sf : list vec -> vec.
Variable prior : vec.
Variable vone : vec.
Notation Fr := (Fr Sf).
Notation mod_f := (mod_f Sf).
Notation mod_t := (mod_t Sf prior).
Notation update := (update Sf prior).
Notation update_n := (update_n Sf).
Notation fresh := (fresh Sf prior).
Notation fresh_n := (fresh_n Sf prior).
Notation add_data_point := (add_data_point Sf prior).
Notation remove_data_point := (remove_data_point Sf prior).
Notation create_root_node := (create_root_node Sf prior).
Notation get_subtree := (get_subtree Sf prior vone).
Notation remove_subtree := (remove_subtree Sf prior vone).
Notation add_subtree := (add_subtree Sf prior).
Notation hand_over := (hand_over Sf prior).

(* ---- update / fresh leave names and points alone --------------------------------------------- *)
Lemma labels_update_n : forall n, labels_n (update_n n) = labels_n n.
Proof.
  induction n as [l o p r ks IH] using lnode_ind'. cbn [LTree.update_n labels_n]. f_equal.
  induction ks as [|k ks IHks]; [reflexivity|]. inversion IH; subst. cbn [map flat_map]. rewrite H1, IHks; auto.
Qed.
Lemma points_update_n : forall n, points_n (update_n n) = points_n n.
Proof.
  induction n as [l o p r ks IH] using lnode_ind'. cbn [LTree.update_n points_n]. f_equal.
  induction ks as [|k ks IHks]; [reflexivity|]. inversion IH; subst. cbn [map flat_map]. rewrite H1, IHks; auto.
Qed.
Lemma labels_fresh_n : forall n, labels_n (fresh_n n) = labels_n n.
Proof.
  induction n as [l o p r ks IH] using lnode_ind'. cbn [LTree.fresh_n labels_n]. f_equal.
  induction ks as [|k ks IHks]; [reflexivity|]. inversion IH; subst. cbn [map flat_map]. rewrite H1, IHks; auto.
Qed.
Lemma points_fresh_n : forall n, points_n (fresh_n n) = points_n n.
Proof.
  induction n as [l o p r ks IH] using lnode_ind'. cbn [LTree.fresh_n points_n]. f_equal.
  induction ks as [|k ks IHks]; [reflexivity|]. inversion IH; subst. cbn [map flat_map]. rewrite H1, IHks; auto.
Qed.
Lemma flat_map_map_ext {A B} (g : A -> A) (m : A -> list B) l : (forall a, m (g a) = m a) -> flat_map m (map g l) = flat_map m l.
Proof. intros H. induction l as [|a l IH]; cbn [map flat_map]; [reflexivity|]. rewrite H, IH. reflexivity. Qed.
Lemma labels_update t : labels (update t) = labels t.
Proof. unfold labels, LTree.update, set_root, labels_f. cbn [troots]. apply flat_map_map_ext, labels_update_n. Qed.
Lemma points_update t : points (update t) = points t.
Proof. unfold points, LTree.update, set_root, points_f. cbn [troots outl]. f_equal. apply flat_map_map_ext, points_update_n. Qed.
Lemma labels_fresh t : labels (fresh t) = labels t.
Proof. unfold labels, LTree.fresh, set_root, labels_f. cbn [troots]. apply flat_map_map_ext, labels_fresh_n. Qed.
Lemma points_fresh t : points (fresh t) = points t.
Proof. unfold points, LTree.fresh, set_root, points_f. cbn [troots outl]. f_equal. apply flat_map_map_ext, points_fresh_n. Qed.
Lemma points_relabel t : points (relabel_nodes t) = points t.
Proof. unfold points, relabel_nodes. cbn [troots outl]. rewrite points_set_labels_f. reflexivity. Qed.
Lemma labels_relabel t : labels (relabel_nodes t) = seq 0 (size_f (troots t)).
Proof. unfold labels, relabel_nodes. cbn [troots]. apply labels_set_labels_f. apply seq_length. Qed.

(* ---- mod_t ------------------------------------------------------------------------------------ *)
Lemma mod_t_inv x f t t' : mod_t x f t = Some t' ->
  exists rs, mod_f x f (troots t) = Some rs /\ t' = set_root Sf prior t rs.
Proof. unfold LTree.mod_t. destruct (mod_f x f (troots t)) as [rs|]; [|discriminate]. intros H; inversion H; subst. eauto. Qed.

(* ---- add / remove a data point ------------------------------------------------------------------ *)
Lemma add_data_point_spec d x t t' : add_data_point d x t = Some t' ->
  ~ In (dp_idx d) (idxs (points t)) /\ Permutation (points t') (d :: points t) /\ labels t' = labels t.
Proof.
  unfold LTree.add_data_point. destruct (in_tree (dp_idx d) t) eqn:Ein; [discriminate|].
  apply has_idx_false in Ein. intros H. split; [exact Ein|]. destruct x as [y|].
  - destruct (mod_t y (fun n => [node_add d n]) t) as [t1|] eqn:Em; [|discriminate]. inversion H; subst. clear H.
    apply mod_t_inv in Em. destruct Em as [rs [Em ->]].
    destruct (mod_f_points Sf _ _ _ _ Em) as [A [B [m [H1 [H2 [H3 H4]]]]]].
    destruct (mod_f_labels Sf _ _ _ _ Em) as [A' [B' [m' [L1 [L2 [L3 L4]]]]]].
    assert (m' = m) by congruence. subst m'.
    unfold points, labels. cbn [troots outl set_root]. split.
    + rewrite H1, H2. destruct m as [l o p r ks]. cbn [node_add points_f flat_map points_n]. rewrite app_nil_r.
      perm_dp.
    + rewrite L1, L2. destruct m as [l o p r ks]. cbn [node_add labels_f flat_map labels_n]. rewrite app_nil_r. reflexivity.
  - inversion H; subst. unfold points, labels. cbn [troots outl]. split; [|reflexivity]. perm_dp.
Qed.

Lemma remove_data_point_spec i x t d t' : remove_data_point i x t = Some (d, t') ->
  dp_idx d = i /\ Permutation (points t) (d :: points t') /\ labels t' = labels t.
Proof.
  unfold LTree.remove_data_point. destruct x as [y|].
  - destruct (find_f y (troots t)) as [n|] eqn:Ef; [|discriminate].
    destruct (take_idx i (own n)) as [[d0 o']|] eqn:Et; [|discriminate].
    destruct (mod_t y (fun n => [node_remove Sf i n]) t) as [t1|] eqn:Em; [|discriminate].
    cbn [option_map]. intros H. inversion H; subst. clear H.
    apply mod_t_inv in Em. destruct Em as [rs [Em ->]].
    destruct (mod_f_points Sf _ _ _ _ Em) as [A [B [m [H1 [H2 [H3 H4]]]]]].
    destruct (mod_f_labels Sf _ _ _ _ Em) as [A' [B' [m' [L1 [L2 [L3 L4]]]]]].
    assert (m' = m) by congruence. subst m'. assert (m = n) by congruence. subst m.
    split; [eapply take_idx_idx; eauto|].
    unfold points, labels. cbn [troots outl set_root]. destruct n as [l o p r ks]. cbn [own] in Et.
    cbn [node_remove] in H2, L2. rewrite Et in H2, L2. apply take_idx_perm in Et. split.
    + rewrite H1, H2. cbn [points_f flat_map points_n]. rewrite app_nil_r. perm_dp.
    + rewrite L1, L2. cbn [labels_f flat_map labels_n]. rewrite app_nil_r. reflexivity.
  - destruct (take_idx i (outl t)) as [[d0 o']|] eqn:Et; [|discriminate]. intros H. inversion H; subst.
    split; [eapply take_idx_idx; eauto|]. unfold points, labels. cbn [troots outl]. split; [|reflexivity].
    apply take_idx_perm in Et. perm_dp.
Qed.

(* ---- create_root_node ---------------------------------------------------------------------------- *)
Lemma create_root_node_spec cs data t t' : create_root_node cs data t = Some t' ->
  Permutation (points t') (data ++ points t) /\ Permutation (labels t') (num_nodes t :: labels t)
  /\ outl t' = outl t.
Proof.
  unfold LTree.create_root_node. destruct (take_roots cs (troots t)) as [[sel rem]|] eqn:E; [|discriminate].
  intros H. inversion H; subst. clear H. apply take_roots_perm in E.
  unfold points, labels. cbn [troots outl set_root]. repeat split.
  - rewrite points_f_app, points_f_cons. cbn [points_n points_f flat_map]. rewrite app_nil_r.
    fold (points_f sel). fold (points_f rem).
    assert (P : Permutation (points_f (troots t)) (points_f sel ++ points_f rem)).
    { rewrite <- points_f_app. apply Permutation_flat_map. exact E. }
    clear E. perm_dp.
  - rewrite labels_f_app, labels_f_cons. cbn [labels_n labels_f flat_map]. rewrite app_nil_r.
    fold (labels_f sel). fold (labels_f rem).
    assert (P : Permutation (labels_f (troots t)) (labels_f sel ++ labels_f rem)).
    { rewrite <- labels_f_app. apply Permutation_flat_map. exact E. }
    clear E. perm_nat.
Qed.

(* ---- get_subtree / remove_subtree / add_subtree ----------------------------------------------------- *)
Lemma get_subtree_spec x t sub : get_subtree x t = Some sub ->
  exists n, find_f x (troots t) = Some n /\ troots sub = [update_n n] /\ outl sub = [] /\ last sub = WNone.
Proof.
  unfold LTree.get_subtree. destruct (find_f x (troots t)) as [n|]; [|discriminate].
  intros H; inversion H; subst. exists n. repeat split.
Qed.

Lemma mod_t_prune_spec x t t' : mod_t x (fun _ => []) t = Some t' ->
  exists m, find_f x (troots t) = Some m /\ outl t' = outl t /\ last t' = last t
    /\ (exists A B, points_f (troots t) = A ++ points_n m ++ B /\ points_f (troots t') = A ++ B)
    /\ (exists A B, labels t = A ++ labels_n m ++ B /\ labels t' = A ++ B).
Proof.
  intros Em. apply mod_t_inv in Em. destruct Em as [rs [Em ->]].
  destruct (mod_f_points Sf _ _ _ _ Em) as [A [B [m [H1 [H2 [H3 H4]]]]]].
  destruct (mod_f_labels Sf _ _ _ _ Em) as [A' [B' [m' [L1 [L2 [L3 L4]]]]]].
  assert (m' = m) by congruence. subst m'. exists m. cbn [set_root outl last troots]. repeat split; auto.
  - exists A, B. split; [exact H1| exact H2].
  - exists A', B'. unfold labels. cbn [troots]. split; [exact L1| exact L2].
Qed.

Lemma graft_roots_points t sub : points_f (graft_roots t sub) = points_f (troots sub).
Proof. unfold graft_roots. apply points_set_labels_f. Qed.
Lemma graft_roots_labels t sub :
  labels_f (graft_roots t sub) = rename (labels t) (first_label (labels t) (labels sub)) (labels sub).
Proof. unfold graft_roots. apply labels_set_labels_f. rewrite rename_length. apply labels_f_length. Qed.

Lemma add_subtree_spec sub par t t' : add_subtree sub par t = Some t' ->
  Permutation (points t') (points_f (troots sub) ++ points t)
  /\ Permutation (labels t') (labels_f (graft_roots t sub) ++ labels t)
  /\ outl t' = outl t /\ last t' = last sub.
Proof.
  unfold LTree.add_subtree. destruct par as [x|].
  - destruct (mod_t x (fun n => [node_graft Sf (graft_roots t sub) n]) t) as [t1|] eqn:Em; [|discriminate].
    intros H; inversion H; subst. clear H. apply mod_t_inv in Em. destruct Em as [rs [Em ->]].
    destruct (mod_f_points Sf _ _ _ _ Em) as [A [B [m [H1 [H2 [H3 H4]]]]]].
    destruct (mod_f_labels Sf _ _ _ _ Em) as [A' [B' [m' [L1 [L2 [L3 L4]]]]]].
    assert (m' = m) by congruence. subst m'.
    unfold points, labels. cbn [troots outl last set_root]. repeat split.
    + rewrite H1, H2. destruct m as [l o p r ks]. cbn [node_graft points_f flat_map points_n]. rewrite app_nil_r.
      fold (points_f (ks ++ graft_roots t sub)). rewrite points_f_app, graft_roots_points.
      fold (points_f ks). perm_dp.
    + rewrite L1, L2. destruct m as [l o p r ks]. cbn [node_graft labels_f flat_map labels_n]. rewrite app_nil_r.
      fold (labels_f (ks ++ graft_roots t sub)). rewrite labels_f_app. fold (labels_f ks). perm_nat.
  - intros H; inversion H; subst. clear H. unfold points, labels. cbn [troots outl last set_root]. repeat split.
    + rewrite points_f_app, graft_roots_points. perm_dp.
    + rewrite labels_f_app. perm_nat.
Qed.

(* ---- hand_over ------------------------------------------------------------------------------------ *)
Lemma hand_over_spec : forall ds s s', hand_over ds s = Some s' ->
  troots s' = troots s /\ rootr s' = rootr s /\ outl s' = outl s ++ ds
  /\ (NoDup (idxs (points s)) -> NoDup (idxs (points s'))).
Proof.
  induction ds as [|d ds IH]; cbn [LTree.hand_over]; intros s s' H.
  - inversion H; subst. rewrite app_nil_r. auto.
  - destruct (add_data_point d None s) as [s1|] eqn:E; [|discriminate].
    destruct (IH _ _ H) as [I1 [I2 [I3 I4]]].
    pose proof (add_data_point_spec _ _ _ _ E) as [A1 [A2 A3]].
    unfold LTree.add_data_point in E. destruct (in_tree (dp_idx d) s); [discriminate|]. inversion E; subst. clear E.
    cbn [troots rootr outl] in *. rewrite I1, I2, I3, <- app_assoc. repeat split; auto.
    intros Hnd. apply I4. apply (Permutation_map dp_idx) in A2. unfold idxs.
    eapply Permutation_NoDup; [apply Permutation_sym; exact A2|]. cbn [map]. constructor; assumption.
Qed.
End Ops.
