(* Invariance of the particle-Gibbs kernel (conditional SMC with adaptive multinomial resampling). *)
From PV Require Import Model.Csmc Proofs.CsmcSupport Proofs.CsmcExch Proofs.IsirProofs Proofs.CsmcCoM.
From Coq Require Import Bool.

Section INV.
Context {A : Type}.
Notation P := (list A).
Variable q : P -> dist A.
Variable om : P -> Qc.
Variable rs : @swarm A -> bool.
Variable n : nat.
Hypothesis ompos : forall p, 0 < om p.
Hypothesis qmass : forall p, mass (q p) = 1.
Hypothesis rs_sym : forall m s, rs (bring m s) = rs s.

Notation ext_w := (ext_w q om).
Notation updU := (updU q om).
Notation resU := (resU rs).
Notation runU := (runU q om rs).
Notation runC := (runC q om rs).
Notation updC := (updC q om).
Notation resC := (resC rs).
Notation Ggam := (Ggam q om).
Notation LC := (LC q om rs).
Notation LU := (LU q om rs).
Notation init_d := (init_d q om).
Notation GoodU := (@GoodU A n).
Notation Good := (@Good A n).

(* ---- Ggam commutes with expectations and scalars ---- *)
Lemma Ggam_ext k : forall x F F', (forall rem, F rem = F' rem) -> Ggam k x F = Ggam k x F'.
Proof.
  induction k as [|k IH]; intros x F F' H; cbn [Csmc.Ggam]; [apply H|].
  apply E_ext. intros a. f_equal. apply IH. intros rem. apply H.
Qed.
Lemma Ggam_ext_len k : forall x F F', (forall rem, length rem = k -> F rem = F' rem) -> Ggam k x F = Ggam k x F'.
Proof.
  induction k as [|k IH]; intros x F F' H; cbn [Csmc.Ggam]; [apply H; reflexivity|].
  apply E_ext. intros a. f_equal. apply IH. intros rem Hl. apply H. cbn [length]. congruence.
Qed.
Lemma Ggam_E {X} (d : dist X) k : forall x (Psi : X -> list A -> Qc),
  Ggam k x (fun rem => E d (fun y => Psi y rem)) = E d (fun y => Ggam k x (Psi y)).
Proof.
  induction k as [|k IH]; intros x Psi; cbn [Csmc.Ggam]; [reflexivity|].
  rewrite (E_ext _ _ (fun a => E d (fun y => om (a :: x) * Ggam k (a :: x) (fun rem => Psi y (a :: rem))))).
  - apply fubini.
  - intros a. rewrite (IH (a :: x) (fun y rem => Psi y (a :: rem))). rewrite E_scale_r. reflexivity.
Qed.

(* ---- the conditional functional is the gamma-weighted sum over retained continuations ---- *)
Lemma LC_runC ops : forall st h,
  LC ops st h = Ggam (count_upd ops) (fst (fst st)) (fun rem => E (runC ops st rem) (fun st' => h (cswarm st'))).
Proof.
  induction ops as [|o ops IH]; intros st h.
  - cbn [CsmcCoM.LC count_upd Csmc.Ggam Csmc.runC]. rewrite E_ret. reflexivity.
  - destruct o.
    + cbn [CsmcCoM.LC count_upd Csmc.Ggam Csmc.runC]. apply E_ext. intros a. f_equal.
      rewrite (Ggam_ext _ _ _ (fun rem => E (updC a st) (fun st' => E (runC ops st' rem) (fun st'' => h (cswarm st''))))).
      2:{ intros rem. rewrite E_bind. reflexivity. }
      rewrite (Ggam_E (updC a st) (count_upd ops) (a :: fst (fst st)) (fun st' rem => E (runC ops st' rem) (fun st'' => h (cswarm st'')))).
      unfold Csmc.updC. rewrite !E_dmap. apply E_ext. intros rest'. rewrite IH. reflexivity.
    + cbn [CsmcCoM.LC count_upd Csmc.runC].
      rewrite (Ggam_ext _ _ _ (fun rem => E (resC st) (fun st' => E (runC ops st' rem) (fun st'' => h (cswarm st''))))).
      2:{ intros rem. rewrite E_bind. reflexivity. }
      rewrite (Ggam_E (resC st) (count_upd ops) (fst (fst st)) (fun st' rem => E (runC ops st' rem) (fun st'' => h (cswarm st'')))).
      unfold Csmc.resC. destruct (rs (cswarm st)).
      * rewrite !E_dmap. apply E_ext. intros l. rewrite IH. reflexivity.
      * rewrite !E_ret. apply IH.
Qed.

(* ---- averaging over slots under an exchangeable law ---- *)
Lemma slot_average (mu : dist (@ustate A)) (F : @swarm A -> @wp A -> Qc) :
  All GoodU mu -> Exch mu -> (forall m s, F (bring m s) = F s) ->
  E mu (fun zs => fst zs * sumq (map (F (snd zs)) (snd zs)))
  = qn (S n) * E mu (fun zs => fst zs * slot0 (F (snd zs)) (snd zs)).
Proof.
  intros HG HE HF.
  set (G := fun (z : Qc) (s : @swarm A) => z * slot0 (F s) s).
  rewrite (E_ext_All GoodU mu _ (fun zs => sum_upto (S n) (fun m => G (fst zs) (bring m (snd zs)))) HG).
  - rewrite E_sum_upto.
    rewrite (sum_upto_ext (S n) _ (fun _ => E mu (fun zs => G (fst zs) (snd zs)))).
    + rewrite sum_upto_const. reflexivity.
    + intros m _. exact (HE m G).
  - intros [z s] [Hl _]. cbn [fst snd] in *. rewrite (sum_slots (F s) s), Hl.
    rewrite <- sum_upto_scale. apply sum_upto_ext. intros m _. unfold G. rewrite HF. reflexivity.
Qed.

(* ---- the conditional sampler keeps the retained path in slot 0 and loses no mass ---- *)
Definition GoodC (st : @cstate A) : Prop := 0 < snd (fst st) /\ Forall (fun pw => 0 < snd pw) (snd st).
Lemma ext_w_mass pw : mass (ext_w pw) = 1.
Proof. unfold mass, Csmc.ext_w. rewrite E_dmap. apply qmass. Qed.
Lemma seqdist_ext_mass (rest : @swarm A) : mass (seqdist (map ext_w rest)) = 1.
Proof. apply seqdist_mass. rewrite Forall_map. apply Forall_forall. intros pw _. apply ext_w_mass. Qed.

Lemma runC_x ops : forall st rem (g : P -> Qc),
  GoodC st -> length rem = count_upd ops ->
  E (runC ops st rem) (fun st' => g (fst (fst st'))) = g (rev rem ++ fst (fst st)).
Proof.
  induction ops as [|o ops IH]; intros st rem g HG Hl.
  - cbn [Csmc.runC count_upd] in *. destruct rem; [|discriminate]. rewrite E_ret. reflexivity.
  - destruct o; cbn [Csmc.runC count_upd] in *.
    + destruct rem as [|a rem]; [discriminate|]. injection Hl as Hl.
      rewrite E_bind. unfold Csmc.updC. rewrite E_dmap.
      rewrite (E_ext_All (fun rest' => Forall (fun pw : @wp A => 0 < snd pw) rest') _ _ (fun _ => g (rev rem ++ a :: fst (fst st)))).
      * rewrite E_const. rewrite seqdist_ext_mass. cbn [rev]. rewrite <- app_assoc. cbn [app]. ring.
      * apply (All_impl (fun l => length l = length (map ext_w (snd st)) /\ Forall (fun pw : @wp A => 0 < snd pw) l)); [intros l [_ H]; exact H|].
        apply All_seqdist. rewrite Forall_map. destruct HG as [_ HF]. eapply Forall_impl; [|exact HF].
        intros pw Hp. apply (All_ext_w q om ompos). exact Hp.
      * intros rest' Hr. rewrite IH; [reflexivity| |exact Hl].
        destruct HG as [Hw _]. split; cbn [fst snd]; [apply Qc_mul_pos; [exact Hw| apply ompos]| exact Hr].
    + rewrite E_bind. unfold Csmc.resC. destruct (rs (cswarm st)).
      * rewrite E_dmap. rewrite (E_ext _ _ (fun _ => g (rev rem ++ fst (fst st)))).
        -- rewrite E_const.
           assert (Hm : mass (iidn (length (snd st)) (cat (cswarm st))) = 1).
           { apply iidn_mass. apply (cat_mass (length (snd st))). destruct HG as [Hw HF]. split; [reflexivity|].
             constructor; [exact Hw| exact HF]. }
           rewrite Hm. ring.
        -- intros l. rewrite IH; [reflexivity| |exact Hl]. split; cbn [fst snd]; [reflexivity|].
           unfold fresh. rewrite Forall_map. apply Forall_forall. intros p _. reflexivity.
      * rewrite E_ret. apply IH; assumption.
Qed.

(* ---- the first step and the top-level identities ---- *)
Definition mu1 : dist (@ustate A) := dmap (fun s => (1, s)) (iidn (S n) init_d).
Lemma init_pos : All (fun pw : @wp A => 0 < snd pw) init_d.
Proof. apply (All_ext_w q om ompos). reflexivity. Qed.
Lemma mu1_Good : All GoodU mu1.
Proof.
  unfold mu1. apply (All_dmap (fun l => length l = S n /\ Forall (fun pw : @wp A => 0 < snd pw) l)).
  - apply All_iidn. exact init_pos.
  - intros l H. exact H.
Qed.
Lemma mu1_Exch : Exch mu1.
Proof. apply Exch_init. Qed.
Definition muT (ops : list op) : dist (@ustate A) := bind mu1 (runU ops).
Lemma muT_Good ops : All GoodU (muT ops).
Proof. apply (Good_runU q om rs n ompos). exact mu1_Good. Qed.
Lemma muT_Exch ops : Exch (muT ops).
Proof. apply (Exch_runU q om rs rs_sym). exact mu1_Exch. Qed.

(* the swarm the conditional sampler ends with, for a retained path given oldest first *)
Definition cswarm_final (ops : list op) (path : list A) : dist (@swarm A) :=
  match path with
  | [] => []
  | a1 :: rem => bind (iidn n init_d) (fun rest => dmap cswarm (runC ops ([a1], om [a1], rest) rem))
  end.

(* sum over retained paths (weighted by the target) of a conditional expectation
   = expectation under the unconditional sampler, tilted by Zhat * w0 *)
Lemma top_change_of_measure ops (h : @swarm A -> Qc) :
  Ggam (S (count_upd ops)) [] (fun path => E (cswarm_final ops path) h)
  = E (muT ops) (fun zs => fst zs * w0 (snd zs) * h (snd zs)).
Proof.
  transitivity (E mu1 (fun zs => LU ops zs h)).
  2:{ unfold muT, CsmcCoM.LU. rewrite E_bind. reflexivity. }
  rewrite <- (change_of_measure q om rs n ompos rs_sym ops mu1 h mu1_Good mu1_Exch).
  unfold mu1. rewrite E_dmap. cbn [fst snd iidn Csmc.Ggam]. rewrite E_bind.
  unfold Csmc.init_d at 1. unfold Csmc.ext_w at 1. rewrite E_dmap. cbn [fst snd].
  apply E_ext. intros a.
  rewrite E_dmap.
  rewrite (E_ext _ _ (fun rest => om [a] * LC ops ([a], om [a], rest) h)).
  2:{ intros rest. cbn [st_of w0 fst snd]. rewrite !Qcmult_1_l. reflexivity. }
  rewrite E_scale_r. f_equal.
  rewrite (E_ext _ _ (fun rest => Ggam (count_upd ops) [a] (fun rem => E (runC ops ([a], om [a], rest) rem) (fun st' => h (cswarm st'))))).
  2:{ intros rest. rewrite LC_runC. reflexivity. }
  symmetry. etransitivity.
  { symmetry. exact (Ggam_E (iidn n init_d) (count_upd ops) [a] (fun rest rem => E (runC ops ([a], om [a], rest) rem) (fun st' => h (cswarm st')))). }
  apply Ggam_ext. intros rem. cbn [cswarm_final]. rewrite E_bind. apply E_ext. intros rest. rewrite E_dmap. reflexivity.
Qed.

Lemma sumw_as_sumq (s : @swarm A) : sumw s = sumq (map snd s).
Proof. apply sumw_sumq. Qed.

(* the particle-Gibbs kernel: run the conditional sampler, then draw in proportion to the weights *)
Lemma pg_kernel_E ops path f :
  E (pg_kernel q om rs n ops path) f = E (cswarm_final ops path) (fun s => E (select s) f).
Proof.
  destruct path as [|a1 rem]; [reflexivity|]. cbn [pg_kernel cswarm_final]. rewrite !E_bind.
  apply E_ext. intros rest. rewrite E_bind, E_dmap. reflexivity.
Qed.

(* the kernel loses no mass (no step of the conditional sampler can fail) on a retained path of the right length *)
Lemma runC_mass ops st rem : GoodC st -> length rem = count_upd ops -> mass (runC ops st rem) = 1.
Proof. intros HG Hl. unfold mass. exact (runC_x ops st rem (fun _ => 1) HG Hl). Qed.

Lemma runC_GoodC ops : forall st rem, GoodC st -> All GoodC (runC ops st rem).
Proof.
  induction ops as [|o ops IH]; intros st rem HG; cbn [Csmc.runC].
  - apply All_ret. exact HG.
  - destruct o.
    + destruct rem as [|a rem]; [intros x []|].
      apply (All_bind GoodC); [|intros st' Hst'; apply IH; exact Hst'].
      unfold Csmc.updC.
      apply (All_dmap (fun l => length l = length (map ext_w (snd st)) /\ Forall (fun pw : @wp A => 0 < snd pw) l)).
      * apply All_seqdist. rewrite Forall_map. destruct HG as [_ HF]. eapply Forall_impl; [|exact HF].
        intros pw Hp. apply (All_ext_w q om ompos). exact Hp.
      * intros rest' [_ Hr]. destruct HG as [Hw _]. split; cbn [fst snd]; [apply Qc_mul_pos; [exact Hw| apply ompos]| exact Hr].
    + apply (All_bind GoodC); [|intros st' Hst'; apply IH; exact Hst'].
      unfold Csmc.resC. destruct (rs (cswarm st)); [|apply All_ret; exact HG].
      apply (All_dmap (fun _ => True)); [apply All_True|]. intros l _. split; cbn [fst snd]; [reflexivity|].
      unfold fresh. rewrite Forall_map. apply Forall_forall. intros p _. reflexivity.
Qed.

Theorem pg_kernel_mass ops path : length path = S (count_upd ops) -> mass (pg_kernel q om rs n ops path) = 1.
Proof.
  intros Hl. destruct path as [|a1 rem]; [discriminate|]. injection Hl as Hl. unfold mass. cbn [pg_kernel].
  rewrite E_bind.
  rewrite (E_ext_All (fun rest => Forall (fun pw : @wp A => 0 < snd pw) rest) _ _ (fun _ => 1)).
  - rewrite E_const. rewrite (iidn_mass n init_d (ext_w_mass ([], 1))). ring.
  - apply (All_impl (fun l => length l = n /\ Forall (fun pw : @wp A => 0 < snd pw) l)); [intros l [_ H]; exact H|].
    apply All_iidn. exact init_pos.
  - intros rest Hrest.
    assert (HG0 : GoodC ([a1], om [a1], rest)) by (split; cbn [fst snd]; [apply ompos| exact Hrest]).
    rewrite E_bind.
    rewrite (E_ext_All GoodC _ _ (fun _ => 1)).
    + rewrite E_const. rewrite (runC_mass ops _ rem HG0 Hl). ring.
    + apply runC_GoodC. exact HG0.
    + intros st [Hw HF]. fold (mass (select (cswarm st))). unfold Csmc.select.
      apply (cat_mass (length (snd st))). split; [reflexivity|]. constructor; [exact Hw| exact HF].
Qed.

Theorem csmc_invariant ops (f : P -> Qc) :
  Ggam (S (count_upd ops)) [] (fun path => E (pg_kernel q om rs n ops path) f)
  = Ggam (S (count_upd ops)) [] (fun path => f (rev path)).
Proof.
  rewrite (Ggam_ext _ _ _ (fun path => E (cswarm_final ops path) (fun s => E (select s) f))) by (intros; apply pg_kernel_E).
  rewrite top_change_of_measure.
  (* average the tilted selection functional over the slots *)
  pose proof (muT_Good ops) as HG. pose proof (muT_Exch ops) as HE.
  set (F1 := fun (s : @swarm A) (pw : @wp A) => snd pw * E (select s) f).
  set (F2 := fun (s : @swarm A) (pw : @wp A) => snd pw * f (fst pw)).
  assert (H1 : E (muT ops) (fun zs => fst zs * w0 (snd zs) * E (select (snd zs)) f)
               = E (muT ops) (fun zs => fst zs * slot0 (F1 (snd zs)) (snd zs))).
  { apply E_ext. intros [z s]. cbn [fst snd]. unfold F1. destruct s as [|pw r]; cbn [w0 slot0]; ring. }
  assert (H2 : E (muT ops) (fun zs => fst zs * slot0 (F2 (snd zs)) (snd zs))
               = E (muT ops) (fun zs => fst zs * w0 (snd zs) * f (fst (fst (st_of (snd zs)))))).
  { apply E_ext. intros [z s]. cbn [fst snd]. unfold F2. destruct s as [|pw r]; cbn [w0 slot0 st_of fst snd]; ring. }
  assert (Hsum : E (muT ops) (fun zs => fst zs * sumq (map (F1 (snd zs)) (snd zs)))
                 = E (muT ops) (fun zs => fst zs * sumq (map (F2 (snd zs)) (snd zs)))).
  { apply (E_ext_All GoodU); [exact HG|]. intros [z s] Hs. cbn [fst snd]. f_equal. unfold F1, F2.
    unfold GoodU in Hs. cbn [snd] in Hs. pose proof (CsmcExch.sumw_pos n s Hs) as Hp. apply Qc_pos_neq0 in Hp.
    unfold Csmc.select. rewrite E_cat.
    rewrite (sumq_map_ext (fun pw : @wp A => snd pw * (sumq (map (fun pw0 : @wp A => snd pw0 * f (fst pw0)) s) / sumw s))
                          (fun pw : @wp A => (sumq (map (fun pw0 : @wp A => snd pw0 * f (fst pw0)) s) / sumw s) * snd pw)) by (intros; ring).
    rewrite sumq_map_scale, <- sumw_as_sumq. field. exact Hp. }
  assert (HF1 : forall m s, F1 (bring m s) = F1 s).
  { intros m s. unfold F1. unfold Csmc.select. rewrite (E_cat_bring m s f). reflexivity. }
  assert (HF2 : forall m s, F2 (bring m s) = F2 s) by reflexivity.
  pose proof (slot_average (muT ops) F1 HG HE HF1) as A1.
  pose proof (slot_average (muT ops) F2 HG HE HF2) as A2.
  rewrite Hsum, A2 in A1.
  assert (Hn : qn (S n) <> 0) by (apply Qc_pos_neq0, qn_pos; lia).
  assert (Heq : E (muT ops) (fun zs => fst zs * slot0 (F1 (snd zs)) (snd zs))
                = E (muT ops) (fun zs => fst zs * slot0 (F2 (snd zs)) (snd zs))).
  { apply (f_equal (fun z => / qn (S n) * z)) in A1. rewrite !Qcmult_assoc, Qcmult_inv_l, !Qcmult_1_l in A1 by exact Hn.
    symmetry. exact A1. }
  rewrite H1, Heq, H2.
  (* back through the change of measure with h = f o (retained path) *)
  rewrite <- (top_change_of_measure ops (fun s => f (fst (fst (st_of s))))).
  apply Ggam_ext_len. intros path Hlen. destruct path as [|a1 rem]; [discriminate|]. injection Hlen as Hlen.
  cbn [cswarm_final]. rewrite E_bind.
  rewrite (E_ext_All (fun rest => Forall (fun pw : @wp A => 0 < snd pw) rest) _ _ (fun _ => f (rev (a1 :: rem)))).
  - rewrite E_const. rewrite (iidn_mass n init_d (ext_w_mass ([], 1))). ring.
  - apply (All_impl (fun l => length l = n /\ Forall (fun pw : @wp A => 0 < snd pw) l)); [intros l [_ H]; exact H|].
    apply All_iidn. exact init_pos.
  - intros rest Hrest. rewrite E_dmap.
    transitivity (E (runC ops ([a1], om [a1], rest) rem) (fun st' => f (fst (fst st')))).
    { apply E_ext. intros [[x w] r]. reflexivity. }
    rewrite (runC_x ops ([a1], om [a1], rest) rem f); [reflexivity| |exact Hlen].
    split; cbn [fst snd]; [apply ompos| exact Hrest].
Qed.
End INV.
