(* No order is enumerated twice: with distinct data points the list forders F has no duplicates, so the uniform law
   on the list is the uniform law on the SET of compatible orders. *)
From PV Require Import Model.Perm Proofs.PermProofs Proofs.PermSound Proofs.PermComplete.
From Coq Require Import Permutation.

Lemma NoDup_app_intro {A} (l1 l2 : list A) :
  NoDup l1 -> NoDup l2 -> (forall x, In x l1 -> In x l2 -> False) -> NoDup (l1 ++ l2).
Proof.
  induction l1 as [|x l IH]; cbn [app]; intros H1 H2 Hd; [exact H2|].
  inversion H1; subst. constructor.
  - intros Hin. apply in_app_or in Hin. destruct Hin as [Hin|Hin]; [contradiction| apply (Hd x); [left; reflexivity| exact Hin]].
  - apply IH; [assumption| exact H2| intros y Hy; apply Hd; right; exact Hy].
Qed.
Lemma NoDup_map_inj {A B} (f : A -> B) l : (forall x y, In x l -> In y l -> f x = f y -> x = y) -> NoDup l -> NoDup (map f l).
Proof.
  intros Hinj. induction 1 as [|x l Hx Hnd IH]; cbn [map]; constructor.
  - intros Hin. apply in_map_iff in Hin. destruct Hin as [y [He Hy]].
    assert (y = x) by (apply Hinj; [right; exact Hy| left; reflexivity| exact He]). subst. contradiction.
  - apply IH. intros a b Ha Hb. apply Hinj; right; assumption.
Qed.
Lemma NoDup_flat_map_intro {A B} (f : A -> list B) l :
  NoDup l -> (forall a, In a l -> NoDup (f a)) ->
  (forall a b x, In a l -> In b l -> In x (f a) -> In x (f b) -> a = b) -> NoDup (flat_map f l).
Proof.
  induction 1 as [|a l Ha Hnd IH]; cbn [flat_map]; intros Hf Hd; [constructor|].
  apply NoDup_app_intro.
  - apply Hf. left. reflexivity.
  - apply IH; [intros b Hb; apply Hf; right; exact Hb| intros b c x Hb Hc; apply Hd; right; assumption].
  - intros x Hx Hx'. apply in_flat_map in Hx'. destruct Hx' as [b [Hb Hxb]].
    assert (a = b) by (apply (Hd a b x); [left; reflexivity| right; exact Hb| exact Hx| exact Hxb]). subst. contradiction.
Qed.

(* ---------- interleavings of disjoint duplicate-free lists have no duplicates ---------- *)
Lemma pops_keys_in {A} (ls : list (list A)) p : In p (pops ls) -> In (fst (fst p)) (concat ls).
Proof. intros Hp. destruct (pops_sub ls p Hp) as [_ H]. eapply Permutation_in; [apply Permutation_sym; exact H| left; reflexivity]. Qed.

Lemma pops_keys_NoDup {A} (ls : list (list A)) : NoDup (concat ls) -> NoDup (map (fun p => fst (fst p)) (pops ls)).
Proof.
  induction ls as [|l rest IH]; intros Hnd; cbn [pops]; [constructor|].
  cbn [concat] in Hnd. rewrite map_app, map_map. cbn [fst].
  assert (Hrest : NoDup (map (fun p => fst (fst p)) (pops rest))) by (apply IH; eapply NoDup_app_r; exact Hnd).
  destruct l as [|x r]; cbn [map app]; [exact Hrest|]. constructor; [|exact Hrest].
  intros Hin. apply in_map_iff in Hin. destruct Hin as [p [He Hp]]. apply pops_keys_in in Hp. rewrite He in Hp.
  cbn [app] in Hnd. inversion Hnd; subst. apply H1. apply in_or_app. right. exact Hp.
Qed.

Lemma inter_NoDup {A} n : forall (ls : list (list A)), total ls = n -> NoDup (concat ls) -> NoDup (inter n ls).
Proof.
  induction n as [|n IH]; intros ls Ht Hnd; cbn [inter]; [constructor; [intros []| constructor]|].
  assert (Hk := pops_keys_NoDup ls Hnd).
  assert (Hpn : NoDup (pops ls)).
  { clear -Hk. induction (pops ls) as [|p l IHl]; [constructor|]. cbn [map] in Hk. inversion Hk; subst.
    constructor; [intros Hin; apply H1; apply (in_map (fun q => fst (fst q))) in Hin; exact Hin| apply IHl; assumption]. }
  apply NoDup_flat_map_intro; [exact Hpn| |].
  - intros p Hp. apply NoDup_map_inj; [intros a b _ _ H; injection H; auto|].
    destruct (pops_spec ls p Hp) as [H1 _]. destruct (pops_sub ls p Hp) as [_ H2]. apply IH; [lia|].
    assert (NoDup (fst (fst p) :: concat (snd p))) by (eapply Permutation_NoDup; eassumption). inversion H; assumption.
  - intros p p' s Hp Hp' Hs Hs'. apply in_map_iff in Hs. apply in_map_iff in Hs'.
    destruct Hs as [s1 [<- _]]. destruct Hs' as [s2 [He _]]. injection He as Hk' _.
    (* equal keys -> equal entries, since keys are distinct *)
    clear -Hk Hp Hp' Hk'. induction (pops ls) as [|q l IHl]; [contradiction|].
    cbn [map] in Hk. inversion Hk; subst. destruct Hp as [->|Hp]; destruct Hp' as [->|Hp'].
    + reflexivity.
    + exfalso. apply H1. apply (in_map (fun q => fst (fst q))) in Hp'. cbn beta in Hp'. rewrite Hk' in Hp'. exact Hp'.
    + exfalso. apply H1. apply (in_map (fun q => fst (fst q))) in Hp. cbn beta in Hp. rewrite <- Hk' in Hp. exact Hp.
    + apply IHl; assumption.
Qed.
Lemma perms_NoDup (l : list nat) : NoDup l -> NoDup (perms l).
Proof. intros H. unfold perms, interleavings. apply inter_NoDup; [reflexivity|]. rewrite concat_singletons. exact H. Qed.

(* a duplicate-free subsequence is determined by its element set *)
Lemma Sub_filter_unique (keep : nat -> bool) c s :
  Sub c s -> NoDup s -> (forall x, In x c <-> In x s /\ keep x = true) -> c = filter keep s.
Proof.
  induction 1 as [|y l l' HS IH|y l l' HS IH]; intros Hnd Hc; cbn [filter].
  - reflexivity.
  - inversion Hnd; subst. destruct (keep y) eqn:Hk.
    + exfalso. assert (In y l) by (apply Hc; split; [left; reflexivity| exact Hk]). apply H1. eapply Sub_in; eassumption.
    + apply IH; [assumption|]. intros x. rewrite Hc. split.
      * intros [[->|Hx] Hkx]; [congruence| split; assumption].
      * intros [Hx Hkx]. split; [right; exact Hx| exact Hkx].
  - inversion Hnd; subst. assert (Hk : keep y = true) by (apply Hc; left; reflexivity). rewrite Hk. f_equal.
    apply IH; [assumption|]. intros x. split.
    + intros Hx. assert (Hx' := proj1 (Hc x) (or_intror Hx)). destruct Hx' as [[->|Hxs] Hkx]; [exfalso; apply H1; eapply Sub_in; eassumption| split; assumption].
    + intros [Hx Hkx]. assert (Hx' := proj2 (Hc x) (conj (or_intror Hx) Hkx)). destruct Hx' as [->|Hx']; [contradiction| exact Hx'].
Qed.

Lemma NoDup_prodl {A} (ls : list (list A)) : Forall (@NoDup A) ls -> NoDup (prodl ls).
Proof.
  induction 1 as [|l ls Hl _ IH]; cbn [prodl]; [constructor; [intros []| constructor]|].
  apply NoDup_flat_map_intro; [exact Hl| |].
  - intros x _. apply NoDup_map_inj; [intros a b _ _ H; injection H; auto| exact IH].
  - intros a b x _ _ Ha Hb. apply in_map_iff in Ha. apply in_map_iff in Hb.
    destruct Ha as [r [<- _]]. destruct Hb as [r' [He _]]. injection He; auto.
Qed.

Lemma app_eq_length {A} (s s' p p' : list A) : length s = length s' -> s ++ p = s' ++ p' -> s = s' /\ p = p'.
Proof.
  revert s'. induction s as [|x s IH]; intros [|y s'] Hl He; cbn [length app] in *; try discriminate.
  - split; [reflexivity| exact He].
  - injection He as -> He. destruct (IH s' ltac:(lia) He) as [-> ->]. split; reflexivity.
Qed.

Lemma concat_perm_only ks cs : Forall2 (fun c k => Permutation (points k) c) cs ks -> Permutation (flat_map points ks) (concat cs).
Proof. induction 1 as [|c k cs ks Hp _ IH]; cbn [flat_map concat]; [constructor| apply Permutation_app; assumption]. Qed.

(* the children's orders are recovered from their interleaving by filtering *)
Lemma cs_determined ks cs s :
  Forall2 (fun c k => Permutation (points k) c) cs ks -> NoDup (flat_map points ks) -> In s (interleavings cs) ->
  cs = map (fun k => filter (memb (points k)) s) ks.
Proof.
  intros HF Hnd Hs. apply inter_sound in Hs; [|reflexivity]. destruct Hs as [Hsub Hperm].
  assert (Hnds : NoDup s).
  { eapply Permutation_NoDup; [exact Hperm|]. eapply Permutation_NoDup; [apply concat_perm_only; exact HF| exact Hnd]. }
  clear Hperm Hnd. induction HF as [|c k cs ks Hp _ IH]; cbn [map]; [reflexivity|].
  inversion Hsub; subst. f_equal; [|apply IH; assumption].
  apply Sub_filter_unique; [assumption| exact Hnds|]. intros x. rewrite memb_In. split.
  - intros Hx. split; [eapply Sub_in; eassumption| eapply Permutation_in; [apply Permutation_sym; exact Hp| exact Hx]].
  - intros [_ Hx]. eapply Permutation_in; eassumption.
Qed.

Lemma prodl_perms ks cs : In cs (prodl (map orders ks)) -> Forall2 (fun c k => Permutation (points k) c) cs ks.
Proof. apply (prodl_forall2 _ orders ks cs). intros k c _ Hc. apply orders_sound. exact Hc. Qed.
Lemma prodl_total ks cs : In cs (prodl (map orders ks)) -> total cs = list_sum (map size ks).
Proof. intros H. unfold total. rewrite (roots_lengths ks cs H). reflexivity. Qed.

Lemma kids_part_NoDup ks (g : list nat -> list (list nat)) :
  Forall (fun k => NoDup (points k) -> NoDup (orders k)) ks -> NoDup (flat_map points ks) ->
  (forall s, NoDup (g s)) ->
  (forall s s' o, length s = length s' -> In o (g s) -> In o (g s') -> s = s') ->
  NoDup (flat_map (fun cs => flat_map g (interleavings cs)) (prodl (map orders ks))).
Proof.
  intros HI Hnd Hg Hgd. apply NoDup_flat_map_intro.
  - apply NoDup_prodl. rewrite Forall_map. rewrite Forall_forall in *. intros k Hk. apply HI; [exact Hk| eapply NoDup_flat_map_in; eassumption].
  - intros cs Hcs. apply NoDup_flat_map_intro; [| intros; apply Hg|].
    + unfold interleavings. apply inter_NoDup; [reflexivity|].
      eapply Permutation_NoDup; [apply concat_perm_only; apply prodl_perms; exact Hcs| exact Hnd].
    + intros s s' o Hs Hs' Ho Ho'. apply (Hgd s s' o); [|assumption|assumption].
      rewrite (interleavings_length _ _ Hs), (interleavings_length _ _ Hs'). reflexivity.
  - intros cs cs' o Hcs Hcs' Ho Ho'. apply in_flat_map in Ho. apply in_flat_map in Ho'.
    destruct Ho as [s [Hs Ho]]. destruct Ho' as [s' [Hs' Ho']].
    assert (s = s').
    { apply (Hgd s s' o); [|assumption|assumption].
      rewrite (interleavings_length _ _ Hs), (interleavings_length _ _ Hs'), (prodl_total ks cs Hcs), (prodl_total ks cs' Hcs'). reflexivity. }
    subst s'. rewrite (cs_determined ks cs s (prodl_perms ks cs Hcs) Hnd Hs), (cs_determined ks cs' s (prodl_perms ks cs' Hcs') Hnd Hs'). reflexivity.
Qed.

Lemma orders_NoDup_all t : NoDup (points t) -> NoDup (orders t).
Proof.
  induction t as [ow ks IH] using tree_ind'. intros Hnd. cbn [points orders] in *.
  apply (kids_part_NoDup ks (fun s => map (fun p => s ++ p) (perms ow))).
  - exact IH.
  - eapply NoDup_app_l; exact Hnd.
  - intros s. apply NoDup_map_inj; [intros a b _ _ H; apply app_inv_head in H; exact H| apply perms_NoDup; eapply NoDup_app_r; exact Hnd].
  - intros s s' o Hl Ho Ho'. apply in_map_iff in Ho. apply in_map_iff in Ho'.
    destruct Ho as [p [<- _]]. destruct Ho' as [p' [He _]]. symmetry in He. destruct (app_eq_length _ _ _ _ Hl He). assumption.
Qed.

Theorem forders_NoDup F : NoDup (fpoints F) -> NoDup (forders F).
Proof.
  unfold fpoints, forders. intros Hnd.
  set (A := flat_map points (roots F)) in *. set (B := outl F) in *.
  assert (HndA : NoDup A) by (eapply NoDup_app_l; exact Hnd).
  assert (HndB : NoDup B) by (eapply NoDup_app_r; exact Hnd).
  (* only the part of g reachable from interleavings of children orders matters; restrict via a guarded g *)
  assert (Hdis : forall x, In x A -> In x B -> False).
  { clear -Hnd. induction A as [|a A IHA]; [contradiction|]. cbn [app] in Hnd. inversion Hnd; subst.
    intros x [->|Hx] Hb; [apply H1; apply in_or_app; right; exact Hb| apply (IHA H2 x); assumption]. }
  apply NoDup_flat_map_intro.
  - apply NoDup_prodl. rewrite Forall_map. apply Forall_forall. intros k Hk. apply orders_NoDup_all. eapply NoDup_flat_map_in; eassumption.
  - intros cs Hcs.
    assert (HpcA : Permutation A (concat cs)) by (apply concat_perm_only, prodl_perms; exact Hcs).
    apply NoDup_flat_map_intro.
    + unfold interleavings. apply inter_NoDup; [reflexivity| eapply Permutation_NoDup; eassumption].
    + intros s Hs. apply inter_sound in Hs as Hs2; [|reflexivity]. destruct Hs2 as [_ HpS].
      assert (HpAs : Permutation A s) by (eapply Permutation_trans; eassumption).
      apply NoDup_flat_map_intro; [apply perms_NoDup; exact HndB| |].
      * intros p Hp. apply perms_perm in Hp. unfold interleavings. apply inter_NoDup; [reflexivity|].
        cbn [concat]. rewrite app_nil_r. eapply Permutation_NoDup; [|exact Hnd]. apply Permutation_app; assumption.
      * intros p p' o Hp Hp' Ho Ho'. apply perms_perm in Hp. apply perms_perm in Hp'.
        assert (Hno : NoDup o).
        { apply inter_sound in Ho; [|reflexivity]. destruct Ho as [_ Ho]. cbn [concat] in Ho. rewrite app_nil_r in Ho.
          eapply Permutation_NoDup; [exact Ho|]. eapply Permutation_NoDup; [|exact Hnd]. apply Permutation_app; assumption. }
        assert (Hf : forall q, Permutation B q -> In o (interleavings [s; q]) -> q = filter (memb B) o).
        { intros q Hq Hoq. apply inter_sound in Hoq; [|reflexivity]. destruct Hoq as [HS _].
          inversion HS as [|? ? _ HS']; subst. inversion HS' as [|? ? Hqo _]; subst.
          apply Sub_filter_unique; [exact Hqo| exact Hno|]. intros x. rewrite memb_In. split.
          - intros Hx. split; [eapply Sub_in; eassumption| eapply Permutation_in; [apply Permutation_sym; exact Hq| exact Hx]].
          - intros [_ Hx]. eapply Permutation_in; eassumption. }
        rewrite (Hf p Hp Ho), (Hf p' Hp' Ho'). reflexivity.
    + intros s s' o Hs Hs' Ho Ho'. apply in_flat_map in Ho. apply in_flat_map in Ho'.
      destruct Ho as [p [Hp Ho]]. destruct Ho' as [p' [Hp' Ho']].
      assert (Hf : forall s0 p0, In s0 (interleavings cs) -> In p0 (perms B) -> In o (interleavings [s0; p0]) -> s0 = filter (memb A) o).
      { intros s0 p0 Hs0 Hp0 Ho0. apply inter_sound in Hs0; [|reflexivity]. destruct Hs0 as [_ Hs0].
        assert (HpAs : Permutation A s0) by (eapply Permutation_trans; eassumption).
        apply perms_perm in Hp0. apply inter_sound in Ho0; [|reflexivity]. destruct Ho0 as [HS Hpo].
        cbn [concat] in Hpo. rewrite app_nil_r in Hpo.
        assert (Hno : NoDup o).
        { eapply Permutation_NoDup; [exact Hpo|]. eapply Permutation_NoDup; [|exact Hnd]. apply Permutation_app; assumption. }
        inversion HS as [|? ? Hso _]; subst.
        apply Sub_filter_unique; [exact Hso| exact Hno|]. intros x. rewrite memb_In. split.
        - intros Hx. split; [eapply Sub_in; eassumption| eapply Permutation_in; [apply Permutation_sym; exact HpAs| exact Hx]].
        - intros [_ Hx]. eapply Permutation_in; eassumption. }
      rewrite (Hf s p Hs Hp Ho), (Hf s' p' Hs' Hp' Ho'). reflexivity.
  - intros cs cs' o Hcs Hcs' Ho Ho'. apply in_flat_map in Ho. apply in_flat_map in Ho'.
    destruct Ho as [s [Hs Ho]]. destruct Ho' as [s' [Hs' Ho']].
    apply in_flat_map in Ho. apply in_flat_map in Ho'. destruct Ho as [p [Hp Ho]]. destruct Ho' as [p' [Hp' Ho']].
    assert (Hf : forall cs0 s0 p0, In cs0 (prodl (map orders (roots F))) -> In s0 (interleavings cs0) -> In p0 (perms B) ->
                  In o (interleavings [s0; p0]) -> s0 = filter (memb A) o).
    { intros cs0 s0 p0 Hcs0 Hs0 Hp0 Ho0.
      assert (HpcA : Permutation A (concat cs0)) by (apply concat_perm_only, prodl_perms; exact Hcs0).
      apply inter_sound in Hs0; [|reflexivity]. destruct Hs0 as [_ Hs0].
      assert (HpAs : Permutation A s0) by (eapply Permutation_trans; eassumption).
      apply perms_perm in Hp0. apply inter_sound in Ho0; [|reflexivity]. destruct Ho0 as [HS Hpo].
      cbn [concat] in Hpo. rewrite app_nil_r in Hpo.
      assert (Hno : NoDup o).
      { eapply Permutation_NoDup; [exact Hpo|]. eapply Permutation_NoDup; [|exact Hnd]. apply Permutation_app; assumption. }
      inversion HS as [|? ? Hso _]; subst.
      apply Sub_filter_unique; [exact Hso| exact Hno|]. intros x. rewrite memb_In. split.
      - intros Hx. split; [eapply Sub_in; eassumption| eapply Permutation_in; [apply Permutation_sym; exact HpAs| exact Hx]].
      - intros [_ Hx]. eapply Permutation_in; eassumption. }
    assert (s = s') by (rewrite (Hf cs s p Hcs Hs Hp Ho), (Hf cs' s' p' Hcs' Hs' Hp' Ho'); reflexivity). subst s'.
    rewrite (cs_determined (roots F) cs s (prodl_perms _ cs Hcs) HndA Hs), (cs_determined (roots F) cs' s (prodl_perms _ cs' Hcs') HndA Hs'). reflexivity.
Qed.

(* ---------- the point-mass form of uniformity ---------- *)
Definition ind (o x : list nat) : Qc := if list_eq_dec Nat.eq_dec x o then 1 else 0.
Lemma sum_ind_notin o l : ~ In o l -> sumq (map (ind o) l) = 0.
Proof.
  induction l as [|x l IH]; intros Hn; cbn [map sumq]; [reflexivity|].
  unfold ind at 1. destruct (list_eq_dec Nat.eq_dec x o) as [->|_]; [exfalso; apply Hn; left; reflexivity|].
  rewrite IH; [ring| intros H; apply Hn; right; exact H].
Qed.
Lemma sum_ind_NoDup o l : NoDup l -> In o l -> sumq (map (ind o) l) = 1.
Proof.
  induction 1 as [|x l Hx Hnd IH]; intros Hin; [contradiction|]. cbn [map sumq]. unfold ind at 1.
  destruct (list_eq_dec Nat.eq_dec x o) as [->|Hne].
  - rewrite sum_ind_notin by exact Hx. ring.
  - destruct Hin as [->|Hin]; [congruence|]. rewrite IH by exact Hin. ring.
Qed.

Theorem fsample_point_mass F o :
  NoDup (fpoints F) -> Permutation (fpoints F) o -> frespects o F ->
  E (fsample F) (ind o) = / fcount F.
Proof.
  intros Hnd Hp Hr. rewrite fsample_uniform.
  rewrite (sum_ind_NoDup o (forders F) (forders_NoDup F Hnd) (forders_complete F o Hnd Hp Hr)).
  unfold Qcdiv. ring.
Qed.
Theorem fsample_point_mass_incompatible F o :
  ~ (Permutation (fpoints F) o /\ frespects o F) -> E (fsample F) (ind o) = 0.
Proof.
  intros Hn. rewrite fsample_uniform. rewrite sum_ind_notin; [unfold Qcdiv; ring|].
  intros Hin. apply Hn. apply forders_sound. exact Hin.
Qed.
