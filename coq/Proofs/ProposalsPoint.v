(* Point-mass form of C08: the placement list has no duplicates, so "sampler = density-weighted sum over all placements"
   means: every placement is drawn with exactly its reported probability. *)
From PV Require Import Model.Proposals Proofs.GibbsProofs Proofs.ProposalsProofs Proofs.PermNoDup Model.ProposalsCases.
From Coq Require Import Bool.

Lemma subsets_k_sub {A} (l : list A) : forall k s, In s (subsets_k k l) -> (forall x, In x s -> In x l) /\ length s = k.
Proof.
  induction l as [|a r IH]; intros [|k] s Hs; cbn [subsets_k] in Hs.
  - destruct Hs as [<-|[]]. split; [intros x []| reflexivity].
  - contradiction.
  - destruct Hs as [<-|[]]. split; [intros x []| reflexivity].
  - apply in_app_or in Hs. destruct Hs as [Hs|Hs].
    + apply in_map_iff in Hs. destruct Hs as [s' [<- Hs']]. destruct (IH k s' Hs') as [H1 H2].
      split; [intros x [->|Hx]; [left; reflexivity| right; apply H1; exact Hx]| cbn [length]; congruence].
    + destruct (IH (S k) s Hs) as [H1 H2]. split; [intros x Hx; right; apply H1; exact Hx| exact H2].
Qed.

Lemma subsets_k_NoDup {A} (l : list A) : NoDup l -> forall k, NoDup (subsets_k k l).
Proof.
  induction 1 as [|a r Ha Hnd IH]; intros [|k]; cbn [subsets_k]; try (constructor; [intros []| constructor]).
  - constructor.
  - apply NoDup_app_intro.
    + apply NoDup_map_inj; [intros x y _ _ H; injection H; auto| apply IH].
    + apply IH.
    + intros s Hs Hs'. apply in_map_iff in Hs. destruct Hs as [s' [<- _]].
      destruct (subsets_k_sub r (S k) (a :: s') Hs') as [H1 _]. apply Ha. apply H1. left. reflexivity.
Qed.

Lemma new_places_NoDup R : NoDup (new_places R).
Proof.
  unfold new_places. apply NoDup_flat_map_intro.
  - apply seq_NoDup.
  - intros k _. apply NoDup_map_inj; [intros x y _ _ H; injection H; auto|]. apply subsets_k_NoDup. apply seq_NoDup.
  - intros k k' p _ _ Hp Hp'. apply in_map_iff in Hp. apply in_map_iff in Hp'.
    destruct Hp as [s [<- Hs]]. destruct Hp' as [s' [He Hs']]. injection He as ->.
    destruct (subsets_k_sub _ _ _ Hs) as [_ H1]. destruct (subsets_k_sub _ _ _ Hs') as [_ H2]. congruence.
Qed.

Theorem all_places_NoDup R on : NoDup (all_places R on).
Proof.
  unfold all_places. apply NoDup_app_intro; [| apply NoDup_app_intro|].
  - apply NoDup_map_inj; [intros x y _ _ H; injection H; auto| apply seq_NoDup].
  - apply new_places_NoDup.
  - destruct on; [constructor; [intros []| constructor]| constructor].
  - intros p Hp Hp'. destruct on; [|contradiction]. destruct Hp' as [<-|[]].
    unfold new_places in Hp. apply in_flat_map in Hp. destruct Hp as [k [_ Hp]]. apply in_map_iff in Hp.
    destruct Hp as [s [He _]]. discriminate.
  - intros p Hp Hp'. apply in_map_iff in Hp. destruct Hp as [i [<- _]]. apply in_app_or in Hp'. destruct Hp' as [Hp'|Hp'].
    + unfold new_places in Hp'. apply in_flat_map in Hp'. destruct Hp' as [k [_ Hp']]. apply in_map_iff in Hp'.
      destruct Hp' as [s [He _]]. discriminate.
    + destruct on; [destruct Hp' as [He|[]]; discriminate| contradiction].
Qed.

(* indicator of a placement and its sum over a duplicate-free list *)
Definition pind (p x : place) : Qc := if place_eqb x p then 1 else 0.
Lemma place_eqb_spec a b : place_eqb a b = true <-> a = b.
Proof.
  destruct a as [i|s|], b as [j|t|]; cbn [place_eqb]; try (split; [discriminate| discriminate]); try (split; reflexivity).
  - rewrite Nat.eqb_eq. split; [congruence| intros H; injection H; auto].
  - unfold lnat_eqb. split.
    + revert t. induction s as [|x s IH]; intros [|y t]; cbn [list_eqb]; try discriminate; [reflexivity|].
      rewrite andb_true_iff, Nat.eqb_eq. intros [-> H]. f_equal. apply IH in H. injection H as ->. reflexivity.
    + intros H. injection H as <-. induction s as [|x s IH]; cbn [list_eqb]; [reflexivity| rewrite Nat.eqb_refl; exact IH].
Qed.
Lemma sum_pind (g : place -> Qc) p l : NoDup l -> In p l -> sumq (map (fun x => g x * pind p x) l) = g p.
Proof.
  induction 1 as [|x l Hx Hnd IH]; intros Hin; [contradiction|]. cbn [map sumq]. unfold pind at 1.
  destruct (place_eqb x p) eqn:He.
  - apply place_eqb_spec in He. subst x.
    rewrite (sumq_map_ext _ (fun _ => 0)); [rewrite sumq_map_const; ring|].
    intros y Hy. unfold pind. destruct (place_eqb y p) eqn:Hy'; [apply place_eqb_spec in Hy'; subst; contradiction| ring].
  - destruct Hin as [->|Hin]; [rewrite (proj2 (place_eqb_spec p p) eq_refl) in He; discriminate|].
    rewrite IH by exact Hin. ring.
Qed.

Theorem boot_point_mass op first R p :
  (first = true -> R = 0%nat) -> In p (all_places R true) -> E (boot_sample op first R) (pind p) = boot_dens op first R p.
Proof. intros H Hin. rewrite boot_sample_is_density by exact H. apply sum_pind; [apply all_places_NoDup| exact Hin]. Qed.
Theorem full_point_mass gam R on p :
  total gam (all_places R on) <> 0 -> In p (all_places R on) -> E (full_sample gam R on) (pind p) = full_dens gam R on p.
Proof. intros H Hin. rewrite full_sample_is_density by exact H. apply sum_pind; [apply all_places_NoDup| exact Hin]. Qed.
Theorem semi_point_mass gam R (on : bool) p :
  (R = 0%nat -> total gam ((if on then [Outlier] else []) ++ [NewOver []]) <> 0) ->
  (R <> 0%nat -> total gam (semi_exist R on) <> 0) ->
  In p (all_places R on) -> E (semi_sample gam R on) (pind p) = semi_dens gam R on p.
Proof. intros H0 H1 Hin. rewrite semi_sample_is_density by assumption. apply sum_pind; [apply all_places_NoDup| exact Hin]. Qed.
