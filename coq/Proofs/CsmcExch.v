(* Exchangeability of the unconditional sampler and positivity/length invariants. *)
From PV Require Import Model.Csmc Proofs.CsmcSupport.
From Coq Require Import Bool.

Section EX.
Context {A : Type}.
Notation P := (list A).
Variable q : P -> dist A.
Variable om : P -> Qc.
Variable rs : @swarm A -> bool.
Variable n : nat.                                   (* number of slots besides slot 0 *)
Hypothesis ompos : forall p, 0 < om p.
Hypothesis qmass : forall p, mass (q p) = 1.
Hypothesis qpos : forall p a w, In (a, w) (q p) -> 0 <= w.
Hypothesis rs_sym : forall m s, rs (bring m s) = rs s.

Notation ext_w := (ext_w q om).
Notation updU := (updU q om).
Notation resU := (resU rs).
Notation runU := (runU q om rs).
Notation ustate := (@ustate A).

Definition Good (s : @swarm A) : Prop := length s = S n /\ Forall (fun pw => 0 < snd pw) s.
Definition GoodU (zs : ustate) : Prop := Good (snd zs).

Lemma sumw_sumq (s : @swarm A) : sumw s = sumq (map snd s).
Proof. induction s as [|pw r IH]; cbn [sumw map sumq]; [reflexivity| now rewrite IH]. Qed.
Lemma sumw_pos s : Good s -> 0 < sumw s.
Proof.
  intros [Hl HF]. destruct s as [|pw r]; [cbn in Hl; lia|]. inversion HF as [|? ? Hp HF']; subst.
  cbn [sumw]. apply Qc_add_pos; [exact Hp|]. clear -HF'.
  induction HF' as [|pw' r' Hp' _ IH]; cbn [sumw]; [apply Qcle_refl|].
  apply Qclt_le_weak, Qc_add_pos; assumption.
Qed.
Lemma sumw_bring m (s : @swarm A) : sumw (bring m s) = sumw s.
Proof. rewrite !sumw_sumq. apply sum_bring. Qed.
Lemma Good_bring m (s : @swarm A) : Good s -> Good (bring m s).
Proof.
  intros [Hl HF]. split; [rewrite bring_length; exact Hl|].
  clear Hl. revert s HF. induction m as [|m IH]; intros s HF; [exact HF|].
  destruct s as [|y r]; [constructor|]. inversion HF as [|? ? Hy HF']; subst. cbn [bring].
  specialize (IH r HF'). destruct (bring m r) as [|b r']; cbn [swap01].
  - constructor; [exact Hy| constructor].
  - inversion IH; subst. constructor; [assumption| constructor; assumption].
Qed.

Lemma E_cat (s : @swarm A) f : E (cat s) f = sumq (map (fun pw => snd pw * f (fst pw)) s) / sumw s.
Proof.
  unfold cat. generalize (sumw s). intros t. induction s as [|pw r IH]; cbn [map E sumq]; [unfold Qcdiv; ring|].
  rewrite IH. unfold Qcdiv. ring.
Qed.
Lemma E_cat_bring m (s : @swarm A) f : E (cat (bring m s)) f = E (cat s) f.
Proof. rewrite !E_cat, sumw_bring. f_equal. apply (sum_bring (fun pw => snd pw * f (fst pw))). Qed.
Lemma cat_mass s : Good s -> mass (cat s) = 1.
Proof.
  intros HG. unfold mass. rewrite E_cat.
  rewrite (sumq_map_ext _ snd) by (intros; ring). rewrite <- sumw_sumq.
  pose proof (sumw_pos s HG) as Hp. apply Qc_pos_neq0 in Hp. field. exact Hp.
Qed.

(* ---- the invariants are preserved ---- *)
Lemma All_ext_w pw : 0 < snd pw -> All (fun pw' => 0 < snd pw') (ext_w pw).
Proof.
  intros Hp. unfold Csmc.ext_w. apply (All_dmap (fun _ => True)); [apply All_True|].
  intros a _. cbn [snd]. apply Qc_mul_pos; [exact Hp| apply ompos].
Qed.
Lemma updU_Good zs : GoodU zs -> All GoodU (updU zs).
Proof.
  intros [Hl HF]. unfold Csmc.updU.
  apply (All_dmap (fun l => length l = length (map ext_w (snd zs)) /\ Forall (fun pw' => 0 < snd pw') l)).
  - apply All_seqdist. rewrite Forall_map. eapply Forall_impl; [|exact HF]. intros pw Hp. apply All_ext_w. exact Hp.
  - intros l [Hll HFl]. unfold GoodU, Good. cbn [snd]. rewrite map_length in Hll. unfold wp, swarm in *. split; [lia| exact HFl].
Qed.
Lemma fresh_Good (l : list P) : length l = S n -> Good (fresh l).
Proof.
  intros Hl. split; [unfold fresh; rewrite map_length; exact Hl|].
  unfold fresh. rewrite Forall_map. apply Forall_forall. intros p _. cbn [snd]. reflexivity.
Qed.
Lemma resU_Good zs : GoodU zs -> All GoodU (resU zs).
Proof.
  intros HG. unfold Csmc.resU. destruct (rs (snd zs)); [|apply All_ret; exact HG].
  apply (All_dmap (fun l => length l = length (snd zs) /\ Forall (fun _ => True) l)).
  - apply All_iidn. apply All_True.
  - intros l [Hl _]. unfold GoodU. cbn [snd]. apply fresh_Good. destruct HG as [Hs _]. congruence.
Qed.

(* ---- exchangeability ---- *)
Definition Exch (mu : dist ustate) : Prop :=
  forall m (h : Qc -> @swarm A -> Qc),
    E mu (fun zs => h (fst zs) (bring m (snd zs))) = E mu (fun zs => h (fst zs) (snd zs)).

Lemma Exch_updU mu : Exch mu -> Exch (bind mu updU).
Proof.
  intros HE m h. rewrite !E_bind.
  rewrite (E_ext _ _ (fun zs => (fun z s => E (updU (z, s)) (fun zs' => h (fst zs') (snd zs'))) (fst zs) (bring m (snd zs)))).
  - etransitivity; [exact (HE m (fun z s => E (updU (z, s)) (fun zs' => h (fst zs') (snd zs'))))|].
    apply E_ext. intros [z s]. reflexivity.
  - intros [z s]. cbn [fst snd]. unfold Csmc.updU. rewrite !E_dmap. cbn [fst snd].
    rewrite (seqdist_bring m (map ext_w s) (fun l => h z l)). rewrite bring_map. reflexivity.
Qed.

Lemma resU_bring m z s (h : Qc -> @swarm A -> Qc) :
  E (resU (z, bring m s)) (fun zs' => h (fst zs') (snd zs'))
  = if rs s then E (resU (z, s)) (fun zs' => h (fst zs') (snd zs')) else h z (bring m s).
Proof.
  unfold Csmc.resU. cbn [fst snd]. rewrite rs_sym. destruct (rs s).
  - rewrite !E_dmap. cbn [fst snd]. rewrite sumw_bring, bring_length.
    set (k := length s). set (c := z * (sumw s / qn k)).
    (* the categorical laws agree as functionals: compare iid expectations by induction *)
    assert (Hiid : forall j (g : list P -> Qc), E (iidn j (cat (bring m s))) g = E (iidn j (cat s)) g).
    { induction j as [|j IHj]; intros g; cbn [iidn]; [reflexivity|].
      rewrite !E_bind, E_cat_bring. apply E_ext. intros x. rewrite !E_dmap. apply IHj. }
    apply Hiid.
  - rewrite E_ret. reflexivity.
Qed.

Lemma Exch_resU mu : Exch mu -> Exch (bind mu resU).
Proof.
  intros HE m h. rewrite !E_bind.
  (* inner: push bring through the fresh iid draw *)
  assert (Hin : forall zs, E (resU zs) (fun zs' => h (fst zs') (bring m (snd zs')))
                = if rs (snd zs) then E (resU zs) (fun zs' => h (fst zs') (snd zs')) else h (fst zs) (bring m (snd zs))).
  { intros [z s]. unfold Csmc.resU. cbn [fst snd]. destruct (rs s).
    - rewrite !E_dmap. cbn [fst snd]. unfold fresh.
      rewrite (E_ext _ _ (fun l => h (z * (sumw s / qn (length s))) (map (fun p => (p, 1)) (bring m l)))).
      2:{ intros l. rewrite bring_map. reflexivity. }
      exact (iidn_bring m (length s) (cat s) (fun l' => h (z * (sumw s / qn (length s))) (map (fun p => (p, 1)) l'))).
    - rewrite E_ret. reflexivity. }
  rewrite (E_ext _ _ _ Hin).
  rewrite (E_ext _ _ (fun zs => (fun z s => E (resU (z, s)) (fun zs' => h (fst zs') (snd zs'))) (fst zs) (bring m (snd zs)))).
  - etransitivity; [exact (HE m (fun z s => E (resU (z, s)) (fun zs' => h (fst zs') (snd zs'))))|].
    apply E_ext. intros [z s]. reflexivity.
  - intros [z s]. cbn [fst snd]. rewrite resU_bring. destruct (rs s) eqn:Hr; [|reflexivity].
    reflexivity.
Qed.

Lemma Exch_init k (d : dist (@wp A)) : Exch (dmap (fun s => (1, s)) (iidn k d)).
Proof. intros m h. rewrite !E_dmap. cbn [fst snd]. apply (iidn_bring m k d (fun l => h 1 l)). Qed.

Lemma Exch_runU ops : forall mu, Exch mu -> Exch (bind mu (runU ops)).
Proof.
  induction ops as [|o ops IH]; intros mu HE.
  - cbn [Csmc.runU]. intros m h. rewrite !E_bind.
    rewrite (E_ext _ _ (fun zs => h (fst zs) (bring m (snd zs)))) by (intros zs; rewrite E_ret; reflexivity).
    etransitivity; [exact (HE m h)|]. apply E_ext. intros zs. rewrite E_ret. reflexivity.
  - assert (Hassoc : forall (k1 : ustate -> dist ustate) f, E (bind mu (fun zs => bind (k1 zs) (runU ops))) f
                      = E (bind (bind mu k1) (runU ops)) f).
    { intros k1 f. rewrite !E_bind. apply E_ext. intros zs. rewrite E_bind. reflexivity. }
    destruct o; cbn [Csmc.runU]; intros m h.
    + rewrite !Hassoc. apply (IH (bind mu updU) (Exch_updU mu HE) m h).
    + rewrite !Hassoc. apply (IH (bind mu resU) (Exch_resU mu HE) m h).
Qed.

Lemma Good_runU ops : forall mu, All GoodU mu -> All GoodU (bind mu (runU ops)).
Proof.
  induction ops as [|o ops IH]; intros mu HG.
  - cbn [Csmc.runU]. apply (All_bind GoodU); [exact HG|]. intros zs Hz. apply All_ret. exact Hz.
  - apply (All_bind GoodU); [exact HG|]. intros zs Hz. destruct o; cbn [Csmc.runU].
    + apply (IH (updU zs)). apply updU_Good. exact Hz.
    + apply (IH (resU zs)). apply resU_Good. exact Hz.
Qed.
End EX.
