(* C17 proofs, part 3: pre-clustered data points are the non-empty clusters in sorted cluster-id order. *)
From PV Require Import Model.Loader Proofs.LoaderOrder.

Lemma assign_all_spec cl ms a : assign_all cl ms = Some a ->
  forall m c, In (m, c) a <-> In m ms /\ cluster_of cl m = Some c.
Proof.
  revert a. induction ms as [|m0 ms IH]; cbn [assign_all]; intros a H m c.
  - inversion H. cbn [In]. tauto.
  - destruct (cluster_of cl m0) as [c0|] eqn:E0; [|discriminate].
    destruct (assign_all cl ms) as [a'|]; [|discriminate]. inversion H; subst a. cbn [In].
    rewrite (IH a' eq_refl). split.
    + intros [E|[Hm Hc]]; [inversion E; subst; tauto| tauto].
    + intros [[->|Hm] Hc]; [left; congruence| right; tauto].
Qed.

Lemma assign_all_none cl ms : assign_all cl ms = None <-> exists m, In m ms /\ cluster_of cl m = None.
Proof.
  induction ms as [|m0 ms IH]; cbn [assign_all].
  - split; [discriminate| intros [m [[] _]]].
  - destruct (cluster_of cl m0) as [c0|] eqn:E0.
    + destruct (assign_all cl ms) as [a'|].
      * split; [discriminate|]. intros [m [[->|Hm] Hc]]; [congruence|].
        assert (X : Some a' = None) by (apply (proj2 IH); exists m; tauto). discriminate.
      * split; [|reflexivity]. intros _. destruct (proj1 IH eq_refl) as [m [Hm Hc]]. exists m. cbn [In]. tauto.
    + split; [|reflexivity]. intros _. exists m0. cbn [In]. tauto.
Qed.

Theorem cluster_points_spec cl ms pts : cluster_points cl ms = Some pts ->
  ssorted (map fst pts) /\
  forall c mem, In (c, mem) pts ->
    mem <> [] /\ forall m, In m mem <-> In m ms /\ cluster_of cl m = Some c.
Proof.
  unfold cluster_points. destruct (assign_all cl ms) as [a|] eqn:Ea; [|discriminate].
  intros H. inversion H; subst pts. clear H. split.
  - rewrite map_map. cbn [fst]. rewrite map_id. apply ssorted_sort_u.
  - intros c mem Hin. apply in_map_iff in Hin. destruct Hin as [c' [E Hc']]. inversion E; subst c' mem. clear E.
    assert (Hmem : forall m, In m (map fst (filter (fun mc => id_eqb (snd mc) c) a)) <-> In (m, c) a).
    { intros m. rewrite in_map_iff. split.
      - intros [[m' c'] [Em Hf]]. cbn [fst] in Em. subst m'. apply filter_In in Hf. destruct Hf as [Hf Hc].
        cbn [snd] in Hc. apply id_eqb_eq in Hc. subst c'. exact Hf.
      - intros Hf. exists (m, c). split; [reflexivity|]. apply filter_In. split; [exact Hf|]. cbn [snd]. apply id_eqb_refl. }
    split.
    + apply (proj1 (In_sort_u _ _)) in Hc'. apply in_map_iff in Hc'. destruct Hc' as [[m c''] [Ec Hp]]. cbn [snd] in Ec. subst c''.
      intros Hnil. apply (proj2 (Hmem m)) in Hp. rewrite Hnil in Hp. destruct Hp.
    + intros m. rewrite Hmem. apply (assign_all_spec cl ms a Ea).
Qed.

(* KeyError exactly when a loaded mutation is missing from the cluster file *)
Theorem cluster_points_none cl ms : cluster_points cl ms = None <-> exists m, In m ms /\ cluster_of cl m = None.
Proof.
  unfold cluster_points. destruct (assign_all cl ms) as [a|] eqn:Ea.
  - split; [discriminate|]. intros Hm. apply assign_all_none in Hm. congruence.
  - split; [|reflexivity]. intros _. apply assign_all_none. exact Ea.
Qed.
