(* The assembled particle-Gibbs theorem with the FS-CRP posterior plugged in: for every number of data points, every
   grid size, number of samples, data set with positive grid likelihoods, concentration, proposal, particle count and
   resampling threshold, PhyClone's whole-tree update leaves invariant the measure whose weight on a clone forest is
   exp(log_p_one) as C03 specifies it on the data term C02 specifies. *)
From PV Require Import Model.EndToEnd Proofs.EndToEndPos Proofs.EndToEndAlign Proofs.GrammarProposals Proofs.CsmcEss Model.Csmc Model.CsmcCases Proofs.PgAssembly.

Theorem phyclone_update_invariant_fscrp (n G nsamp : nat) (on : bool) (alpha c : Qc) (D : nat -> dpoint) (thr : Q) (N : nat) :
  (1 <= n)%nat -> (1 <= G)%nat -> 0 < alpha -> 0 < c -> data_ok G nsamp D ->
  let gam := gam_fscrp alpha c G nsamp D n on in
  invariant (wlist gam (forests n on))
    (pg_update (gorders n) (gcden n) (gsup on) (q_full on (gtarget n gam)) (gtarget n gam) (gdec n) (genc n on) (ess_rs thr) N (schedule n))
  /\ invariant (wlist gam (forests n on))
    (pg_update (gorders n) (gcden n) (gsup on) (q_semi on (gtarget n gam)) (gtarget n gam) (gdec n) (genc n on) (ess_rs thr) N (schedule n))
  /\ (forall po : Qc, po < 1 -> (on = true -> 0 < po) -> (on = false -> po = 0) ->
      invariant (wlist gam (forests n on))
        (pg_update (gorders n) (gcden n) (gsup on) (q_boot po) (gtarget n gam) (gdec n) (genc n on) (ess_rs thr) N (schedule n))).
Proof.
  intros Hn HG Ha Hc Hd gam. apply phyclone_update_invariant_closed; [exact Hn|].
  intros t. unfold gam, gam_fscrp. apply dens_one_pos; assumption.
Qed.
